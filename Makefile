# /verif build: translate -> coq_makefile -> full .vo build (never -vos)
PY=/venv/bin/python
COQ=coq
.PHONY: setup translate coq-makefile coq clean lint

setup: translate coq-makefile coq

translate:
	PYTHONPATH=/repo/src $(PY) translator/py2v.py --repo $${VERIF_REPO:-/repo} --out $(COQ)/theories/Gen --all

coq-makefile:
	cd $(COQ) && ( echo "-Q theories DvcData"; echo "-arg -w -arg -notation-overridden,-deprecated-hint-without-locality,-deprecated-instance-without-locality"; find theories -name '*.v' | sort ) > _CoqProject && coq_makefile -f _CoqProject -o Makefile

coq: coq-makefile
	timeout 3000 $(MAKE) -C $(COQ) -j16

lint:
	@! grep -rnE '\b(Admitted|admit|Axiom|Parameter|Conjecture|bypass_check)\b|Unset Guard' $(COQ)/theories --include='*.v' | grep -v '^\S*:\s*[0-9]*:\s*(\*' 

clean:
	-$(MAKE) -C $(COQ) clean
	rm -f $(COQ)/Makefile $(COQ)/Makefile.conf $(COQ)/_CoqProject
	rm -rf $(COQ)/cases
