# /verif build: translate -> coq_makefile -> full .vo build (never -vos)
# every coqc runs under a shell timeout (a diverging tactic must never stall setup or a check)
PY=/venv/bin/python
COQ=coq
COQC_T=timeout 900 coqc
.PHONY: setup translate coq-makefile coq clean lint

setup: translate coq-makefile coq

translate:
	PYTHONPATH=/repo/src $(PY) translator/py2v.py --repo $${VERIF_REPO:-/repo} --out $(COQ)/theories/Gen --all

coq-makefile:
	cd $(COQ) && ( echo "-Q theories DvcData"; echo "-arg -w -arg -notation-overridden,-deprecated-hint-without-locality,-deprecated-instance-without-locality"; find theories -name '*.v' | sort ) > _CoqProject && coq_makefile -f _CoqProject -o Makefile

# -k: build everything that can be built; then require the property files of every claimed check
coq: coq-makefile
	-timeout 3000 $(MAKE) -C $(COQ) -j16 -k COQC="$(COQC_T)"
	$(PY) tools/claimed_built.py

lint:
	@! grep -rnE '\b(Admitted|admit|Axiom|Parameter|Conjecture|bypass_check)\b|Unset Guard' $(COQ)/theories --include='*.v' | grep -v '^\S*:\s*[0-9]*:\s*(\*' 

clean:
	-$(MAKE) -C $(COQ) clean
	rm -f $(COQ)/Makefile $(COQ)/Makefile.conf $(COQ)/_CoqProject
	rm -rf $(COQ)/cases
