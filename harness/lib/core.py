"""Core of the verification harness: obligations, Coq runs, verdict, evidence.

A property module (harness/props/cXX.py) exposes

    PROPERTY   = "C06"
    GEN        = ["gc"]            # translator units this property's proofs depend on
    ASSUMPTIONS = [...]            # text, copied into the evidence
    def run(ctx): ...              # correspondence + oracle, through the ctx API

and the core does the rest: re-translation, proof re-check (make + Print Assumptions + lint),
known-findings protocol, VIOLATION lines, replay files, evidence.
"""

from __future__ import annotations

import contextlib
import fcntl
import hashlib
import json
import os
import random
import re
import shutil
import subprocess
import sys
import tempfile
import time
from concurrent.futures import ThreadPoolExecutor

VERIF = os.path.dirname(os.path.dirname(os.path.dirname(os.path.abspath(__file__))))
REPO = os.environ.get("VERIF_REPO", "/repo")
COQ = os.path.join(VERIF, "coq")
THEORIES = os.path.join(COQ, "theories")
CASES = os.path.join(COQ, "cases")
PY = "/venv/bin/python"

ALLOWED_AXIOMS: dict[str, str] = {
    # name -> why it is acceptable (standard library / kernel primitive); see DESIGN.md section 8
}
ALLOWED_AXIOM_PREFIXES = (
    "PrimFloat.", "Uint63.", "PrimInt63.", "FloatOps.", "FloatAxioms.", "Coq.Floats.",
    "Coq.Numbers.Cyclic.Int63.", "Uint63Axioms.",
)

FORBIDDEN = re.compile(
    r"\b(Admitted|admit|Axiom|Axioms|Parameter|Parameters|Conjecture|Conjectures|"
    r"Admit\s+Obligations|bypass_check|Unset\s+Guard\s+Checking|Unset\s+Positivity\s+Checking|"
    r"Unset\s+Universe\s+Checking|type-in-type|impredicative-set|give_up)\b"
)


def sh(cmd, timeout=600, cwd=None, env=None, input=None):
    p = subprocess.run(
        cmd, cwd=cwd, env=env, input=input, capture_output=True, text=True, timeout=timeout,
        check=False,
    )
    return p.returncode, p.stdout, p.stderr


@contextlib.contextmanager
def build_lock():
    os.makedirs(CASES, exist_ok=True)
    with open(os.path.join(COQ, ".build.lock"), "w") as f:
        fcntl.flock(f, fcntl.LOCK_EX)
        try:
            yield
        finally:
            fcntl.flock(f, fcntl.LOCK_UN)


# --------------------------------------------------------------------------------------
# Coq terms from Python values


def cN(n: int) -> str:
    assert n >= 0
    return str(n)


def cbool(b: bool) -> str:
    return "true" if b else "false"


def cbytes(b) -> str:
    """bytes or str (code points) -> list N literal"""
    if isinstance(b, str):
        it = [ord(c) for c in b]
    else:
        it = list(b)
    return "[" + ";".join(str(x) for x in it) + "]"


def clist(items) -> str:
    return "[" + "; ".join(items) + "]"


def copt(x, f=lambda s: s) -> str:
    return "None" if x is None else f"(Some {f(x)})"


def cpair(a, b) -> str:
    return f"({a}, {b})"


def ctor(name, *args) -> str:
    if not args:
        return name
    return "(" + name + " " + " ".join(args) + ")"


# val literals (what the implementation produced)


def vN(n: int) -> str:
    return f"VN {int(n)}"


def vbool(b) -> str:
    return f"VN {1 if b else 0}"


def vB(b) -> str:
    return f"VB {cbytes(b)}"


def vL(items) -> str:
    return "VL [" + "; ".join(f"({i})" if not i.startswith("(") else i for i in items) + "]"


def vopt(x, f) -> str:
    return vL([]) if x is None else vL([f(x)])


def vset(strings) -> str:
    """set of str/bytes -> canonical sorted VL of VB (sorted by code point / byte)"""
    keyed = sorted({tuple(ord(c) for c in s) if isinstance(s, str) else tuple(s) for s in strings})
    return vL([f"VB [{';'.join(map(str, k))}]" for k in keyed])


def pyval(x) -> str:
    """generic Python value -> val literal: int/bool -> VN, str/bytes -> VB, None -> VL [],
    list/tuple -> VL, set/frozenset -> sorted VL, dict -> sorted VL of pairs."""
    if isinstance(x, bool):
        return vbool(x)
    if isinstance(x, int):
        return vN(x)
    if isinstance(x, (str, bytes)):
        return vB(x)
    if x is None:
        return vL([])
    if isinstance(x, (list, tuple)):
        return vL([pyval(i) for i in x])
    if isinstance(x, (set, frozenset)):
        return vL([pyval(i) for i in sorted(x, key=_sortkey)])
    if isinstance(x, dict):
        return vL([vL([pyval(k), pyval(v)]) for k, v in sorted(x.items(), key=lambda kv: _sortkey(kv[0]))])
    raise TypeError(type(x))


def _sortkey(x):
    if isinstance(x, str):
        return (1, tuple(ord(c) for c in x))
    if isinstance(x, bytes):
        return (1, tuple(x))
    if isinstance(x, (list, tuple)):
        return (2, tuple(_sortkey(i) for i in x))
    if isinstance(x, bool):
        return (0, int(x))
    if isinstance(x, int):
        return (0, x)
    if x is None:
        return (-1,)
    raise TypeError(type(x))


# parser for Coq's printing of a val (used for replay reports only)

_TOK = re.compile(r"\s*(VN|VB|VL|\[|\]|;|\(|\)|%N|%nat|\d+)")


def parse_val(text: str):
    toks = []
    pos = 0
    text = text.strip()
    while pos < len(text):
        m = _TOK.match(text, pos)
        if not m:
            raise ValueError(f"cannot tokenise val at {text[pos:pos + 40]!r}")
        toks.append(m.group(1))
        pos = m.end()
    toks = [t for t in toks if t not in ("%N", "%nat")]
    i = 0

    def val():
        nonlocal i
        t = toks[i]
        if t == "(":
            i += 1
            v = val()
            assert toks[i] == ")"
            i += 1
            return v
        i += 1
        if t == "VN":
            n = int(toks[i])
            i += 1
            return n
        if t == "VB":
            return bytes_or_str(lst(lambda: num()))
        if t == "VL":
            return lst(val)
        raise ValueError(t)

    def num():
        nonlocal i
        n = int(toks[i])
        i += 1
        return n

    def lst(elem):
        nonlocal i
        assert toks[i] == "[", toks[i]
        i += 1
        out = []
        while toks[i] != "]":
            out.append(elem())
            if toks[i] == ";":
                i += 1
        i += 1
        return out

    def bytes_or_str(ns):
        try:
            return "".join(chr(n) for n in ns)
        except ValueError:
            return ns

    return val()


# --------------------------------------------------------------------------------------


class Violation:
    def __init__(self, kind, signature, what, case=None, detail=None):
        self.kind = kind  # oracle | translation | proof | correspondence
        self.signature = signature
        self.what = what
        self.case = case
        self.detail = detail


class Ctx:
    def __init__(self, prop: str, tier: str, seed: int, replay: str | None = None):
        self.prop = prop
        self.tier = tier
        self.seed = seed
        self.rng = random.Random(seed * 1000003 + int(prop[1:]))
        self.t0 = time.time()
        self.violations: list[Violation] = []
        self.obligations: list[tuple[str, bool, str]] = []  # (name, ok, note)
        self.evaluations = 0
        self.nontrivial: set[str] = set()
        self.samples: list = []
        self.dist: dict[str, int] = {}
        self.extra: dict = {}
        self.assumptions: list[str] = []
        self.trusted: list[str] = []
        self.known = load_known(prop)
        self.known_hits: dict[str, int] = {}
        self.replay = replay
        self.theorems: list[str] = []
        self.axioms: dict[str, list[str]] = {}
        self._tmp = None
        self.changed_anchors: list[str] = []

    # ---- scale ----
    def n(self, quick: int, thorough: int) -> int:
        if self.changed_anchors and self.tier == "quick":
            # DESIGN 4.4: an anchored function changed -> deepen the quick tier
            return max(quick, min(thorough, quick * 4))
        return quick if self.tier == "quick" else thorough

    # ---- scratch ----
    def tmpdir(self) -> str:
        if self._tmp is None:
            self._tmp = tempfile.mkdtemp(prefix=f"verif-{self.prop}-")
        return self._tmp

    def fresh(self, name="case") -> str:
        d = tempfile.mkdtemp(prefix=name + "-", dir=self.tmpdir())
        return d

    def cleanup(self):
        if self._tmp:
            subprocess.run(["chmod", "-R", "u+rwX", self._tmp], check=False)
            shutil.rmtree(self._tmp, ignore_errors=True)
            self._tmp = None

    # ---- bookkeeping ----
    def count(self, key: str, k: int = 1):
        self.dist[key] = self.dist.get(key, 0) + k

    def case(self, case, nontrivial: bool = True, sample_limit: int = 3):
        """register one explored case (JSON-able)"""
        self.evaluations += 1
        if nontrivial:
            h = hashlib.sha1(json.dumps(case, sort_keys=True, default=str).encode()).hexdigest()
            if h not in self.nontrivial and len(self.samples) < sample_limit:
                self.samples.append(case)
            self.nontrivial.add(h)

    def obligation(self, name: str, ok: bool, note: str = ""):
        self.obligations.append((name, bool(ok), note))

    def oracle_fail(self, signature: str, what: str, case):
        """the property itself fails on the implementation for this case"""
        k = self.known.get(signature)
        if k is not None and k.get("status") == "known":
            self.known_hits[signature] = self.known_hits.get(signature, 0) + 1
            return
        if not any(v.signature == signature for v in self.violations):
            self.violations.append(Violation("oracle", signature, what, case))

    def broken(self, kind: str, name: str, what: str, detail=None, case=None):
        """a translation / proof / correspondence obligation no longer checks"""
        self.violations.append(Violation(kind, name, what, case, detail))

    # ---- Coq ----
    def coqc(self, path: str, timeout=600):
        cmd = ["timeout", str(timeout), "coqc", "-q", "-Q", THEORIES, "DvcData", "-Q", CASES, "Cases", path]
        return sh(cmd, timeout=timeout + 30, cwd=COQ)

    def coq_eval_failing(self, name: str, imports: str, ty: str, okfn: str, cases: list[str],
                         shard: int = 250, timeout=600):
        """cases: Coq terms of type [ty]; okfn : ty -> bool.  Returns (evaluated, [bad indices])
        or raises RuntimeError with the coq error (a broken correspondence obligation)."""
        os.makedirs(CASES, exist_ok=True)
        shards = [cases[i:i + shard] for i in range(0, len(cases), shard)]
        files = []
        for si, sh_cases in enumerate(shards):
            mod = f"{self.prop}_{name}_{si}_p{os.getpid()}"
            path = os.path.join(CASES, mod + ".v")
            with open(path, "w") as f:
                f.write(imports + "\n")
                f.write("From DvcData Require Import Base.Val.\nImport ListNotations.\nOpen Scope N_scope.\n")
                f.write(f"Definition cases : list ({ty}) := [\n")
                f.write(";\n".join(sh_cases))
                f.write("\n].\n")
                f.write(f"Definition res := failing ({okfn}) cases.\n")
                f.write("Eval vm_compute in res.\n")
            files.append(path)
        with ThreadPoolExecutor(max_workers=min(12, max(1, len(files)))) as ex:
            outs = list(ex.map(lambda p: self.coqc(p, timeout), files))
        bad = []
        total = 0
        for si, (rc, out, err) in enumerate(outs):
            if rc != 0:
                raise RuntimeError(f"coqc failed on {files[si]}:\n{err[-3000:]}")
            m = re.search(r"=\s*\((\d+)(?:%N)?,\s*(\[[^\]]*\])", out.replace("\n", " "))
            if not m:
                raise RuntimeError(f"cannot parse coq output of {files[si]}: {out[-2000:]}")
            total += int(m.group(1))
            for x in re.findall(r"\d+", m.group(2)):
                bad.append(si * shard + int(x))
        for p in files:
            for ext in (".v", ".vo", ".vok", ".vos", ".glob"):
                with contextlib.suppress(FileNotFoundError):
                    os.remove(p[:-2] + ext)
            with contextlib.suppress(FileNotFoundError):
                os.remove(os.path.join(os.path.dirname(p), "." + os.path.basename(p)[:-2] + ".aux"))
        return total, bad

    def coq_eval_val(self, name: str, imports: str, term: str, timeout=300):
        """Evaluate a term of type val inside Coq and return it parsed (for replay reports)."""
        os.makedirs(CASES, exist_ok=True)
        path = os.path.join(CASES, f"{self.prop}_{name}_show_p{os.getpid()}.v")
        with open(path, "w") as f:
            f.write(imports + "\nFrom DvcData Require Import Base.Val.\nImport ListNotations.\nOpen Scope N_scope.\n")
            f.write("Set Printing Depth 1000000.\nSet Printing Width 200.\n")
            f.write(f"Eval vm_compute in ({term}).\n")
        rc, out, err = self.coqc(path, timeout)
        for ext in (".v", ".vo", ".vok", ".vos", ".glob"):
            with contextlib.suppress(FileNotFoundError):
                os.remove(path[:-2] + ext)
        if rc != 0:
            return {"coq_error": err[-2000:]}
        m = re.search(r"=\s*(.*?)\s*:\s*val\s*$", out, re.S)
        if not m:
            return {"coq_output": out[-2000:]}
        try:
            return parse_val(m.group(1))
        except Exception as exc:  # noqa: BLE001
            return {"unparsed": m.group(1)[:2000], "error": str(exc)}

    def correspond(self, name: str, imports: str, ty: str, model: str, items: list, show=None,
                   shard: int = 250):
        """items: list of (case_json, input_term, expected_val_literal).
        model: Coq function  ty_in -> val ; ty is the input type.
        Records a correspondence obligation; returns list of disagreeing case_json."""
        terms = [f"({inp}, {exp})" for _, inp, exp in items]
        okfn = f"fun c => val_eqb (({model}) (fst c)) (snd c)"
        try:
            total, bad = self.coq_eval_failing(name, imports, f"({ty}) * val", okfn, terms, shard=shard)
        except RuntimeError as exc:
            self.obligation(f"correspondence:{name}", False, "coq evaluation failed")
            self.broken("correspondence", f"correspondence:{name}",
                        f"the model could not be evaluated on the generated cases ({name})",
                        detail=str(exc))
            return None
        ok = (total == len(items)) and not bad
        self.obligation(f"correspondence:{name}", ok, f"{total} cases evaluated in Coq, {len(bad)} disagree")
        self.extra.setdefault("correspondence", {})[name] = {"cases": total, "disagree": len(bad)}
        out = []
        if bad:
            for bi in bad[:3]:
                cj, inp, exp = items[bi]
                mv = self.coq_eval_val(name, imports, f"({model}) ({inp})")
                out.append({"case": cj, "model": mv, "implementation": _try_parse(exp)})
            self.broken("correspondence", f"correspondence:{name}",
                        f"model and implementation disagree on {len(bad)} of {total} cases ({name})",
                        detail=out, case=items[bad[0]][0])
        elif total != len(items):
            self.broken("correspondence", f"correspondence:{name}", "case count mismatch")
        return [items[b][0] for b in bad]


def _try_parse(v):
    try:
        return parse_val(v)
    except Exception:  # noqa: BLE001
        return v[:2000]


# --------------------------------------------------------------------------------------
# known findings


def load_known(prop):
    path = os.path.join(VERIF, "known_findings.json")
    if not os.path.exists(path):
        return {}
    with open(path) as f:
        data = json.load(f)
    out = {}
    for e in data.get("findings", []):
        if e.get("property") == prop:
            out[e["signature"]] = e
    return out


# --------------------------------------------------------------------------------------
# obligations 1 and 2: translation, proofs


def run_translator(ctx: Ctx, units):
    """Regenerate coq/theories/Gen/*.v for the given units from /repo's current source."""
    if not units:
        return True
    cmd = [PY, os.path.join(VERIF, "translator", "py2v.py"), "--repo", REPO, "--out",
           os.path.join(THEORIES, "Gen"), "--json"] + list(units)
    rc, out, err = sh(cmd, timeout=120)
    ok = rc == 0
    info = {}
    try:
        info = json.loads(out.strip().splitlines()[-1]) if out.strip() else {}
    except Exception:  # noqa: BLE001
        pass
    for u in units:
        # per unit: one unit failing closed does not make the others' translation obligations fail
        # (py2v exits 1 as soon as any unit fails); no parsable report at all = every unit failed
        uok = bool(info.get(u, {}).get("ok", False))
        ctx.obligation(f"translation:{u}", uok, info.get(u, {}).get("note", err[-300:] if not ok else ""))
        if not uok:
            ctx.broken("translation", f"translation:{u}",
                       f"the translator could not translate unit {u} from the current source (fail-closed)",
                       detail=(info.get(u, {}).get("error") or err[-2000:]))
        if info.get(u, {}).get("changed"):
            ctx.changed_anchors.append(u)
    ctx.extra["translated_units"] = {u: info.get(u, {}).get("hash") for u in units}
    return ok


def coq_cone(prop_file: str) -> list[str]:
    """.v files Properties/Cxx.v transitively depends on (inside the project)."""
    seen = set()
    todo = [prop_file]
    req = re.compile(r"From\s+DvcData\s+Require\s+(?:Import\s+|Export\s+)?(.*?)\.\s", re.S)
    while todo:
        f = todo.pop()
        if f in seen or not os.path.exists(f):
            continue
        seen.add(f)
        with open(f) as fh:
            src = fh.read()
        for m in req.finditer(src + " "):
            for mod in m.group(1).split():
                p = os.path.join(THEORIES, *mod.split(".")) + ".v"
                todo.append(p)
    return sorted(seen)


def strip_comments(src: str) -> str:
    out = []
    depth = 0
    i = 0
    while i < len(src):
        if src.startswith("(*", i):
            depth += 1
            i += 2
        elif src.startswith("*)", i) and depth:
            depth -= 1
            i += 2
        else:
            if depth == 0:
                out.append(src[i])
            i += 1
    return "".join(out)


def check_proofs(ctx: Ctx, timeout=1500):
    prop_v = os.path.join(THEORIES, "Properties", ctx.prop + ".v")
    if not os.path.exists(prop_v):
        ctx.obligation("proof:file", False, "no property file")
        ctx.broken("proof", "proof:file", f"Properties/{ctx.prop}.v is missing")
        return
    with build_lock():
        # the file list may have grown since the Makefile was generated
        sh(["make", "-C", VERIF, "coq-makefile", "COQ=" + COQ], timeout=120)
        cone = coq_cone(prop_v)
        deps = [os.path.relpath(p, COQ)[:-2] + ".vo" for p in cone if p != prop_v]
        # always regenerate dependency info: Gen files may have changed
        rc, out, err = sh(["timeout", str(timeout), "make", "-C", COQ, "-j12", "COQC=timeout 900 coqc"] + deps, timeout=timeout + 60)
        if rc != 0:
            thm = _first_error(err + out)
            ctx.obligation("proof:build", False, thm[:300])
            ctx.broken("proof", "proof:build",
                       "a proof in the dependency cone no longer checks against the regenerated model",
                       detail=thm)
            return
        ctx.obligation("proof:build", True, f"{len(deps)} files in the cone")
        rc, out, err = sh(["timeout", "600", "coqc", "-q", "-Q", THEORIES, "DvcData", prop_v], timeout=660, cwd=COQ)
    if rc != 0:
        ctx.obligation("proof:properties", False, _first_error(err)[:300])
        ctx.broken("proof", f"proof:Properties/{ctx.prop}.v",
                   "a property theorem no longer checks", detail=_first_error(err))
        return
    # lint
    bad = []
    for p in cone:
        with open(p) as fh:
            src = strip_comments(fh.read())
        for m in FORBIDDEN.finditer(src):
            bad.append(f"{os.path.relpath(p, COQ)}: {m.group(0)}")
    ctx.obligation("proof:lint", not bad, "; ".join(bad[:5]))
    if bad:
        ctx.broken("proof", "proof:lint", "forbidden vernacular in the development", detail=bad)
    # theorems + assumptions
    with open(prop_v) as fh:
        psrc = strip_comments(fh.read())
    thms = re.findall(r"\b(?:Theorem|Lemma|Corollary)\s+([A-Za-z_][A-Za-z_0-9']*)", psrc)
    prints = re.findall(r"Print\s+Assumptions\s+([A-Za-z_][A-Za-z_0-9'.]*)\s*\.", psrc)
    blocks = _assumption_blocks(out)
    ctx.theorems = thms
    if len(blocks) != len(prints) or set(thms) - set(prints):
        ctx.obligation("proof:assumptions", False, "Print Assumptions missing for a theorem")
        ctx.broken("proof", "proof:assumptions",
                   f"Print Assumptions output incomplete: {len(blocks)} blocks for {len(prints)} commands; "
                   f"theorems without one: {sorted(set(thms) - set(prints))}")
        return
    for name, blk in zip(prints, blocks):
        axs = [] if blk is None else blk
        illegal = [a for a in axs if a not in ALLOWED_AXIOMS and not a.startswith(ALLOWED_AXIOM_PREFIXES)]
        ctx.axioms[name] = axs
        ctx.obligation(f"theorem:{name}", not illegal,
                       "closed under the global context" if not axs else "axioms: " + ", ".join(axs))
        if illegal:
            ctx.broken("proof", f"theorem:{name}", f"theorem depends on non-whitelisted axioms {illegal}")


def _assumption_blocks(out: str):
    """Split coqc stdout into one entry per Print Assumptions: None (closed) or [axiom names]."""
    blocks = []
    lines = out.splitlines()
    i = 0
    while i < len(lines):
        ln = lines[i]
        if ln.startswith("Closed under the global context"):
            blocks.append(None)
        elif ln.startswith("Axioms:"):
            axs = []
            i += 1
            while i < len(lines) and lines[i] and not lines[i].startswith(("Closed under", "Axioms:")):
                m = re.match(r"^([A-Za-z_][A-Za-z_0-9'.]*)\s*:", lines[i])
                if m:
                    axs.append(m.group(1))
                i += 1
            blocks.append(axs)
            continue
        i += 1
    return blocks


def _first_error(text: str) -> str:
    m = re.search(r'File "([^"]+)", line (\d+), characters [\d-]+:\s*\n?Error:?(.*?)(?:\n\n|\Z)', text, re.S)
    if m:
        return f"{m.group(1)}:{m.group(2)}: {m.group(3).strip()[:1500]}"
    return text[-2000:]


# --------------------------------------------------------------------------------------
# verdict


def finish(ctx: Ctx, mod) -> int:
    wall = time.time() - ctx.t0
    os.makedirs(os.path.join(VERIF, "replays"), exist_ok=True)
    os.makedirs(os.path.join(VERIF, "evidence"), exist_ok=True)
    lines = []
    # known findings that reproduced
    for sig, cnt in ctx.known_hits.items():
        k = ctx.known[sig]
        lines.append(f"KNOWN-FINDING: property={ctx.prop} {k['what']} [{sig}; reproduced on {cnt} case(s)]")
    oracle_v = [v for v in ctx.violations if v.kind == "oracle"]
    other_v = [v for v in ctx.violations if v.kind != "oracle"]
    exit_code = 0
    reported = 0
    for v in oracle_v:
        path = _write_replay(ctx, v)
        lines.append(f"VIOLATION property={ctx.prop} replay={path}")
        exit_code = 1
        reported += 1
    if other_v and not oracle_v:
        # obligations broke but no failing input was found by the oracles of this run
        v = other_v[0]
        v.detail = {"broken": [{"name": o.signature, "what": o.what, "detail": o.detail} for o in other_v]}
        path = _write_replay(ctx, v, no_input=True)
        lines.append(f"VIOLATION property={ctx.prop} replay={path} no-failing-input-found")
        exit_code = 1
        reported += 1
    elif other_v:
        # attach the broken obligations to the first replay for the reader
        pass
    n_obl = len(ctx.obligations)
    n_ok = sum(1 for _, ok, _ in ctx.obligations if ok)
    ev = {
        "property_id": ctx.prop,
        "tier": ctx.tier,
        "seed": ctx.seed,
        "level": "proof",
        "coverage": {
            "obligations": n_obl,
            "discharged": n_ok,
            "checker_cmd": f"make -C coq (coq_makefile, full .vo build) ; coqc -Q coq/theories DvcData coq/theories/Properties/{ctx.prop}.v ; harness/check.py {ctx.prop} --tier {ctx.tier}",
            "trusted_base": ctx.trusted or DEFAULT_TRUSTED,
            "obligation_list": [{"name": n, "ok": ok, "note": note} for n, ok, note in ctx.obligations],
            "theorems": ctx.theorems,
            "axioms": ctx.axioms,
            "evaluations": ctx.evaluations,
            "distinct_nontrivial": len(ctx.nontrivial),
            "rule": getattr(mod, "RULE", ""),
            "samples": ctx.samples[:3],
            "input_distribution": dict(sorted(ctx.dist.items())),
            "known_findings_reproduced": ctx.known_hits,
            "changed_anchors": ctx.changed_anchors,
            **ctx.extra,
        },
        "assumptions": list(getattr(mod, "ASSUMPTIONS", [])) + ctx.assumptions,
        "wall_s": round(wall, 2),
        "violations": reported,
    }
    ev_dir = os.path.join(VERIF, "evidence") if os.path.realpath(REPO) == "/repo" else os.path.join(VERIF, "replays", "scratch-evidence")
    os.makedirs(ev_dir, exist_ok=True)
    if "exhaustive" in ev["coverage"] and not isinstance(ev["coverage"]["exhaustive"], bool):
        ev["coverage"]["exhaustive_detail"] = ev["coverage"].pop("exhaustive")
    with open(os.path.join(ev_dir, ctx.prop + ".json"), "w") as f:
        json.dump(ev, f, indent=1, sort_keys=True, default=str)
        f.write("\n")
    for ln in lines:
        print(ln)
    print(f"{ctx.prop} {ctx.tier}: obligations {n_ok}/{n_obl}, {ctx.evaluations} evaluations, "
          f"{len(ctx.nontrivial)} distinct non-trivial, {wall:.1f}s, exit {exit_code}")
    if exit_code:
        for n, ok, note in ctx.obligations:
            if not ok:
                print(f"  broken obligation: {n}: {note}")
    return exit_code


DEFAULT_TRUSTED = [
    "Coq 8.16.1 kernel (coqc); vm_compute used for examples, finite sweeps and the correspondence evaluation; native_compute not used",
    "no axioms declared by the development; Print Assumptions under every property theorem is checked on every run",
    "translator/py2v.py (Python ast -> Gallina, fail-closed) for the units listed in translated_units, cross-validated against the real functions",
    "correspondence harness (generators, canonicalisation, fault-injecting wrappers, oracles) - differential testing, bounded by generator quality",
    "environment modelled, not verified: hashlib, json, the kernel file system, SQLite/diskcache, dvc_objects, dictdiffer, pygtrie/sqltrie",
]


def _write_replay(ctx: Ctx, v: Violation, no_input=False) -> str:
    h = hashlib.sha1((v.signature + json.dumps(v.case, sort_keys=True, default=str)).encode()).hexdigest()[:10]
    path = os.path.join(VERIF, "replays", f"{ctx.prop}-{h}.json")
    body = {
        "property": ctx.prop,
        "kind": v.kind,
        "signature": v.signature,
        "what": v.what,
        "case": v.case,
        "detail": v.detail,
        "seed": ctx.seed,
        "tier": ctx.tier,
        "no_failing_input_found": no_input,
    }
    if no_input:
        body["no_longer_checks"] = v.signature
    with open(path, "w") as f:
        json.dump(body, f, indent=1, default=str)
        f.write("\n")
    return path


def main(argv=None):
    import argparse
    import importlib

    ap = argparse.ArgumentParser()
    ap.add_argument("prop")
    ap.add_argument("--tier", default=os.environ.get("VERIF_TIER") or "quick")
    ap.add_argument("--replay")
    ap.add_argument("--no-proofs", action="store_true", help="development only: skip obligation 2")
    args = ap.parse_args(argv)
    if os.environ.get("VERIF_TIER") in ("quick", "thorough") and "--tier" not in (argv or sys.argv):
        args.tier = os.environ["VERIF_TIER"]
    seed = int(os.environ.get("VERIF_SEED") or 0)
    prop = args.prop.upper()
    sys.path.insert(0, os.path.join(VERIF, "harness"))
    sys.path.insert(0, os.path.join(REPO, "src"))
    mod = importlib.import_module(f"props.{prop.lower()}")
    ctx = Ctx(prop, args.tier, seed, replay=args.replay)
    iso = _isolate_coq_tree() if os.path.realpath(REPO) != "/repo" else None
    try:
        if args.replay:
            with open(args.replay) as f:
                body = json.load(f)
            rc = mod.replay(ctx, body) if hasattr(mod, "replay") else _default_replay(ctx, mod, body)
            return rc
        run_translator(ctx, getattr(mod, "GEN", []))
        if not args.no_proofs:
            check_proofs(ctx)
        try:
            mod.run(ctx)
        except Exception as exc:  # noqa: BLE001
            import traceback

            tb = traceback.format_exc()
            ctx.obligation("harness:run", False, repr(exc)[:300])
            ctx.broken("correspondence", "harness:run",
                       "the correspondence harness raised an exception (implementation API changed or crashed)",
                       detail=tb[-4000:])
        return finish(ctx, mod)
    finally:
        ctx.cleanup()
        if iso:
            shutil.rmtree(iso, ignore_errors=True)


def _isolate_coq_tree():
    """VERIF_REPO points at a scratch worktree (mutation testing): work on a private copy of the
    Coq tree so that regenerated Gen/*.v and rebuilt .vo files never disturb /verif/coq."""
    global COQ, THEORIES, CASES
    d = tempfile.mkdtemp(prefix="verif-coq-")
    dst = os.path.join(d, "coq")
    shutil.copytree(COQ, dst, symlinks=True, ignore=shutil.ignore_patterns("cases", ".build.lock"))
    COQ = dst
    THEORIES = os.path.join(COQ, "theories")
    CASES = os.path.join(COQ, "cases")
    return d


def _default_replay(ctx, mod, body):
    print(json.dumps(body, indent=1)[:6000])
    if body.get("case") is not None and hasattr(mod, "replay_case"):
        res = mod.replay_case(ctx, body["case"])
        print("replayed on the implementation:", json.dumps(res, indent=1, default=str)[:6000])
        return 1 if res.get("violates") else 0
    return 0
