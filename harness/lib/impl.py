"""Helpers to drive the real implementation (dvc_data from /repo/src) and to observe it
independently (plain os / hashlib / json; nothing from dvc_data in the observers)."""

from __future__ import annotations

import hashlib
import json
import logging
import os
import shutil
import stat

logging.disable(logging.CRITICAL)

ERR = {  # small error enum shared with the models
    "ok": 0,
    "ObjectDBPermissionError": 1,
    "FileNotFoundError": 2,
    "ObjectFormatError": 3,
    "PromptError": 4,
    "CheckoutError": 5,
    "MergeError": 6,
    "LinkError": 7,
    "KeyError": 8,
    "ValueError": 9,
    "AssertionError": 10,
    "DataIndexDirError": 11,
    "StorageKeyError": 12,
    "NotImplementedError": 13,
    "TreeError": 14,
    "other": 99,
}


def err_code(exc: BaseException) -> int:
    for cls in type(exc).__mro__:
        if cls.__name__ in ERR:
            return ERR[cls.__name__]
    return ERR["other"]


def md5hex(b: bytes) -> str:
    return hashlib.md5(b).hexdigest()  # noqa: S324


def mk_tree(root: str, tree: dict, modes: dict | None = None):
    """tree: {relpath: bytes}; creates root (fresh)"""
    if os.path.lexists(root):
        rm_rf(root)
    os.makedirs(root)
    for rel, data in tree.items():
        p = os.path.join(root, *rel.split("/"))
        os.makedirs(os.path.dirname(p), exist_ok=True)
        with open(p, "wb") as f:
            f.write(data)
        if modes and rel in modes:
            os.chmod(p, modes[rel])


def rm_rf(path: str):
    if os.path.islink(path) or os.path.isfile(path):
        os.unlink(path)
        return
    for r, ds, fs in os.walk(path):
        for d in ds:
            p = os.path.join(r, d)
            if not os.path.islink(p):
                os.chmod(p, 0o755)
    shutil.rmtree(path, ignore_errors=True)


def walk_files(root: str) -> dict:
    """{relpath: bytes} of regular files (symlinks followed for content) below root"""
    out = {}
    for r, ds, fs in os.walk(root):
        for n in fs:
            p = os.path.join(r, n)
            rel = os.path.relpath(p, root).replace(os.sep, "/")
            try:
                with open(p, "rb") as f:
                    out[rel] = f.read()
            except FileNotFoundError:
                out[rel] = None  # broken link
    return out


def walk_dirs(root: str) -> list:
    out = []
    for r, ds, fs in os.walk(root):
        for n in ds:
            out.append(os.path.relpath(os.path.join(r, n), root).replace(os.sep, "/"))
    return sorted(out)


def walk_store(path: str) -> dict:
    """independent listing of an object store directory: {oid: (bytes, mode)} using the
    two-level fan-out rule (a file at <root>/<2 chars>/<rest>)"""
    out = {}
    if not os.path.isdir(path):
        return out
    for d in sorted(os.listdir(path)):
        dp = os.path.join(path, d)
        if len(d) != 2 or not os.path.isdir(dp):
            continue
        for n in sorted(os.listdir(dp)):
            fp = os.path.join(dp, n)
            if os.path.isfile(fp):
                with open(fp, "rb") as f:
                    out[d + n] = (f.read(), stat.S_IMODE(os.lstat(fp).st_mode))
    return out


def canon_listing(entries) -> bytes:
    """independent canonical encoder of a directory listing: entries = [(relpath, md5hex)]"""
    lst = sorted(({"md5": h, "relpath": rp} for rp, h in entries), key=lambda d: d["relpath"])
    return json.dumps(lst, sort_keys=True).encode("utf-8")


def dir_oid(entries) -> str:
    return md5hex(canon_listing(entries)) + ".dir"


def plant(store_path: str, oid: str, data: bytes, mode: int | None = 0o444):
    p = os.path.join(store_path, oid[:2], oid[2:])
    os.makedirs(os.path.dirname(p), exist_ok=True)
    if os.path.lexists(p):
        os.chmod(p, 0o644)
        os.unlink(p)
    with open(p, "wb") as f:
        f.write(data)
    if mode is not None:
        os.chmod(p, mode)
    return p


def local_odb(path, **cfg):
    from dvc_objects.fs.local import localfs

    from dvc_data.hashfile.db.local import LocalHashFileDB

    return LocalHashFileDB(localfs, os.path.abspath(path), **cfg)


def base_odb(path, fs=None, **cfg):
    from dvc_objects.fs.local import LocalFileSystem

    from dvc_data.hashfile.db import HashFileDB

    return HashFileDB(fs or LocalFileSystem(), os.path.abspath(path), **cfg)


def make_odb(cls: str, path, **cfg):
    return local_odb(path, **cfg) if cls == "local" else base_odb(path, **cfg)


def stage(odb, root, name="md5", **kw):
    """build + transfer of a workspace path into odb; returns the object"""
    from dvc_objects.fs.local import localfs

    from dvc_data.hashfile.build import build
    from dvc_data.hashfile.transfer import transfer

    staging, meta, obj = build(odb, os.path.abspath(root), localfs, name, **kw)
    transfer(staging, odb, {obj.hash_info}, shallow=False)
    return meta, obj
