#!/venv/bin/python
"""check.py Cxx [--tier quick|thorough] [--replay file] - see harness/lib/core.py"""
import os
import sys

if not os.environ.get("VERIF_REEXEC"):
    # fixed hash seed and import path for the implementation under test
    os.environ["VERIF_REEXEC"] = "1"
    os.environ["PYTHONHASHSEED"] = os.environ.get("VERIF_HASHSEED", "0")
    os.environ["PYTHONPATH"] = os.environ.get("VERIF_REPO", "/repo") + "/src"
    os.environ["PYTHONDONTWRITEBYTECODE"] = "1"
    os.execv(sys.executable, [sys.executable] + sys.argv)

sys.path.insert(0, os.path.dirname(os.path.abspath(__file__)))
from lib.core import main  # noqa: E402

if __name__ == "__main__":
    sys.exit(main(sys.argv[1:]))
