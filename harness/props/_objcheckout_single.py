"""C10, single-file targets (the checked-out path itself becomes the link).  ORACLE ONLY: the Coq model
Model/ObjCheckout.v covers directory targets; a file target goes through the ROOT key of hashfile/diff.py with
no old meta (fs.iscopy, always-relink), which the model leaves out.  Judged on the real run: bytes, link kind,
idempotence, cache bytes, and the saved link record (inode half = lstat inode of the path, mtime half = the
token get_mtime_and_size gives for the path)."""

from __future__ import annotations

import os
import stat

from lib import impl

from props._objcheckout_common import CONTENT_POOL, Clock, cbytes_of, md5hex, obj_path, snap_cache

KINDS = ("copy", "hardlink", "symlink")
PRIORS = [None, ("same", "copy"), ("other", "copy"), ("same", "hardlink"), ("other", "hardlink"),
          ("same", "symlink"), ("other", "symlink"), ("user", "copy")]


def gen_single(rng):
    tgt = rng.choice(["A", "B", "C", "D", "E", "A", "B"])
    pr = rng.choice(PRIORS)
    prior = None
    if pr is not None:
        which, kind = pr
        cid = tgt if which == "same" else ("U" if which == "user" else rng.choice([c for c in "ABCD" if c != tgt]))
        if kind == "hardlink" and CONTENT_POOL[cid] == "":
            kind = "copy"
        prior = [cid, kind]
    return {"single": True, "cls": rng.choice(["local", "base"]), "types": [rng.choice(KINDS)],
            "relink": rng.random() < 0.5, "state": True, "prior": prior, "target": tgt}


def _snap(path):
    if not os.path.lexists(path):
        return None
    lst = os.lstat(path)
    out = {"islink": stat.S_ISLNK(lst.st_mode), "lino": lst.st_ino, "dest": os.readlink(path) if stat.S_ISLNK(lst.st_mode) else None}
    try:
        st = os.stat(path)
        with open(path, "rb") as f:
            out.update(bytes=f.read(), ino=st.st_ino, nlink=st.st_nlink, mtime=st.st_mtime)
    except FileNotFoundError:
        out.update(bytes=None, ino=None, nlink=0, mtime=None)
    return out


def run_single(ctx, case):
    import dvc_data.hashfile.checkout as co
    from dvc_objects.fs.local import localfs

    from dvc_data.hashfile.state import State

    root = ctx.fresh("single")
    cache, wsd, tmp = os.path.join(root, "cache"), os.path.join(root, "ws"), os.path.join(root, "tmp")
    for d in (cache, wsd, tmp):
        os.makedirs(d)
    contents = {cid: cbytes_of(t) for cid, t in CONTENT_POOL.items()}
    clock = Clock()
    for cid in "ABCDE":
        clock.stamp(impl.plant(cache, md5hex(contents[cid]), contents[cid]))
    path = os.path.join(wsd, "data.bin")
    if case["prior"]:
        cid, kind = case["prior"]
        src = obj_path(cache, md5hex(contents[cid]))
        if kind == "copy":
            with open(path, "wb") as f:
                f.write(contents[cid])
            clock.stamp(path)
        elif kind == "hardlink":
            os.link(src, path)
        else:
            os.symlink(src, path)
    state = State(root_dir=root, tmp_dir=tmp) if case["state"] else None
    cfg = {"type": list(case["types"])}
    if state is not None:
        cfg["state"] = state
    odb = impl.make_odb(case["cls"], cache, **cfg)
    tb = contents[case["target"]]
    obj = odb.get(md5hex(tb))

    def call(relink):
        try:
            r = co.checkout(path, localfs, obj, odb, force=True, relink=relink, state=state, quiet=True)
            return ("none",) if r is None else ("ret", bool(r))
        except Exception as exc:  # noqa: BLE001
            return ("exc", type(exc).__name__ + ": " + str(exc)[:160])

    c0 = snap_cache(cache)
    out1 = call(case["relink"])
    s1, c1 = _snap(path), snap_cache(cache)
    row = None
    if state is not None:
        with state.links as ref:
            row = ref[os.path.relpath(path, root)] if os.path.relpath(path, root) in ref else None
    out2 = call(False)
    s2, c2 = _snap(path), snap_cache(cache)
    if state is not None:
        state.close()

    problems = []
    ty = case["types"][0]
    if out1[0] == "exc":
        problems.append(("C10:single:forced-checkout-failed", f"forced checkout of a cached file target raised {out1[1]}"))
    elif s1 is None or s1["bytes"] != tb:
        problems.append(("C10:single:not-converged", f"the path holds {None if s1 is None else s1['bytes']!r} instead of the target's bytes"))
    else:
        replaced = case["prior"] is None or contents[case["prior"][0]] != tb
        if case["relink"] or replaced:
            src = obj_path(cache, md5hex(tb))
            if s1["islink"]:
                kind = "symlink" if s1["dest"] == src else "foreign-symlink"
            elif s1["nlink"] > 1:
                kind = "hardlink" if s1["ino"] == c1[md5hex(tb)]["ino"] else "foreign-hardlink"
            else:
                kind = "copy"
            want = "copy" if (ty == "hardlink" and tb == b"") else ty
            if kind != want:
                problems.append((f"C10:single:wrong-link-type:{kind}-under-{ty}", f"the checked-out file is a {kind}, configured type {ty}"))
        if out2 != ("none",):
            problems.append(("C10:single:not-idempotent", f"second checkout returned {out2} instead of None"))
        view = lambda s: None if s is None else (s["bytes"], s["islink"], s["dest"], s["lino"], s["ino"])  # noqa: E731
        if view(s2) != view(s1):
            problems.append(("C10:single:second-call-changed-workspace", "the second checkout changed the path"))
        if state is not None:
            want_row = (s1["lino"], str(round(s1["mtime"] * 1_000_000_000)))
            if out1 == ("ret", not case["relink"]) and row is None:
                problems.append(("C10:single:link-record-missing", "a checkout that changed the path saved no link record"))
            if row is not None and tuple(row) != want_row:
                problems.append(("C10:single:link-record-mismatch",
                                 f"saved link record {tuple(row)} != (lstat inode, mtime token) of the path {want_row}"))
    for cb, ca, tag in ((c0, c1, "call1"), (c1, c2, "call2")):
        if {o: v["bytes"] for o, v in cb.items()} != {o: v["bytes"] for o, v in ca.items()}:
            problems.append(("C10:single:cache-bytes-changed", f"{tag}: the byte snapshot of the cache changed"))
    impl.rm_rf(root)
    return problems, (out1, out2), out1[0] != "none"


def run_singles(ctx, n):
    corpus = [{"single": True, "cls": cls, "types": [ty], "relink": rl, "state": True, "prior": pr, "target": "A"}
              for cls, ty, rl, pr in (("local", "symlink", False, None), ("base", "symlink", True, ["A", "copy"]),
                                      ("local", "hardlink", True, ["B", "symlink"]), ("base", "copy", True, ["A", "hardlink"]))]
    k = 0
    for i in range(n + len(corpus)):
        case = corpus[i] if i < len(corpus) else gen_single(ctx.rng)
        problems, outs, nontrivial = run_single(ctx, case)
        ctx.case(case, nontrivial)
        ctx.count("single:type:" + case["types"][0])
        ctx.count("single:prior:" + ("absent" if case["prior"] is None else case["prior"][1]))
        for sig, what in problems:
            ctx.oracle_fail(sig, what, case)
        k += 1
    ctx.obligation("oracle:single-file-targets", not any(v.kind == "oracle" and v.signature.startswith("C10:single") for v in ctx.violations),
                   f"{k} single-file-target checkouts judged by the oracle only (bytes, link kind, idempotence, cache bytes, link record)")


def replay(ctx, case):
    problems, outs, _ = run_single(ctx, case)
    return {"outcomes": outs, "problems": problems, "violates": bool(problems)}
