"""C10, single-file targets (the checked-out path itself becomes the link): the ROOT key of hashfile/diff.py with
no old meta (fs.iscopy, always-relink).  Judged by the oracle on the real run - bytes, link kind, idempotence,
cache bytes, and the saved link record (inode half = lstat inode of the path, mtime half = the token
get_mtime_and_size gives for the path) - and fed through the model Model/ObjCheckout.v checkout1 (run_in1);
the inode half of the record is oracle-only (the model has no directory-entry inodes)."""

from __future__ import annotations

import os
import stat

from lib import impl

from props import _objcheckout_common as C
from props._objcheckout_common import CONTENT_POOL, Clock, cbytes_of, md5hex, obj_path, snap_cache

KINDS = ("copy", "hardlink", "symlink")
PRIORS = [None, ("same", "copy"), ("other", "copy"), ("same", "hardlink"), ("other", "hardlink"),
          ("same", "symlink"), ("other", "symlink"), ("user", "copy")]


def gen_single(rng):
    tgt = rng.choice(["A", "B", "C", "D", "E", "A", "B"])
    pr = rng.choice(PRIORS)
    prior = None
    if pr is not None:
        which, kind = pr
        cid = tgt if which == "same" else ("U" if which == "user" else rng.choice([c for c in "ABCD" if c != tgt]))
        if kind == "hardlink" and CONTENT_POOL[cid] == "":
            kind = "copy"
        prior = [cid, kind]
    return {"single": True, "cls": rng.choice(["local", "base"]), "types": [rng.choice(KINDS)],
            "relink": rng.random() < 0.5, "state": True, "prior": prior, "target": tgt}


def _snap(path):
    if not os.path.lexists(path):
        return None
    lst = os.lstat(path)
    out = {"islink": stat.S_ISLNK(lst.st_mode), "lino": lst.st_ino, "dest": os.readlink(path) if stat.S_ISLNK(lst.st_mode) else None}
    try:
        st = os.stat(path)
        with open(path, "rb") as f:
            out.update(bytes=f.read(), ino=st.st_ino, nlink=st.st_nlink, mtime=st.st_mtime, broken=False)
    except FileNotFoundError:
        out.update(bytes=None, ino=None, nlink=0, mtime=None, broken=True)
    return out


def run_single(ctx, case):
    import dvc_data.hashfile.checkout as co
    from dvc_objects.fs.local import localfs

    from dvc_data.hashfile.state import State

    root = ctx.fresh("single")
    cache, wsd, tmp = os.path.join(root, "cache"), os.path.join(root, "ws"), os.path.join(root, "tmp")
    for d in (cache, wsd, tmp):
        os.makedirs(d)
    contents = {cid: cbytes_of(t) for cid, t in CONTENT_POOL.items()}
    clock = Clock()
    for cid in "ABCDE":
        clock.stamp(impl.plant(cache, md5hex(contents[cid]), contents[cid]))
    path = os.path.join(wsd, "data.bin")
    if case["prior"]:
        cid, kind = case["prior"]
        src = obj_path(cache, md5hex(contents[cid]))
        if kind == "copy":
            with open(path, "wb") as f:
                f.write(contents[cid])
            clock.stamp(path)
        elif kind == "hardlink":
            os.link(src, path)
        else:
            os.symlink(src, path)
    state = State(root_dir=root, tmp_dir=tmp) if case["state"] else None
    cfg = {"type": list(case["types"])}
    if state is not None:
        cfg["state"] = state
    odb = impl.make_odb(case["cls"], cache, **cfg)
    tb = contents[case["target"]]
    obj = odb.get(md5hex(tb))

    saved = []
    if state is not None:
        real_set = state.set_link

        def set_obs(p, ino, mtime):
            saved.append((p, ino, mtime))
            return real_set(p, ino, mtime)

        state.set_link = set_obs

    def call(relink):
        del saved[:]
        try:
            r = co.checkout(path, localfs, obj, odb, force=True, relink=relink, state=state, quiet=True)
            return ("none",) if r is None else ("ret", bool(r))
        except Exception as exc:  # noqa: BLE001
            return ("exc", type(exc).__name__ + ": " + str(exc)[:160])

    s0, c0 = _snap(path), snap_cache(cache)
    out1 = call(case["relink"])
    rec_1 = list(saved)
    s1, c1 = _snap(path), snap_cache(cache)
    row = None
    if state is not None:
        with state.links as ref:
            row = ref[os.path.relpath(path, root)] if os.path.relpath(path, root) in ref else None
    out2 = call(False)
    rec_2 = list(saved)
    s2, c2 = _snap(path), snap_cache(cache)
    if state is not None:
        state.close()

    problems = []
    ty = case["types"][0]
    if out1[0] == "exc":
        problems.append(("C10:single:forced-checkout-failed", f"forced checkout of a cached file target raised {out1[1]}"))
    elif s1 is None or s1["bytes"] != tb:
        problems.append(("C10:single:not-converged", f"the path holds {None if s1 is None else s1['bytes']!r} instead of the target's bytes"))
    else:
        replaced = case["prior"] is None or contents[case["prior"][0]] != tb
        if case["relink"] or replaced:
            src = obj_path(cache, md5hex(tb))
            if s1["islink"]:
                kind = "symlink" if s1["dest"] == src else "foreign-symlink"
            elif s1["nlink"] > 1:
                kind = "hardlink" if s1["ino"] == c1[md5hex(tb)]["ino"] else "foreign-hardlink"
            else:
                kind = "copy"
            want = "copy" if (ty == "hardlink" and tb == b"") else ty
            if kind != want:
                problems.append((f"C10:single:wrong-link-type:{kind}-under-{ty}", f"the checked-out file is a {kind}, configured type {ty}"))
        if out2 != ("none",):
            problems.append(("C10:single:not-idempotent", f"second checkout returned {out2} instead of None"))
        view = lambda s: None if s is None else (s["bytes"], s["islink"], s["dest"], s["lino"], s["ino"])  # noqa: E731
        if view(s2) != view(s1):
            problems.append(("C10:single:second-call-changed-workspace", "the second checkout changed the path"))
        if state is not None:
            want_row = (s1["lino"], str(round(s1["mtime"] * 1_000_000_000)))
            if out1 == ("ret", not case["relink"]) and row is None:
                problems.append(("C10:single:link-record-missing", "a checkout that changed the path saved no link record"))
            if row is not None and tuple(row) != want_row:
                problems.append(("C10:single:link-record-mismatch",
                                 f"saved link record {tuple(row)} != (lstat inode, mtime token) of the path {want_row}"))
    for cb, ca, tag in ((c0, c1, "call1"), (c1, c2, "call2")):
        if {o: v["bytes"] for o, v in cb.items()} != {o: v["bytes"] for o, v in ca.items()}:
            problems.append(("C10:single:cache-bytes-changed", f"{tag}: the byte snapshot of the cache changed"))
    # ---- the same two calls through the model (checkout1)
    links = C.tested_links(case["types"], cache, wsd)
    mcase = {"force": True, "prompt": "none", "types": case["types"], "state": case["state"], "target": {"": case["target"]}}
    items = []
    for (before, after, cb, ca, out, rec, relink, n) in ((s0, s1, c0, c1, out1, rec_1, case["relink"], 1), (s1, s2, c1, c2, out2, rec_2, False, 2)):
        wsb = {} if before is None else {"": before}
        wsa = {} if after is None else {"": after}
        enc = C.Enc(cache, cb, wsb)
        o = ("exc", out[1]) if out[0] == "exc" else out
        if rec:
            cand = [m for m in ([v["mtime"] for v in cb.values()] + [x["mtime"] for x in (before, after) if x and x["mtime"] is not None])
                    if str(round(m * 1_000_000_000)) == rec[-1][2]]
            recv = C.vL([C.vL([C.vL([C.vB(""), C.vN(enc.mtime(cand[0]) if cand else 999999)])])])
        else:
            recv = C.vL([])
        exp = C.vL([C.outcome_val(o), enc.ws_val(wsa), recv, enc.cache_val(ca)])
        items.append(({"case": case, "call": n}, C.input_term(mcase, enc, links, relink, cb, wsb, contents, []), exp))
    impl.rm_rf(root)
    return problems, (out1, out2), out1[0] != "none", items


def run_singles(ctx, n):
    corpus = [{"single": True, "cls": cls, "types": [ty], "relink": rl, "state": True, "prior": pr, "target": "A"}
              for cls, ty, rl, pr in (("local", "symlink", False, None), ("base", "symlink", True, ["A", "copy"]),
                                      ("local", "hardlink", True, ["B", "symlink"]), ("base", "copy", True, ["A", "hardlink"]))]
    k = 0
    items = []
    for i in range(n + len(corpus)):
        case = corpus[i] if i < len(corpus) else gen_single(ctx.rng)
        problems, outs, nontrivial, its = run_single(ctx, case)
        items.extend(its)
        ctx.case(case, nontrivial)
        dd = ctx.extra.setdefault("input_dimensions", {})
        dd["shape:single-file-target(ROOT)"] = dd.get("shape:single-file-target(ROOT)", 0) + 1
        ctx.count("single:type:" + case["types"][0])
        ctx.count("single:prior:" + ("absent" if case["prior"] is None else case["prior"][1]))
        for sig, what in problems:
            ctx.oracle_fail(sig, what, case)
        k += 1
    ctx.obligation("oracle:single-file-targets", not any(v.kind == "oracle" and v.signature.startswith("C10:single") for v in ctx.violations),
                   f"{k} single-file-target checkouts judged by the oracle (bytes, link kind, idempotence, cache bytes, link record)")
    ctx.correspond("checkout_single_file", C.IMPORTS, "co_in", "fun i => enc_result (run_in1 i)", items, shard=60)


def replay(ctx, case):
    problems, outs, _, _ = run_single(ctx, case)
    return {"outcomes": outs, "problems": problems, "violates": bool(problems)}
