"""Shared driver for C05 / C10: object-level checkout (dvc_data.hashfile.checkout) and the link
clean-up of dvc_data.hashfile.state.  Generators, the real-code run with independent observers
(os.lstat / os.readlink / os.stat / hashlib only), the encoding of a case as input of the Coq model
Model/ObjCheckout.v, the two oracles, and the enumeration of the hand-written deciders."""

from __future__ import annotations

import ast
import hashlib
import json
import os
import stat

from lib import impl
from lib.core import cN, cbool, cbytes, clist, copt, cpair, vB, vL, vN, vbool

IMPORTS = ("From Coq Require Import NArith List.\n"
           "From DvcData Require Import Base.PyBase Model.ObjCheckout.")

NOW = 1000000            # model mtime of files created by copying
# prior workspaces containing a dangling symbolic link (e.g. its cache object was collected): the dry
# re-staging fails, checkout goes on without an old tree.  One switch for the whole class.
INCLUDE_DANGLING = os.environ.get("VERIF_OBJCO_DANGLING", "1") != "0"
# LocalHashFileDB.check trusts an object whose mode is 0o444 without hashing it (C07's trust-by-mode): when the
# cache object of a workspace file's OLD version is corrupt but write-protected, in_cache is true and an unforced
# checkout replaces the file although its bytes are in no cache object.  ASSUMPTIONS exclude corrupt cache
# objects (C07); the input is kept here behind one switch, reported to the lead, OFF by default.
INCLUDE_CORRUPT_PROTECTED = os.environ.get("VERIF_OBJCO_CORRUPT_PROTECTED", "0") == "1"
KINDS = ("copy", "hardlink", "symlink")
LK = {"copy": "LCopy", "hardlink": "LHard", "symlink": "LSym"}

CONTENT_POOL = {
    "A": "alpha\n", "B": "bravo bravo", "C": "c", "D": "delta\r\nline", "E": "",
    "U": "user edit 1", "V": "user edit two", "W": "w" * 40,
}
PATH_POOL = ["a", "b.txt", "e", "sub/c", "sub/deep/d", "sub/e2", "z y", "té"]


def md5hex(b: bytes) -> str:
    return hashlib.md5(b).hexdigest()  # noqa: S324


def cbytes_of(cid_text: str) -> bytes:
    return cid_text.encode("latin-1")


# ------------------------------------------------------------------------------------------
# generators


def gen_case(rng, stream: str) -> dict:
    """stream: converge | guard | missing | dangling"""
    npaths = rng.choice([1, 2, 3, 3, 4, 5])
    paths = rng.sample(PATH_POOL, npaths)
    cached_pool = ["A", "B", "C", "D", "E"]
    target = {}
    for p in paths:
        if rng.random() < 0.8:
            target[p] = rng.choice(cached_pool if rng.random() < 0.85 else ["A", "A", "E"])
    if not target:
        target[paths[0]] = rng.choice(cached_pool)
    single = rng.random() < 0.7
    if single:
        types = [rng.choice(KINDS)]
    else:
        types = rng.choice([["reflink", "copy"], ["hardlink", "copy"], ["symlink", "hardlink"],
                            ["copy", "hardlink"], ["hardlink", "symlink"], ["reflink", "symlink", "copy"],
                            ["reflink", "hardlink", "copy"]])
    case = {
        "stream": stream,
        "cls": rng.choice(["local", "base"]),
        "types": types,
        "state": rng.random() < 0.6,
        "relink": rng.random() < 0.5,
        "contents": dict(CONTENT_POOL),
        "second": rng.choice(["plain", "same"]),
    }
    # prior workspace: start from a cached version, then user actions
    absent = rng.random() < 0.12
    prior = {}
    if not absent:
        base_kind = rng.choice(KINDS)
        for p in paths:
            r = rng.random()
            if p in target and r < 0.55:
                cid = target[p]                      # unchanged relative to the target
            elif r < 0.8:
                cid = rng.choice(cached_pool)        # another cached version
            elif r < 0.9:
                continue                             # deleted by the user / not yet there
            else:
                cid = rng.choice(cached_pool)
            kind = base_kind if rng.random() < 0.75 else rng.choice(KINDS)
            prior[p] = [cid, kind]
        extra = [q for q in PATH_POOL if q not in paths]
        if extra and rng.random() < 0.4:
            q = rng.choice(extra)                    # a file the target does not have
            prior[q] = [rng.choice(cached_pool), base_kind]
    cache = set(cached_pool)
    if stream == "converge" and prior is not None and len(paths) >= 2 and rng.random() < 0.25:
        # content equal to the target, duplicates hard-linked to each other (no link to the cache)
        x = rng.choice(["A", "B", "C", "D"])
        for p in rng.sample(paths, 2):
            target[p] = x
            prior[p] = [x, "wshard"]
        wsh = True
    else:
        wsh = False
    if stream == "converge" and prior and not wsh and rng.random() < 0.12:
        for p in list(prior):
            if prior[p][0] in cached_pool and CONTENT_POOL[prior[p][0]] != "":
                prior[p] = [prior[p][0], "xsymshare"]
        case["relink"] = True
        case["types"] = [rng.choice(["symlink", "symlink", "hardlink", "copy"])]
    if stream == "converge":
        case["force"] = True
        case["prompt"] = "none"
        # user edits are allowed (force): uncached contents as plain files
        for p in list(prior):
            if rng.random() < 0.2 and prior[p][1] != "wshard":
                prior[p] = [rng.choice(["U", "V", "W"]), "copy"]
        if wsh and rng.random() < 0.6:
            case["relink"] = True
            case["types"] = [rng.choice(["copy", "copy", "hardlink", "symlink"])]
        # objects other than the target's may be gone from the cache
        for cid in cached_pool:
            if cid not in target.values() and rng.random() < 0.3:
                cache.discard(cid)
    else:
        case["force"] = rng.random() < 0.1
        case["prompt"] = rng.choice(["none", "none", "no", "yes", "some"])
        for p in list(prior):
            r = rng.random()
            if r < 0.3:
                prior[p] = [rng.choice(["U", "V", "W"]), "copy"]          # edited / replaced by the user
        if prior and rng.random() < 0.5:
            extra = [q for q in PATH_POOL if q not in prior]
            if extra:
                prior[rng.choice(extra)] = [rng.choice(["U", "V", "A"]), "copy"]   # added by the user
        for cid in cached_pool:
            if cid not in target.values() and rng.random() < 0.35:
                cache.discard(cid)                                        # old version no longer cached
        if stream == "missing":
            vals = sorted(set(target.values()))
            for cid in rng.sample(vals, rng.randint(1, len(vals))):
                cache.discard(cid)
        if case["prompt"] == "some":
            ps = sorted(prior)
            case["prompt"] = rng.sample(ps, rng.randint(0, len(ps))) if ps else "no"
    if stream == "dangling":
        if not prior:
            prior[paths[0]] = ["U", "copy"]
        q = rng.choice([p for p in PATH_POOL if p not in prior] or ["dl"])
        prior[q] = ["A", "dangling"]
    case["prior"] = None if absent and stream != "dangling" else prior
    case["target"] = target
    case["cache"] = sorted(cache)
    if stream == "history":
        # call 1 materialises version 1 (forced, everything cached); then objects are collected from the cache;
        # call 2 is an unforced checkout of version 2 over files that may now hold the only copy of their bytes
        case["force"] = True
        case["prompt"] = "none"
        case["cache"] = sorted(set(case["cache"]) | set(target.values()))
        case["second"] = "plain"
        if rng.random() < 0.6:
            case["types"] = [rng.choice(["copy", "copy", "hardlink"])]
        t2 = {}
        for p in target:
            r = rng.random()
            if r < 0.6:
                t2[p] = rng.choice([c for c in cached_pool if c != target[p]])
            elif r < 0.85:
                t2[p] = target[p]
        if not t2:
            t2[sorted(target)[0]] = rng.choice([c for c in cached_pool if c != target[sorted(target)[0]]])
        v1 = sorted(set(target.values()))
        drop = rng.sample(v1, rng.randint(1, len(v1)))
        if rng.random() < 0.3:
            drop = sorted(set(drop) | {rng.choice(cached_pool)})
        pm = rng.choice(["none", "none", "none", "no", "yes", "some"])
        if pm == "some":
            pm = rng.sample(sorted(target), rng.randint(0, len(target)))
        case["call2"] = {"drop": sorted(drop), "target": t2, "force": rng.random() < 0.05, "prompt": pm,
                         "relink": rng.random() < 0.3, "fresh_odb": rng.random() < 0.5}
        cand = [p for p in sorted(target) if case["contents"][target[p]] != ""]
        if cand and rng.random() < 0.4:
            # the user restores a file over a checked-out one: new inode, same size and mtime, uncached bytes;
            # its old version stays in the cache, a hash state is attached, the next checkout is unforced
            p = rng.choice(cand)
            t2[p] = rng.choice([c for c in cached_pool if c != target[p]])
            case["state"] = True
            case["cache"] = sorted(set(case["cache"]) | {t2[p]})
            case["call2"].update(user="replace_preserving:" + p, force=False, prompt=rng.choice(["none", "none", "no"]),
                                 drop=[c for c in case["call2"]["drop"] if c not in (target[p], t2[p])])
    if stream == "rehistory":
        # call 1: forced checkout of a nested target; the user deletes a sub-directory tree / everything / one
        # file; call 2: forced checkout of the same or another nested target on the same workspace path
        case["force"] = True
        case["prompt"] = "none"
        case["second"] = "plain"
        nested = [q for q in PATH_POOL if "/" in q]
        for q in rng.sample(nested, rng.randint(1, 2)):
            target.setdefault(q, rng.choice(cached_pool))
        case["cache"] = sorted(set(case["cache"]) | set(target.values()))
        if rng.random() < 0.75:
            case["types"] = [rng.choice(["hardlink", "symlink", "hardlink", "symlink", "copy"])]
        if rng.random() < 0.5:
            t2 = dict(target)
        else:
            t2 = {p: (target[p] if rng.random() < 0.5 else rng.choice(cached_pool)) for p in target if rng.random() < 0.85}
            q = rng.choice(nested)
            t2.setdefault(q, rng.choice(cached_pool))
        case["cache"] = sorted(set(case["cache"]) | set(t2.values()))
        mode = rng.choice(["user", "user", "fetched", "reconfigure"])
        if mode == "user":
            ev = rng.choice(["rm_subdirs", "rm_subdirs", "rm_all", "rm_file:" + rng.choice(sorted(target))])
            case["call2"] = {"drop": [], "target": t2, "force": True, "prompt": "none", "relink": rng.random() < 0.4,
                             "fresh_odb": rng.random() < 0.5, "user": ev}
        elif mode == "fetched":
            # a checkout while some target objects are not cached yet; they are fetched; forced checkout; and the
            # NEXT (plain) checkout must have nothing to do
            vals = sorted(set(target.values()))
            case["types"] = [rng.choice(KINDS)]
            case["prelude"] = {"missing": rng.sample(vals, rng.randint(1, len(vals))), "same_odb": rng.random() < 0.5,
                               "relink": rng.random() < 0.3}
        else:
            # the cache is reconfigured to another link type between two checkouts (another odb object on the same
            # cache path); the relinking checkout must give every file the new type
            t1, t2k = rng.sample(list(KINDS), 2)
            case["types"] = [t2k]
            case["relink"] = True
            case["prelude"] = {"types": [t1], "relink": rng.random() < 0.3}
    return normalise(case)


def normalise(case: dict) -> dict:
    """make the case satisfy the generator's own side conditions (stable under replay)"""
    prior = case.get("prior")
    if prior:
        seen_uncached_hard = set()
        for p in sorted(prior):
            cid, kind = prior[p]
            if kind == "hardlink":
                if case["contents"][cid] == "":
                    prior[p] = [cid, "copy"]          # dvc never makes a hard link of an empty object
                elif cid not in case["cache"]:
                    if cid in seen_uncached_hard:
                        prior[p] = [cid, "copy"]      # no workspace-to-workspace hard links outside the cache
                    seen_uncached_hard.add(cid)
            if not INCLUDE_DANGLING and (kind == "dangling" or (kind == "symlink" and cid not in case["cache"])):
                prior[p] = [cid, "copy"]
    return case


# regression inputs: with an unbuildable old tree every entry is ADD onto a possibly occupied path.  Since f4a117d
# the path is first removed through the guard (refused when unforced); if that removal is skipped, type hardlink
# with an EMPTY target object does open(path, "w"), which goes through a live link and truncates the cache object
# behind it - and hardlink/symlink over an occupied path is silently skipped.
TRUNCATION_CASES = [
    {"stream": "dangling", "cls": cls, "types": ["hardlink"], "state": False, "relink": False,
     "second": "plain", "force": force, "prompt": "none",
     "prior": {"a": ["A", "symlink"], "b.txt": ["B", "dangling"], "sub/c": ["B", "copy"]},
     "target": {"a": "E", "sub/c": "A"}, "cache": ["A", "E"]}
    for cls, force in (("local", False), ("local", True), ("base", True))
]
TRUNCATION_CASE = TRUNCATION_CASES[0]


# ------------------------------------------------------------------------------------------
# observers


def snap_ws(ws: str) -> dict:
    out = {}
    if not os.path.isdir(ws):
        return out
    for r, ds, fs in os.walk(ws):
        for n in list(fs) + [d for d in ds if os.path.islink(os.path.join(r, d))]:
            p = os.path.join(r, n)
            rel = os.path.relpath(p, ws).replace(os.sep, "/")
            lst = os.lstat(p)
            ent = {"islink": stat.S_ISLNK(lst.st_mode), "dest": None, "broken": False}
            if ent["islink"]:
                ent["dest"] = os.readlink(p)
            try:
                st = os.stat(p)
                with open(p, "rb") as f:
                    ent["bytes"] = f.read()
                ent.update(ino=st.st_ino, nlink=st.st_nlink, mtime=st.st_mtime)
            except FileNotFoundError:
                ent.update(bytes=None, broken=True, ino=None, nlink=0, mtime=None)
            out[rel] = ent
    return out


def snap_cache(cache: str) -> dict:
    out = {}
    for oid, (data, mode) in impl.walk_store(cache).items():
        st = os.stat(os.path.join(cache, oid[:2], oid[2:]))
        out[oid] = {"bytes": data, "mode": mode, "ino": st.st_ino, "nlink": st.st_nlink, "mtime": st.st_mtime}
    return out


class Clock:
    def __init__(self):
        self.t = 1_000_000_000

    def stamp(self, path):
        self.t += 7
        os.utime(path, ns=(self.t * 10**9, self.t * 10**9), follow_symlinks=False)


_LINKS_CACHE: dict = {}


def tested_links(types, cache, ws):
    from dvc_objects.fs.generic import test_links
    from dvc_objects.fs.local import localfs

    key = tuple(types)
    if key not in _LINKS_CACHE:
        os.makedirs(cache, exist_ok=True)
        _LINKS_CACHE[key] = list(test_links(list(types), localfs, cache, localfs, ws))
    return _LINKS_CACHE[key]


# ------------------------------------------------------------------------------------------
# running one case on the real code


def obj_path(cache, oid):
    return os.path.join(cache, oid[:2], oid[2:])


def setup(ctx, case):
    root = ctx.fresh("co")
    cache = os.path.join(root, "cache")
    if case.get("ws_via_symlink"):
        # the workspace is reached through a symlinked parent directory
        os.makedirs(os.path.join(root, "realp"))
        os.symlink(os.path.join(root, "realp"), os.path.join(root, "lnk"))
        ws = os.path.join(root, "lnk", "ws")
    else:
        ws = os.path.join(root, "ws")
    tmp = os.path.join(root, "tmp")
    cache2 = os.path.join(root, "cache2")               # ANOTHER cache, for links that do not point into ours
    os.makedirs(cache)
    os.makedirs(tmp)
    clock = Clock()
    contents = {cid: cbytes_of(t) for cid, t in case["contents"].items()}
    prior = case["prior"]
    need = set(case["cache"])
    if prior:
        need |= {cid for cid, kind in prior.values() if kind in ("hardlink", "symlink", "xsymshare")}
    for cid in sorted(need):
        p = impl.plant(cache, md5hex(contents[cid]), contents[cid])
        clock.stamp(p)
    if prior is not None:
        os.makedirs(ws)
        wsfirst: dict = {}
        for rel in sorted(prior):
            cid, kind = prior[rel]
            p = os.path.join(ws, *rel.split("/"))
            os.makedirs(os.path.dirname(p), exist_ok=True)
            src = obj_path(cache, md5hex(contents[cid]))
            if kind == "copy":
                with open(p, "wb") as f:
                    f.write(contents[cid])
                clock.stamp(p)
            elif kind == "hardlink":
                os.link(src, p)
            elif kind == "symlink":
                os.symlink(src, p)
            elif kind == "wshard":
                # duplicates hard-linked TO EACH OTHER, not to the cache: the first path of a content is a plain
                # file, the others are links to it
                first = wsfirst.get(cid)
                if first is None:
                    with open(p, "wb") as f:
                        f.write(contents[cid])
                    clock.stamp(p)
                    wsfirst[cid] = p
                else:
                    os.link(first, p)
            elif kind == "xsymshare":
                # cache relocation: the workspace was checked out with symlinks from an OLD cache and our cache was
                # filled from it with hard links - the link resolves to ANOTHER hard link of our object (same
                # inode), but its destination is not our cache path
                other = os.path.join(cache2, md5hex(contents[cid])[:2], md5hex(contents[cid])[2:])
                os.makedirs(os.path.dirname(other), exist_ok=True)
                if not os.path.lexists(other):
                    os.link(src, other)
                os.symlink(other, p)
            elif kind in ("xsym", "xhard"):
                other = impl.plant(cache2, md5hex(contents[cid]), contents[cid])
                clock.stamp(other)
                if kind == "xsym":
                    os.symlink(other, p)
                elif contents[cid] == b"":
                    with open(p, "wb") as f:
                        f.write(b"")
                    clock.stamp(p)
                else:
                    os.link(other, p)
            elif kind == "dangling":
                os.symlink(os.path.join(cache, "zz", "gone"), p)
        for d in case.get("empty_dirs", []):            # untracked empty directories / directories of empty directories
            os.makedirs(os.path.join(ws, *d.split("/")), exist_ok=True)
    for cid, st in sorted(case.get("cache_state", {}).items()):
        p = obj_path(cache, md5hex(contents[cid]))
        if os.path.exists(p):
            os.chmod(p, 0o644)
            if st.startswith("corrupt"):
                with open(p, "wb") as f:
                    f.write(b"corrupt " + contents[cid][::-1])
                clock.stamp(p)
            os.chmod(p, 0o444 if st == "corrupt_protected" else 0o644)
    for cid in sorted(need - set(case["cache"])):       # collected from the cache meanwhile
        p = obj_path(cache, md5hex(contents[cid]))
        os.chmod(p, 0o644)
        os.unlink(p)
    return root, cache, ws, tmp, contents


def mk_target(case, contents, odb=None, scratch=None):
    """the target Tree, by the route case["route"]: direct (Tree.add + digest, default), load (the .dir object is
    planted in the cache and read back with Tree.load), build (a scratch directory staged dry by build())"""
    from dvc_data.hashfile.hash_info import HashInfo
    from dvc_data.hashfile.meta import Meta
    from dvc_data.hashfile.tree import Tree

    t = Tree()
    for rel in sorted(case["target"]):
        b = contents[case["target"][rel]]
        hi = HashInfo("md5", md5hex(b), obj_name=rel) if case.get("obj_names") else HashInfo("md5", md5hex(b))
        t.add(tuple(rel.split("/")), Meta(size=len(b)), hi)
    t.digest()
    route = case.get("route", "direct")
    if route == "load" and odb is not None:
        if not os.path.exists(obj_path(odb.path, t.hash_info.value)):
            impl.plant(odb.path, t.hash_info.value, t.as_bytes())
        return Tree.load(odb, HashInfo("md5", t.hash_info.value, obj_name="data" if case.get("obj_names") else None))
    if route == "build" and odb is not None and scratch is not None:
        from dvc_objects.fs.local import localfs

        from dvc_data.hashfile.build import build

        d = os.path.join(scratch, "stage-src")
        impl.mk_tree(d, {rel: contents[cid] for rel, cid in case["target"].items()})
        return build(odb, d, localfs, "md5", dry_run=True)[2]
    return t


def call_checkout(case, ws, cache, tmp, contents, relink, state_obj, odb, fault=None):
    """one real checkout; returns (outcome, observed key order, link-record dict or None, asked)"""
    import dvc_data.hashfile.checkout as co
    import dvc_data.hashfile.utils as ut
    from dvc_objects.fs.local import localfs

    order: list = []
    real_odiff = co.odiff

    def odiff_obs(old, new, cache_):
        d = real_odiff(old, new, cache_)
        for lst in (d.deleted, d.added, d.modified, d.unchanged):
            for ch in lst:
                k = ch.new.key
                if k != ("",):
                    order.append(list(k))
        return d

    recorded = []
    real_tok = ut._tokenize_mtimes

    def tok_obs(d):
        recorded.append(dict(d))
        return real_tok(d)

    asked = []
    mode = case["prompt"]

    def prompt(msg):
        p = msg.split("'")[1]
        rel = os.path.relpath(p, ws).replace(os.sep, "/")
        if mode == "yes":
            ans = True
        elif mode == "no":
            ans = False
        else:
            ans = rel in mode
        asked.append((rel, ans))
        return ans

    real_transfer = co.transfer
    nlink = [0]

    def transfer_fault(*a, **kw):
        # one failing link creation: the n-th call of the link primitive raises
        nlink[0] += 1
        if nlink[0] == fault["at"]:
            import errno
            if fault["exc"] == "FileNotFoundError":
                raise FileNotFoundError(errno.ENOENT, "injected", a[1] if len(a) > 1 else "")
            if fault["exc"] == "PermissionError":
                raise PermissionError(errno.EACCES, "injected")
            raise OSError(errno.EIO, "injected")
        return real_transfer(*a, **kw)

    kwargs = {}
    if case.get("callback"):
        from fsspec.callbacks import Callback
        kwargs["progress_callback"] = Callback()
    target = mk_target(case, contents, odb, tmp)
    co.odiff = odiff_obs
    ut._tokenize_mtimes = tok_obs
    if fault:
        co.transfer = transfer_fault
    try:
        try:
            r = co.checkout(ws, localfs, target, odb, force=case["force"], relink=relink,
                            state=state_obj, prompt=None if mode == "none" else prompt, quiet=not case.get("loud"), **kwargs)
            out = ("none",) if r is None else ("ret", bool(r))
        except co.PromptError as exc:
            out = ("prompt", os.path.relpath(exc.path, ws).replace(os.sep, "/"))
        except co.CheckoutError as exc:
            out = ("failed", sorted(os.path.relpath(p, ws).replace(os.sep, "/") for p in exc.paths))
        except co.LinkError:
            out = ("link",)
        except FileNotFoundError as exc:
            fn = exc.filename or ""
            out = ("notfound", os.path.relpath(fn, ws).replace(os.sep, "/") if fn.startswith(ws) else fn)
        except Exception as exc:  # noqa: BLE001
            out = ("exc", type(exc).__name__ + ": " + str(exc)[:200])
    finally:
        co.odiff = real_odiff
        ut._tokenize_mtimes = real_tok
        co.transfer = real_transfer
    return out, order, (recorded[-1] if recorded else None), asked


def read_links(state_obj):
    with state_obj.links as ref:
        return {k: ref[k] for k in ref}


def indep_token(ws):
    """independent recomputation of the directory token of utils.get_mtime_and_size"""
    d = {}
    for r, _, fs in os.walk(ws):
        for n in fs:
            p = os.path.join(r, n)
            try:
                d[p] = os.stat(p).st_mtime
            except FileNotFoundError:
                continue
    return hashlib.md5(json.dumps(d, sort_keys=True).encode("utf-8")).hexdigest()  # noqa: S324


# ---- encoding for the model


def key_term(rel):
    return clist([cbytes(x) for x in rel.split("/")])


class Enc:
    """maps the real inode / mtime values of one case to the model's small numbers"""

    def __init__(self, cache_dir, cache_snap, ws_snap):
        self.cache_dir = cache_dir
        self.oids = sorted(cache_snap)
        self.ino = {cache_snap[o]["ino"]: i + 1 for i, o in enumerate(self.oids)}
        ms = sorted({v["mtime"] for v in cache_snap.values()} | {v["mtime"] for v in ws_snap.values() if v["mtime"] is not None})
        self.mt = {m: i + 1 for i, m in enumerate(ms)}

    def dest(self, d):
        if d is None:
            return None
        pre = self.cache_dir + os.sep
        if d.startswith(pre):
            rest = d[len(pre):]
            if len(rest) > 3 and rest[2] == os.sep and os.sep not in rest[3:]:
                return rest[:2] + rest[3:]
        return "!" + d

    def mtime(self, m):
        return self.mt.get(m, NOW)

    def ino_id(self, i):
        return self.ino.get(i, 0)

    def cache_term(self, snap):
        return clist([cpair(cbytes(o), "(mk_cobj %s %s %s %s)" % (
            cbytes(snap[o]["bytes"]), cN(self.ino_id(snap[o]["ino"])), cN(snap[o]["nlink"]), cN(self.mtime(snap[o]["mtime"]))))
            for o in sorted(snap)])

    def ws_term(self, snap):
        items = []
        for rel in sorted(snap):
            e = snap[rel]
            d = self.dest(e["dest"])
            items.append(cpair(key_term(rel), "(mk_fnode %s %s %s %s %s %s %s)" % (
                cbytes(e["bytes"] or b""), cbool(e["islink"]), copt(d, cbytes), cbool(e["broken"]),
                cN(self.ino_id(e["ino"])), cN(e["nlink"]), cN(self.mtime(e["mtime"]) if e["mtime"] is not None else 0))))
        return clist(items)

    def ws_val(self, snap):
        items = []
        for rel in sorted(snap, key=lambda s: [ord(c) for c in s]):
            e = snap[rel]
            d = self.dest(e["dest"])
            items.append(vL([vB(rel), vL([
                vL([]) if e["broken"] else vL([vB(e["bytes"])]),
                vbool(e["islink"]),
                vL([]) if d is None else vL([vB(d)]),
                vN(self.ino_id(e["ino"])),
                # hard link OF A CACHE OBJECT: workspace-to-workspace links (left behind when their cache object
                # was collected) change their st_nlink when a sibling is removed; the model has no inode table
                vbool((not e["islink"]) and e["nlink"] > 1 and self.ino_id(e["ino"]) != 0)])]))
        return vL(items)

    def cache_val(self, snap):
        return vL([vL([vB(o), vB(snap[o]["bytes"])]) for o in sorted(snap)])


def outcome_val(out):
    k = out[0]
    if k == "none":
        return vL([vN(0)])
    if k == "ret":
        return vL([vN(1), vbool(out[1])])
    if k == "prompt":
        return vL([vN(4), vB(out[1])])
    if k == "failed":
        return vL([vN(5), vL([vB(p) for p in sorted(set(out[1]), key=lambda s: [ord(c) for c in s])])])
    if k == "link":
        return vL([vN(7)])
    if k == "notfound":
        return vL([vN(2), vB(out[1])])
    return vL([vN(99)])


def input_term(case, enc, links, relink, cache_snap, ws_snap, contents, order):
    tab = {}
    for b in list(contents.values()) + [e["bytes"] for e in ws_snap.values() if e["bytes"] is not None] + \
            [v["bytes"] for v in cache_snap.values()]:
        tab[b] = md5hex(b)
    htab = clist([cpair(cbytes(b), cbytes(o)) for b, o in sorted(tab.items())])
    mode = case["prompt"]
    if mode == "none":
        prompt = "None"
    elif mode == "yes":
        prompt = "(Some %s)" % clist([key_term(r) for r in sorted(set(ws_snap) | set(case["target"]))])
    elif mode == "no":
        prompt = "(Some [])"
    else:
        prompt = "(Some %s)" % clist([key_term(r) for r in mode])
    target = clist([cpair(key_term(rel), cbytes(md5hex(contents[case["target"][rel]]))) for rel in sorted(case["target"])])
    return ("(mk_co_in %s %s %s %s %s %s %s %s %s %s %s %s)" % (
        htab, cbool(case["force"]), cbool(relink), prompt,
        clist([cbytes(t) for t in case["types"]]), clist([LK[t] for t in links if t in LK]),
        cbool(case["state"]), cN(NOW), enc.cache_term(cache_snap), enc.ws_term(ws_snap), target,
        clist([clist([cbytes(x) for x in k]) for k in order])))


def rec_val(case, enc, ws, rec):
    if rec is None:
        return vL([])
    items = []
    for p in sorted(rec, key=lambda s: [ord(c) for c in os.path.relpath(s, ws).replace(os.sep, "/")]):
        items.append(vL([vB(os.path.relpath(p, ws).replace(os.sep, "/")), vN(enc.mtime(rec[p]))]))
    return vL([vL(items)])


def dimensions(case, smode, links, ws0):
    """the input dimensions of tools/COVERAGE_AUDIT.md this case has (counted into the evidence)"""
    import unicodedata

    out = set()
    names = set()
    for rel in list(case["target"]) + list(case.get("prior") or {}):
        names.update(rel.split("/"))
    for n in names:
        if "\\" in n:
            out.add("name:backslash")
        if " " in n:
            out.add("name:space")
        if n.startswith("."):
            out.add("name:leading-dot")
        if any(ord(ch) > 127 for ch in n):
            out.add("name:non-ascii")
        if any(ord(ch) > 0xFFFF for ch in n):
            out.add("name:emoji")
        if unicodedata.normalize("NFC", n) != n:
            out.add("name:not-NFC")
            if unicodedata.normalize("NFC", n) in names:
                out.add("name:NFC-twins")
        if n.endswith(".dir"):
            out.add("name:ends-in-.dir")
        if len(n) == 1:
            out.add("name:1-char")
        if len(n) >= 200:
            out.add("name:200-chars")
        if any(m != n and m.startswith(n) for m in names):
            out.add("name:prefix-siblings")
        if any(m != n and m.lower() == n.lower() for m in names):
            out.add("name:case-twins")
    tgt = case["target"]
    if any(rel.count("/") >= 3 for rel in tgt):
        out.add("shape:depth>=3")
    vals = list(tgt.values())
    if len(set(vals)) < len(vals):
        out.add("shape:duplicate-contents")
    if any(case["contents"][c] == "" for c in vals):
        out.add("shape:zero-length-file")
        if "hardlink" in case["types"]:
            out.add("shape:zero-length-under-hardlink")
    if case.get("empty_dirs"):
        out.add("shape:empty-dirs-in-workspace")
    if len(tgt) == 1:
        out.add("shape:one-file-directory")
    if case.get("obj_names"):
        out.add("ident:obj_name-label")
    out.add("route:" + case.get("route", "direct"))
    out.add("flag:force=%s" % case["force"])
    out.add("flag:relink=%s" % case["relink"])
    out.add("flag:prompt=" + (case["prompt"] if isinstance(case["prompt"], str) else "some"))
    out.add("flag:state=" + smode)
    out.add("flag:force×relink×prompt×state=%s/%s/%s/%s" % (case["force"], case["relink"],
            case["prompt"] if isinstance(case["prompt"], str) else "some", smode))
    if case.get("callback"):
        out.add("flag:progress_callback=non-default")
    if case.get("loud"):
        out.add("flag:quiet=False")
    out.add("types:" + "+".join(case["types"]))
    if len(case["types"]) > 1 and links and links[0] != case["types"][0]:
        out.add("types:first-type-unavailable")
    out.add("class:" + case["cls"])
    prior = case.get("prior")
    if prior is None:
        out.add("ws:absent")
    else:
        for rel, (cid, kind) in prior.items():
            out.add("ws:kind=" + kind)
            if rel not in tgt:
                out.add("ws:untracked-path-outside-target")
            if cid not in case["cache"] and kind == "copy":
                out.add("ws:uncached-user-content")
        if any(e["broken"] for e in ws0.values()):
            out.add("ws:dangling-link")
    if case.get("ws_via_symlink"):
        out.add("ws:through-symlinked-parent")
    for st in (case.get("cache_state") or {}).values():
        out.add("cache:object-" + st)
    if any(c not in case["cache"] for c in vals):
        out.add("cache:target-object-missing")
    if case.get("fault"):
        out.add("fault:link-%s@%s" % (case["fault"]["exc"], case["fault"]["at"]))
    if case.get("call2"):
        out.add("history:two-calls")
    if case.get("prelude"):
        out.add("history:prelude")
    return out


def run_case(ctx, case):
    """Runs the case (first call, then a second call) on the real code.  Returns a dict with the
    correspondence items and the oracle problems of C05 and C10."""
    from dvc_data.hashfile.state import State

    case = normalise(case)
    root, cache, ws, tmp, contents = setup(ctx, case)
    links = tested_links(case["types"], cache, ws)
    # State: absent / noop (StateNoop passed) / real (a State passed to checkout only) / shared (also the odb's state)
    smode = case.get("state_mode") or ("shared" if case["state"] else "absent")
    case = dict(case, state=(smode != "absent"))
    real_state = smode in ("real", "shared")
    if smode == "noop":
        from dvc_data.hashfile.state import StateNoop
        state_obj = StateNoop()
    else:
        state_obj = State(root_dir=root, tmp_dir=tmp) if real_state else None
    cfg = {"type": list(case["types"])}
    if smode == "shared":
        cfg["state"] = state_obj
    odb = impl.make_odb(case["cls"], cache, **cfg)
    if case.get("route") == "load":
        mk_target(case, contents, odb, tmp)               # plants the .dir object before the cache is snapshotted

    # prelude: an EARLIER checkout in this process on the same cache and workspace directories, possibly while
    # some target objects are not yet in the cache (they are fetched afterwards) and/or under another configured
    # link type (another odb object on the same cache path).  Its result is simply the prior state of call 1.
    pre = case.get("prelude")
    if pre:
        gone = []
        for cid in pre.get("missing", []):
            op = obj_path(cache, md5hex(contents[cid]))
            if os.path.lexists(op):
                os.chmod(op, 0o644)
                os.unlink(op)
                gone.append(cid)
        pcfg = dict(cfg, type=list(pre.get("types") or case["types"]))
        podb = odb if (pre.get("same_odb") and pcfg["type"] == cfg["type"]) else impl.make_odb(case["cls"], cache, **pcfg)
        pcase = dict(case, force=True, prompt="none")
        call_checkout(pcase, ws, cache, tmp, contents, bool(pre.get("relink")), state_obj, podb)
        pclock = Clock()
        pclock.t = 1_200_000_000
        for cid in gone:                                   # fetched into the cache
            pclock.stamp(impl.plant(cache, md5hex(contents[cid]), contents[cid]))

    res = {"items": [], "c05": [], "c10": [], "nontrivial": False, "tags": []}
    ws0, c0 = snap_ws(ws), snap_cache(cache)
    enc = Enc(cache, c0, ws0)
    out1, order1, rec1, asked1 = call_checkout(case, ws, cache, tmp, contents, case["relink"], state_obj, odb,
                                               fault=case.get("fault"))
    ws1, c1 = snap_ws(ws), snap_cache(cache)
    links1 = read_links(state_obj) if real_state else None
    token1 = indep_token(ws) if os.path.isdir(ws) else None
    ino1 = os.stat(ws).st_ino if os.path.isdir(ws) else None
    relink2 = case["relink"] if case["second"] == "same" else False
    # history cases: between the calls objects are collected from the cache (gc), and the second call may
    # have another target / flags and may go through a fresh odb object on the same cache directory
    hist = case.get("call2")
    case2 = case
    ws1b, c1b = ws1, c1
    if hist:
        for cid in hist.get("drop", []):
            op = obj_path(cache, md5hex(contents[cid]))
            if os.path.lexists(op):
                os.chmod(op, 0o644)
                os.unlink(op)
        ev = hist.get("user")
        if ev and os.path.isdir(ws):
            # the user deletes part of the workspace between the calls (same process, same workspace path)
            import shutil
            if ev == "rm_all":
                victims = [os.path.join(ws, n) for n in os.listdir(ws)]
            elif ev == "rm_subdirs":
                victims = [os.path.join(ws, n) for n in os.listdir(ws) if os.path.isdir(os.path.join(ws, n)) and not os.path.islink(os.path.join(ws, n))]
            elif ev.startswith("replace_preserving:"):
                # timestamp-preserving restore: new inode, new (uncached) bytes of the SAME size, identical mtime
                victims = []
                vp = os.path.join(ws, *ev.split(":", 1)[1].split("/"))
                if os.path.exists(vp):
                    st_old = os.stat(vp)                 # followed: what the hash state recorded
                    if st_old.st_size > 0:
                        tmpn = vp + ".restore~"
                        with open(tmpn, "wb") as f:
                            f.write(b"#" * st_old.st_size)
                        os.utime(tmpn, ns=(st_old.st_atime_ns, st_old.st_mtime_ns))
                        os.replace(tmpn, vp)             # the old inode still existed: the new one differs
                        st_new = os.stat(vp)
                        assert (st_new.st_size, st_new.st_mtime_ns) == (st_old.st_size, st_old.st_mtime_ns) \
                            and st_new.st_ino != st_old.st_ino
            else:                                        # "rm_file:<rel>"
                victims = [os.path.join(ws, *ev.split(":", 1)[1].split("/"))]
            for v in victims:
                if os.path.isdir(v) and not os.path.islink(v):
                    shutil.rmtree(v)
                elif os.path.lexists(v):
                    os.unlink(v)
        case2 = dict(case, force=hist["force"], prompt=hist["prompt"], target=hist["target"])
        relink2 = hist["relink"]
        if hist.get("fresh_odb"):
            odb = impl.make_odb(case["cls"], cache, **cfg)
        ws1b, c1b = snap_ws(ws), snap_cache(cache)
    out2, order2, rec2, asked2 = call_checkout(case2, ws, cache, tmp, contents, relink2, state_obj, odb)
    ws2, c2 = snap_ws(ws), snap_cache(cache)
    if state_obj is not None:
        state_obj.close()

    def saved(rec, out):
        # a record is written iff set_link ran: with state, and (diff empty and relink) or the loops completed
        return rec

    # ---- correspondence items
    exp1 = vL([outcome_val(out1), enc.ws_val(ws1), rec_val(case, enc, ws, rec1 if case["state"] else None), enc.cache_val(c1)])
    res["items"].append(({"case": case, "call": 1},
                         input_term(case, enc, links, case["relink"], c0, ws0, contents, order1), exp1))
    enc2 = Enc(cache, c1b, ws1b)
    exp2 = vL([outcome_val(out2), enc2.ws_val(ws2), rec_val(case, enc2, ws, rec2 if case["state"] else None), enc2.cache_val(c2)])
    res["items"].append(({"case": case, "call": 2},
                         input_term(case2, enc2, links, relink2, c1b, ws1b, contents, order2), exp2))

    # ---- oracle C05: account for every byte string lost from the workspace
    dangling = any(e["broken"] for e in ws0.values())
    for (before, after, cbefore, out, asked, tag, forced) in (
            (ws0, ws1, c0, out1, asked1, "call1", case["force"]),
            (ws1b, ws2, c1b, out2, asked2, "call2" + (f" (history: objects {hist.get('drop')} collected from the cache, user event {hist.get('user')})" if hist else ""), case2["force"])):
        if out[0] == "exc":
            res["c05"].append((f"C05:unexpected-exception:{out[1].split(':')[0]}", f"checkout raised {out[1]} ({tag})"))
        if forced:
            continue
        yes = {rel for rel, ans in asked if ans}
        for rel, e in before.items():
            if e["bytes"] is None:
                continue
            a = after.get(rel)
            if a is not None and a["bytes"] == e["bytes"]:
                continue
            o = md5hex(e["bytes"])
            if o in cbefore and cbefore[o]["bytes"] == e["bytes"]:
                continue
            if rel in yes:
                continue
            sig = "C05:unrecoverable-lost" + (":old-tree-build-failed" if any(x["broken"] for x in before.values()) else "")
            if o in cbefore and cbefore[o]["mode"] == 0o444:
                sig += ":old-object-corrupt-but-protected"
            res["c05"].append((sig, f"{tag}: '{rel}' held {e['bytes'][:30]!r} (not in the cache), unforced checkout left "
                                    f"{None if a is None or a['bytes'] is None else a['bytes'][:30]!r} without an affirmative prompt"))
        if out[0] == "prompt":
            rel = out[1]
            b, a = before.get(rel), after.get(rel)
            if b is None or a is None or (b["bytes"], b["islink"], b["dest"], b["ino"]) != (a["bytes"], a["islink"], a["dest"], a["ino"]):
                res["c05"].append(("C05:refused-but-touched", f"{tag}: PromptError('{rel}') but the path changed"))

    # ---- oracle C10
    for cb, ca, tag in ((c0, c1, "call1"), (c1b, c2, "call2")):
        def intact(o, b):
            return md5hex(b) == o.split(".")[0]
        changed = [o for o, v in cb.items() if intact(o, v["bytes"]) and (o not in ca or ca[o]["bytes"] != v["bytes"])]
        changed += [o for o, v in ca.items() if o in cb and not intact(o, cb[o]["bytes"]) and v["bytes"] != cb[o]["bytes"]]
        changed += [o for o in ca if o not in cb]
        if changed:
            res["c10"].append(("C10:cache-bytes-changed", f"{tag}: the byte snapshot of the cache changed for {sorted(changed)[:3]}"))
    tgt_bytes = {rel: contents[cid] for rel, cid in case["target"].items()}
    all_cached = all(md5hex(b) in c0 and c0[md5hex(b)]["bytes"] == b for b in tgt_bytes.values())   # present and intact
    in_quant = case["force"] and all_cached and bool(links) and not case.get("fault")   # an injected link fault is outside the quantifier
    tagq = ":old-tree-build-failed" if dangling else ""
    if in_quant and dangling:
        # without an old tree nothing is deleted or relinked (the known finding), but every TARGET path is still
        # (guard-)removed and linked afresh: it must hold the target's bytes
        bad = [rel for rel, b in tgt_bytes.items() if rel not in ws1 or ws1[rel]["bytes"] != b]
        if bad:
            res["c10"].append(("C10:target-path-wrong:unbuildable-old-tree",
                               f"forced checkout over a workspace with a dangling link ({out1}): target paths {sorted(bad)} "
                               f"are missing or do not hold the target's bytes"))
    if in_quant:
        if out1[0] not in ("none", "ret"):
            res["c10"].append(("C10:forced-checkout-failed" + tagq, f"forced checkout of a cached target raised {out1}"))
        else:
            got = {rel: e["bytes"] for rel, e in ws1.items()}
            if got != tgt_bytes:
                res["c10"].append(("C10:not-converged" + tagq, f"workspace after checkout differs from the target: "
                                                        f"{sorted(set(got) ^ set(tgt_bytes)) or [r for r in got if got[r] != tgt_bytes[r]]}"))
            if hist:
                pass                                    # the second call of a history is another checkout
            elif case["second"] == "plain" or not case["relink"]:
                if out2 != ("none",):
                    res["c10"].append(("C10:not-idempotent" + tagq, f"second checkout returned {out2} instead of None"))
            view = lambda s: {r: (e["bytes"], e["islink"], e["dest"], e["ino"]) for r, e in s.items()}  # noqa: E731
            if not hist and (case["second"] == "plain" or not case["relink"]) and view(ws2) != view(ws1):
                res["c10"].append(("C10:second-call-changed-workspace" + tagq, "the second checkout changed the workspace"))
            if case["relink"]:
                allowed = set(links)
                for rel, e in ws1.items():
                    if e["bytes"] is None:
                        res["c10"].append(("C10:wrong-link-type:dangling" + tagq, f"relinking checkout left '{rel}' dangling"))
                        continue
                    oidp = obj_path(cache, md5hex(e["bytes"]))
                    if e["islink"]:
                        kind = "symlink" if e["dest"] == oidp else "foreign-symlink"
                    elif e["nlink"] > 1 and e["ino"] == c1.get(md5hex(e["bytes"]), {}).get("ino"):
                        kind = "hardlink"
                    elif e["nlink"] > 1:
                        kind = "foreign-hardlink"
                    else:
                        kind = "copy"
                    ok = kind in allowed or (kind == "copy" and "hardlink" in allowed and e["bytes"] == b"") \
                        or (kind == "copy" and "reflink" in allowed)
                    if len(links) == 1:
                        want = links[0]
                        ok = kind == want or (want == "hardlink" and e["bytes"] == b"" and kind == "copy")
                    if not ok:
                        res["c10"].append((f"C10:wrong-link-type:{kind}-under-{'+'.join(links)}" + tagq,
                                           f"relinking checkout left '{rel}' as {kind}; usable configured types {links}"))
    # a forced second call of a history is C10_converges applied to the workspace as it is before that call
    if hist and case2["force"]:
        tgt2 = {rel: contents[cid] for rel, cid in case2["target"].items()}
        dangling2 = any(e["broken"] for e in ws1b.values())
        if all(md5hex(b) in c1b for b in tgt2.values()) and links:
            t2 = ":old-tree-build-failed" if dangling2 else ""
            if out2[0] not in ("none", "ret"):
                res["c10"].append(("C10:forced-checkout-failed" + t2, f"call 2 of a history on one workspace path "
                                   f"(after the user event {hist.get('user')}): forced checkout of a cached target raised {out2}"))
            else:
                got2 = {rel: e["bytes"] for rel, e in ws2.items()}
                if got2 != tgt2:
                    res["c10"].append(("C10:not-converged" + t2, f"call 2 of a history (after {hist.get('user')}): workspace differs "
                                       f"from the target: {sorted(set(got2) ^ set(tgt2)) or [r for r in got2 if got2[r] != tgt2[r]]}"))
    # link record: whenever a record was saved by a call that completed, it matches the workspace
    if real_state and rec1 is not None and out1[0] in ("none", "ret"):
        row = links1.get(os.path.relpath(ws, root)) if links1 else None
        if row is None or tuple(row) != (ino1, token1):
            res["c10"].append(("C10:link-record-mismatch", f"saved link record {row} != (inode, token) of the workspace {(ino1, token1)}"))
    if dangling:
        # one family, one signature: with a dangling link in the workspace the old tree cannot be built,
        # nothing is deleted or relinked and the saved record covers the target's keys only
        res["c10"] = [((sig if sig.startswith(("C10:cache-bytes-changed", "C10:target-path-wrong")) else "C10:does-not-converge:old-tree-build-failed"), what)
                      for sig, what in res["c10"]]
    if pre:
        res["tags"].append("prelude:" + ("fetched" if pre.get("missing") else "reconfigured"))
    res["tags"] = res["tags"] + [f"out1:{out1[0]}", f"out2:{out2[0]}", f"types:{'+'.join(case['types'])}", f"cls:{case['cls']}",
                   f"relink:{case['relink']}", f"prompt:{case['prompt'] if isinstance(case['prompt'], str) else 'some'}",
                   f"state:{case['state']}", f"stream:{case.get('stream')}"]
    if case["prior"]:
        for _, kind in case["prior"].values():
            res["tags"].append(f"prior-kind:{kind}")
    dd = ctx.extra.setdefault("input_dimensions", {})
    for d in dimensions(case, smode, links, ws0):
        dd[d] = dd.get(d, 0) + 1
    res["nontrivial"] = out1[0] != "none" and (ws1 != ws0 or out1[0] not in ("ret",))
    res["outs"] = (out1, out2)
    impl.rm_rf(root)
    return res


# ------------------------------------------------------------------------------------------
# deciders: enumeration of the real _remove / _checkout_file with recording fakes


def ast_hash(func_names):
    """normalised-AST hash of the anchored functions of hashfile/checkout.py (reported in the evidence)"""
    import dvc_data.hashfile.checkout as co

    with open(co.__file__) as f:
        tree = ast.parse(f.read())
    out = {}
    for n in tree.body:
        if isinstance(n, ast.FunctionDef) and n.name in func_names:
            out[n.name] = hashlib.sha1(ast.dump(n, include_attributes=False).encode()).hexdigest()[:16]
    return out


def decider_items():
    import dvc_data.hashfile.checkout as co
    from dvc_data.hashfile.diff import Change, TreeEntry
    from dvc_data.hashfile.hash_info import HashInfo
    from dvc_data.hashfile.meta import Meta

    class FS:
        def __init__(self, exists):
            self._exists = exists
            self.removed = []

        def exists(self, p):
            return self._exists

        def remove(self, p):
            self.removed.append(p)

        def iscopy(self, p):
            return True

    rm_items = []
    for force in (False, True):
        for inc in (False, True):
            for ex in (False, True):
                for ans in (None, False, True):
                    fs = FS(ex)
                    try:
                        co._remove("p", fs, inc, force=force, prompt=None if ans is None else (lambda m, a=ans: a))
                        act = 2 if fs.removed else 0
                    except co.PromptError:
                        act = 1
                    rm_items.append(({"decider": "_remove", "force": force, "in_cache": inc, "exists": ex, "answer": ans},
                                     "(%s, %s, %s, %s)" % (cbool(force), cbool(inc), cbool(ex), copt(ans, cbool)), vN(act)))

    class Cache:
        def __init__(self, types):
            self.cache_types = types
            self.unprotected = []

        def oid_to_path(self, o):
            return "C/" + o

        def unprotect(self, p):
            self.unprotected.append(p)

        def protect(self, p):
            pass

    cf_items = []
    for has_old in (False, True):
        for relink in (False, True):
            for (meta_none, iscopy, is_link, nlink) in ((False, True, False, 1), (False, True, False, 2), (False, False, True, 1),
                                                        (True, True, False, 1), (True, False, False, 1)):
                for same in (False, True):
                    for types in (["copy"], ["hardlink", "copy"], ["symlink"]):
                        fs = FS(True)
                        fs.iscopy = lambda p, v=iscopy: v
                        cache = Cache(types)
                        linked = []
                        # old entry "in cache", path exists, no force, no prompt: the guarded removal of the
                        # relink branch passes (in_cache) while the guard of the no-old-entry branch refuses
                        old = TreeEntry(Meta(), ("k",), None if meta_none else Meta(is_link=is_link, nlink=nlink),
                                        HashInfo("md5", "1" * 32 if same else "2" * 32)) if has_old else TreeEntry(None, ("k",), None, None)
                        new = TreeEntry(Meta(), ("k",), None, HashInfo("md5", "1" * 32))
                        try:
                            co._checkout_file(lambda c, src, f, dst: linked.append(dst), "p", fs, Change(old=old, new=new),
                                              cache, False, relink)
                            act = 1 if cache.unprotected else (2 if fs.removed and linked else 98)
                        except co.PromptError:
                            act = 0
                        cf_items.append(({"decider": "_checkout_file", "has_old": has_old, "relink": relink, "meta_none": meta_none,
                                          "iscopy": iscopy, "is_link": is_link, "nlink": nlink, "same": same, "types": types},
                                         "(%s, %s, %s, %s, %s, %s, %s, %s)" % (
                                             cbool(has_old), cbool(relink), cbool(meta_none if has_old else True), cbool(iscopy), cbool(is_link),
                                             cbool(nlink == 1), cbool(same), cbool(types[0] == "copy")), vN(act)))
    return rm_items, cf_items


def check_deciders(ctx):
    rm_items, cf_items = decider_items()
    ctx.correspond("decider_remove", IMPORTS, "bool * bool * bool * option bool",
                   "fun '(f, ic, ex, a) => enc_rm_act (remove_guard f ic ex a)", rm_items)
    ctx.correspond("decider_checkout_file", IMPORTS + "\nFrom DvcData Require Import Gen.ObjCheckout.",
                   "bool * bool * bool * bool * bool * bool * bool * bool",
                   "fun '(ho, rl, mn, ic, il, n1, so, cic) => enc_cf_opt (cf_of_acts (gen_checkout_file ho rl mn ic il n1 so cic))",
                   cf_items)
    ctx.extra["anchor_ast"] = ast_hash({"_remove", "_relink", "_checkout_file", "_checkout", "_diff", "checkout",
                                        "_determine_files_to_relink", "_needs_relink", "_save_link"})


def run_stream(ctx, streams, prop):
    """streams: [(stream, count)]; registers cases, oracle failures of `prop`, returns correspondence items"""
    items = []
    for stream, n in streams:
        for _ in range(n):
            case = gen_case(ctx.rng, stream)
            r = run_case(ctx, case)
            ctx.case(case, r["nontrivial"])
            for t in r["tags"]:
                ctx.count(t)
            for sig, what in r[prop.lower()]:
                ctx.oracle_fail(sig, what, case)
            items.extend(r["items"])
    return items


def replay(ctx, case, prop):
    r = run_case(ctx, case)
    return {"outcomes": r["outs"], "problems": r[prop.lower()], "violates": bool(r[prop.lower()])}
