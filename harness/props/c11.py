"""C11 - a transfer's result tells the truth about what arrived."""

import copy

from props import _transfer_common as TC
from props import _transfer_flags as TF

PROPERTY = "C11"
GEN: list = ["transfer"]
RULE = (
    "scenario = universe (3-6 file contents incl. the empty one, 1-4 flat listings sharing files, per-scenario salt) "
    "x source (complete / listed files missing / corrupt file object / corrupt-but-parseable, unparseable or missing "
    "directory object) x arbitrary initial destination (any subset of the objects, a directory object without its "
    "files, a corrupt object) x request (closed shallow, expanded, directories only, files only, mixed, an id absent "
    "on both sides) x verify x cache_odb (none / all / some directory objects) x source class x destination class x "
    "destination index x source index; the would-be uploads are observed by a fault-free run, then for a fail set "
    "(thorough: every subset when <=4 uploads, else random subsets; quick: seeded sample): faulty round + fault-free "
    "retry on the result (source index real/no-op when the source lost a listed file = fetch direction; 20% of the "
    "first rounds let source file objects vanish between the status phase and the uploads; 35% of the faulty rounds make some failing uploads partial: a strict prefix of the bytes "
    "is left under the final name), some scenarios with an external deletion behind the index's back, plus crash "
    "rounds (correspondence only); plus histories of 2-4 rounds on one persistent destination index with per-round "
    "requests (push A; A's directory object and some files vanish; push B + a file of A / files only / A again). Every "
    "round's TransferResult is judged. A scenario is non-trivial when an upload happened and a failure, crash, verification "
    "drop, file missing on both sides or pre-populated destination is involved."
)
ASSUMPTIONS = [
    "coverage audit: dimensions Model/Transfer.v does not cover run as ORACLE-ONLY scenarios (case key oracle_only; "
    "no correspondence item), judged by the same oracles: a contract-honouring FileExistsError (the object is placed, "
    "then the exception raised: an id reported failed while present is allowed), faults in the destination's "
    "existence query, a raising validate_status, read-only destination, real hard links on a plain LocalFileSystem "
    "(source BYTES must stay; mode changes of a hard-linked source are not judged), the memfs staging source of "
    "hashfile.build",
] + TF.OBSERVATION_ASSUMPTIONS + [
    "uploads are sequential (jobs=1; dvc_objects uses batch_size=1 for local->local copies); the orders of the "
    "directory loop and of the uploads are observed and passed to the model as oracle arguments",
    "source, cache_odb and base-class stores: objects (corrupt ones included) are planted write-protected (0o444; a "
    "LocalHashFileDB trusts them by mode, a base-class store only looks at existence). Local-class DESTINATION: an "
    "unprotected copy (mode != 0o444) whose bytes do not hash to its id is not vouched for and counts as ABSENT at "
    "the start of a round, because status() re-hashes and removes it (one rule, os.stat + hashlib: "
    "_transfer_common.effective_store); such copies are only pre-seeded without a destination index and for ids "
    "the status query covers",
    "requested HashInfos may carry a descriptive label (obj_name); the harness compares ids by .value only",
    "'right bytes' = the bytes the source stores under the id; 'present' = a regular file at <root>/<2 chars>/<rest> "
    "(lib.impl.walk_store)",
    "'absent afterwards => failed or missing' is judged without a destination index, or with one when the "
    "destination was closed at the start of the round, nothing was deleted behind the index and the directory "
    "objects in the destination are byte-identical to the copies status() reads from cache_odb/source (C12's "
    "hypothesis: 'directory present => contents present'); other rounds are counted under excluded:*",
    "directory listings are flat",
    "status sets are those the validate_status callback received in the round; a round that returns a result "
    "without calling it is judged with missing = new = {}",
    "40% of the destinations carry a real hash State (sqlite); verify is constant across the rounds of a scenario",
    "no-re-send, absent=>reported and status.new are judged when cache_odb (if given) holds the same bytes as the source for every "
    "requested directory id; when they disagree (one copy corrupt) and shallow=False, compare_status expands two "
    "different listings and a file listed only by the source's copy is re-sent although present (counted under "
    "excluded:resent:cache-source-disagree)",
]


def _register(ctx, S, notes, items):
    case = S.case
    problems = TC.judge_c11(S)
    feats, nontrivial = TC.features(S)
    ctx.case(case, nontrivial)
    for n in notes:
        ctx.count(n)
    for f in feats:
        ctx.count("feature:" + f)
    ctx.count("class:" + case["src_cls"] + "->" + case["dst_cls"]
              + ("+dix" + ("(noop)" if case["dix"] == "noop" else "") if case["dix"] else "")
              + ("+six" + ("(noop)" if case["six"] == "noop" else "") if case["six"] else ""))
    ctx.count("mode:" + ("shallow" if case["shallow"] else "expand") + ("/verify" if case["verify"] else ""))
    if case.get("labels"):
        ctx.count("labelled-request")
    ctx.count("status-phase-removals", sum(len(ob.get("status_drops") or []) for ob in S.rounds))
    ctx.count("rounds", len(S.rounds))
    ctx.count("judged-rounds", sum(1 for ob in S.rounds if ob["outcome"][0] == "ok"))
    for ob in S.rounds:
        ctx.count("outcome:" + ob["outcome"][0] + (str(ob["outcome"][1]) if ob["outcome"][0] == "err" else ""))
    for k, v in S.excluded.items():
        ctx.count(k if k.startswith("judged:") else "excluded:" + k, v)
    problems = TC.report(ctx, problems, case)
    TC.count_dims(ctx, TC.dimensions(S) | set(n for n in notes if n.startswith(("stream:", "shape:", "name:", "audit:")) or n in TC.NOTE_DIMS))
    if case.get("oracle_only"):
        ctx.count("oracle-only-scenarios")
    else:
        inp, exp = S.terms()
        items.append((case, inp, exp))
    return [p for p in problems if p[0] != TC.KNOWN_SIG]


def run(ctx):
    items = []
    n_problems = 0
    for case in TC.builtin_corpus("C11") + TC.corpus_cases("C11"):
        case = copy.deepcopy(case)
        case["prop"] = "C11"
        S = TC.run_scenario(ctx, case, crash_some=1)
        try:
            n_problems += len(_register(ctx, S, ["corpus"], items))
        finally:
            S.close()
    # coverage audit (tools/COVERAGE_AUDIT.md): fixed cases reaching every input dimension
    audit = ([(c, ["audit:names"]) for c in TF.names_cases("C11")] + [(c, ["audit:shapes"]) for c in TF.shape_cases("C11")]
             + [(c, ["audit:flags"]) for c in TF.flag_cases("C11")] + TF.position_cases(ctx, "C11")
             + [(c, ["audit:legacy-stores"]) for c in TF.legacy_cases("C11")]
             + [(c, ["audit:oracle-only"]) for c in TF.oracle_only_cases("C11")])
    for case, notes in audit:
        case = copy.deepcopy(case)
        plain = case.get("oracle_only") or any(r.get("kill_state") for r in case["rounds"])
        S = TC.run_scenario(ctx, case, crash_some=0 if plain else 1)
        try:
            n_problems += len(_register(ctx, S, ["corpus"] + notes, items))
        finally:
            S.close()
    TF.run_observations(ctx, "C11")  # unjudged inputs, recorded only
    for case in TF.staging_cases() + TF.mixedfs_cases():
        problems, dims, _rounds = TF.run_staging(ctx, case)
        ctx.case(case, True)
        ctx.count("audit:staging")
        ctx.count("oracle-only-scenarios")
        TC.count_dims(ctx, dims)
        n_problems += len(TC.report(ctx, [p for p in problems if p[0].startswith("C11:")], case))
    # the sharing chain A-f-B-g-C (processing order A,B,C), every requested id labelled, f fails
    chain, _salt = TC.corpus_chain(ctx, True)
    if chain is not None:
        for cls in ("local", "base"):
            case = copy.deepcopy(chain)
            case.update({"prop": "C11", "dst_cls": cls, "labels": {t: "chain/" + t for t in chain["req"]},
                         "rounds": [{"fails": ["f1"], "crash": None, "reset": True},
                                    {"fails": [], "crash": None, "reset": False}]})
            S = TC.run_scenario(ctx, case, crash_some=1)
            try:
                n_problems += len(_register(ctx, S, ["corpus", "chain", "labels:all"], items))
            finally:
                S.close()
    nbase = ctx.n(62, 280)
    per_base = ctx.n(2, 10)
    for _ in range(nbase):
        base, notes = TC.gen_base(ctx.rng, "C11")
        uploads = TC.probe_uploads(ctx, base)
        ctx.count("uploads:%d" % min(len(uploads), 8))
        shared = TC.shared_files(base)
        fsets = TC.fail_sets(ctx.rng, uploads, shared, 4 if ctx.tier == "thorough" else 0, 5)
        if len(fsets) > per_base:
            fsets = ctx.rng.sample(fsets, per_base)
        fsets = [[]] + fsets if (not fsets or "ghost-id" in notes or ctx.rng.random() < 0.3) else fsets
        for F in fsets:
            case = copy.deepcopy(base)
            case["dst_cls"] = ctx.rng.choice(["local", "base"])
            case["dix"] = ctx.rng.random() < 0.4
            if ctx.rng.random() < 0.4:
                case["dst_state"] = True  # a real hash State on the destination, persisted across the rounds
                ctx.count("dst-state")
                if case["verify"] and any(n.startswith("src-corrupt") for n in notes):
                    ctx.count("dst-state+verify+corrupt-source")
            if case["dix"] and ctx.rng.random() < 0.2:
                case["dix"] = "noop"
            if not case["six"] and ctx.rng.random() < 0.06:
                case["six"] = True
            if case["dst_cls"] == "local" and not case["dix"] and ctx.rng.random() < 0.8 \
                    and TC.add_rot(ctx.rng, case, notes, "C11"):
                ctx.count("dst-rot")
                ctx.count("dst-rot:dir-object", sum(1 for t in case["dst_rot"] if t.endswith(".dir")))
            first = {"fails": list(F), "crash": None, "reset": True}
            if F and ctx.rng.random() < 0.35:
                # a non-atomic remote: the failing upload leaves a truncated object under the final name
                first["partial"] = sorted(ctx.rng.sample(list(F), ctx.rng.randint(1, len(F))))
                ctx.count("fault:partial")
            file_ups = [u for u in uploads if not u.endswith(".dir") and u not in (first.get("partial") or [])]
            if file_ups and ctx.rng.random() < 0.2:
                # these source objects vanish between the status phase and the uploads
                first["vanish"] = sorted(ctx.rng.sample(file_ups, min(len(file_ups), ctx.rng.choice([1, 1, 2]))))
                ctx.count("fault:vanish")
            case["rounds"] = [first,
                              {"fails": [], "crash": None, "reset": False}]
            if case["dix"] and ctx.rng.random() < 0.35:
                # delete something behind the index's back, then transfer again
                pool = list(case["files"]) + list(case["dirs"])
                case["rounds"].append({"fails": [], "crash": None, "reset": False,
                                       "delete": ctx.rng.sample(pool, ctx.rng.randint(1, 2))})
                case["rounds"].append({"fails": [], "crash": None, "reset": False})
            ctx.count("fails:%d" % len(F))
            S = TC.run_scenario(ctx, case, crash_some=1 if ctx.rng.random() < 0.5 else 0)
            try:
                n_problems += len(_register(ctx, S, notes, items))
            finally:
                S.close()
    # ---- histories: one persistent destination index, per-round requests, external deletions
    for _ in range(ctx.n(24, 170)):
        case, notes = TC.gen_history(ctx.rng)
        S = TC.run_scenario(ctx, case)
        try:
            n_problems += len(_register(ctx, S, notes, items))
        finally:
            S.close()
    ctx.obligation("oracle:result-truthful", n_problems == 0,
                   f"{len(items)} scenarios, {ctx.dist.get('rounds', 0)} real transfer rounds, "
                   f"{ctx.dist.get('judged-rounds', 0)} results judged (partition, presence+bytes, absent=>reported, "
                   "no re-send, source untouched)"
                   + (f"; known finding reproduced on {ctx.known_hits.get(TC.KNOWN_SIG, 0)} round(s)"
                      if ctx.known_hits else ""))
    ctx.correspond("transfer", TC.IMPORTS, TC.INPUT_TYPE, TC.MODEL_FN, items, shard=40)
    ctx.extra["exhaustive"] = False


def replay_case(ctx, case):
    case = copy.deepcopy(case)
    if case.get("stream") in ("staging", "mixedfs"):
        problems, _dims, rounds = TF.run_staging(ctx, case)
        problems = [p for p in problems if p[0].startswith("C11:")]
        return {"violates": bool(problems), "problems": problems, "outcomes": [str(r["outcome"][:1]) for r in rounds]}
    S = TC.run_scenario(ctx, case)
    try:
        problems = TC.judge_c11(S)
        known = ctx.known.get(TC.KNOWN_SIG, {}).get("status") == "known"
        real = [p for p in problems if not (known and p[0] == TC.KNOWN_SIG)]
        return {"violates": bool(real), "problems": problems,
                "outcomes": [list(map(str, ob["outcome"][:2])) for ob in S.rounds]}
    finally:
        S.close()
