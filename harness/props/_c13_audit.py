"""C13 - input-space audit stream (tools/COVERAGE_AUDIT.md): every ROW WRITER and every READER route of the
hash-state cache on fixed scenarios that run in EVERY check (quick and thorough), judged by the same hashlib
oracle as the histories: whatever a route answers for a path - State.get_many (batch), State.get (single),
hash_file for each algorithm name, the staged tree - must be the digest of the bytes the path has at that instant,
and batch = single.  Real code only (no model): the rows written by writers other than hash_file are the ones the
theorem needs truthful (tick_ok of StSave), this stream checks that obligation route by route.

Every scenario returns nothing; it appends (signature, what, case) to A.problems and counts the dimensions it
reached in A.dims (-> ctx.extra["input_dimensions"]).  mtimes come from an explicit increasing clock (os.utime),
never from timing.
"""

import errno
import hashlib
import json
import os
import unicodedata

ALGS = ["md5", "md5-dos2unix", "sha256"]
T0 = 1_700_000_000_000_000_000


def digest(alg: str, data: bytes) -> str:
    if alg == "md5-dos2unix":
        if data and b"\0" not in data:
            data = data.replace(b"\r\n", b"\n")
        return hashlib.md5(data).hexdigest()  # noqa: S324
    return hashlib.new(alg, data).hexdigest()


def md5(b: bytes) -> str:
    return hashlib.md5(b).hexdigest()  # noqa: S324


class Audit:
    def __init__(self, ctx):
        from dvc_objects.fs.local import localfs

        self.ctx = ctx
        self.fs = localfs
        self.problems = []      # (signature, what, case)
        self.dims = {}
        self.probes = {}
        self.clock = T0 + 3_000_000_000_000   # later than anything the histories use, far from "now"

    # ---- bookkeeping
    def dim(self, name, k=1):
        self.dims[name] = self.dims.get(name, 0) + k

    def fail(self, scenario, what, case, sig=None):
        self.problems.append((sig or f"C13:stale:audit:{scenario}", what, case))

    def new(self, name):
        """fresh scratch root with a State; returns (root, state)"""
        from dvc_data.hashfile.state import State

        root = self.ctx.fresh("c13-a-" + name)
        st = State(root_dir=root, tmp_dir=os.path.join(root, ".state"))
        return root, st

    # ---- file mutations under the explicit clock
    def tick(self, whole=None):
        self.clock += 1_000_000_007
        if whole is True:
            self.clock = (self.clock // 10**9 + 1) * 10**9
        elif whole is False and self.clock % 10**9 == 0:
            self.clock += 123_456_000
        return self.clock

    def put(self, path, data, how="write", mtime="tick", whole=None):
        """write: in place (same inode if the file exists); replace: temp + os.replace (new inode).
        mtime: 'tick' = new clock value, 'same' = the mtime the path had before, or an explicit ns value."""
        os.makedirs(os.path.dirname(path), exist_ok=True)
        prev = os.stat(path).st_mtime_ns if os.path.exists(path) else None
        if how == "replace":
            tmp = path + ".tmp-audit"
            with open(tmp, "wb") as f:
                f.write(data)
            os.replace(tmp, os.path.realpath(path) if os.path.islink(path) else path)
        else:
            with open(path, "wb") as f:
                f.write(data)
        ns = prev if (mtime == "same" and prev is not None) else (mtime if isinstance(mtime, int) else self.tick(whole))
        os.utime(path, ns=(T0, ns))
        return os.stat(path)

    # ---- the oracle
    def judge(self, scenario, st, paths, label, case, algs=("md5",), infos=None):
        """every reader route for every path against the bytes at this instant; returns number of hits served"""
        from dvc_data.hashfile.hash import hash_file

        fs = self.fs
        cur = {}
        for p in paths:
            try:
                with open(p, "rb") as f:
                    cur[p] = f.read()
            except OSError:
                cur[p] = None
        hits = 0

        def check(route, p, hi):
            if cur.get(p) is None:
                self.fail(scenario, f"{label}: {route} answered {hi.name}:{hi.value} for the unreadable/missing {p!r}", case)
            elif hi.name not in ALGS or hi.value != digest(hi.name, cur[p]):
                self.fail(scenario, f"{label}: {route} answered {hi.name}:{hi.value} for {os.path.basename(p)!r}, whose bytes "
                                    f"{cur[p][:24]!r} hash to {digest(hi.name, cur[p]) if hi.name in ALGS else '?'}", case)

        batch = {}
        res = list(st.get_many(list(paths), fs, infos or {}))
        if [r[0] for r in res] != list(paths):
            self.fail(scenario, f"{label}: get_many did not answer the {len(paths)} requested paths in order", case,
                      sig="C13:batch-differs:audit")
        for p, meta, hi in res:
            batch[p] = None if hi is None else (hi.name, hi.value)
            if hi is not None:
                hits += 1
                check("State.get_many", p, hi)
        for p in dict.fromkeys(paths):
            meta, hi = st.get(p, fs, info=(infos or {}).get(p))
            single = None if hi is None else (hi.name, hi.value)
            if hi is not None:
                check("State.get", p, hi)
            if single != batch.get(p):
                self.fail(scenario, f"{label}: batch answered {batch.get(p)} and single {single} for {p!r}", case,
                          sig="C13:batch-differs:audit")
        for alg in algs:
            for p in dict.fromkeys(paths):
                if cur[p] is None:
                    continue
                _, hi = hash_file(p, fs, alg, state=st)
                if hi.name != alg:
                    self.fail(scenario, f"{label}: hash_file({alg}) answered under the name {hi.name}", case)
                check(f"hash_file({alg})", p, hi)
        return hits

    def judge_tree(self, scenario, obj, root, label, case):
        """the staged tree: every file under root listed once with the md5 of its bytes"""
        want = {}
        for dp, _, fns in os.walk(root):
            for fn in fns:
                p = os.path.join(dp, fn)
                with open(p, "rb") as f:
                    want[tuple(os.path.relpath(p, root).split(os.sep))] = md5(f.read())
        got = {key: hi.value for key, _, hi in obj}
        if got != want:
            diff = [(k, got.get(k), want.get(k)) for k in sorted(set(got) | set(want)) if got.get(k) != want.get(k)]
            self.fail(scenario, f"{label}: the staged tree differs from the bytes on disk in {len(diff)} entries, "
                                f"first (key, staged, md5 of bytes): {diff[0]}", case)


# --------------------------------------------------------------------------------------
# scenarios


NAMES = ["we\\ird.txt", "sp ace.txt", ".hidden", "кириллица.txt", "漢字.txt", "\U0001f600.bin",
         unicodedata.normalize("NFC", "café.txt"), unicodedata.normalize("NFD", "café.txt"),
         "x.dir", "imgs", "imgs_raw", "imgs.bak", "a", "L" * 200, "Case.txt", "case.txt", 'q"uote%.txt',
         "empty", "d ir/é/deep.txt", "d ir/é/.dir"]


def s_names(A):
    """names with unusual characters, NFC/NFD twins, prefixes, 1 and 200 chars, case twins, '.dir' suffix, a zero-length
    file, nesting; routes: build (real add), get_many, get, hash_file x 3 algs, build_entries, index md5"""
    from dvc_data.hashfile.build import build
    from dvc_data.index import build as ibuild
    from dvc_data.index import md5 as imd5
    from dvc_data.index.build import build_entries
    from fsspec.callbacks import Callback
    from lib import impl

    case = {"audit": "names", "names": NAMES}
    root, st = A.new("names")
    try:
        ws = os.path.join(root, "ws")
        odb = impl.local_odb(os.path.join(root, "cache"), state=st)
        paths = []
        for i, n in enumerate(NAMES):
            p = os.path.join(ws, *n.split("/"))
            A.put(p, b"" if n == "empty" else f"content of #{i}\r\n".encode())
            paths.append(p)
        _, _, obj = build(odb, ws, A.fs, "md5")
        A.judge_tree("names", obj, ws, "cold staging", case)
        if A.judge("names", st, paths, "after staging", case, algs=ALGS) < len(paths):
            A.fail("names", "staging did not record a row for every name", case, sig="C13:harness:audit-no-rows")
        for i, p in enumerate(paths):
            # same length, same inode, new mtime (zero-length file: it grows)
            A.put(p, f"CONTENT OF #{i}\r\n".encode() if NAMES[i] != "empty" else b"x")
        _, _, obj = build(odb, ws, A.fs, "md5", callback=Callback(), dry_run=True)
        A.judge_tree("names", obj, ws, "warm staging after rewriting every file", case)
        A.judge("names", st, paths, "after rewriting every file", case, algs=ALGS)
        got = {e.key: e.hash_info.value for e in build_entries(ws, A.fs, compute_hash=True, state=st)
               if e.hash_info is not None}
        idx = imd5(ibuild(ws, A.fs), state=st)
        got2 = {k: e.hash_info.value for k, e in idx.iteritems() if e.hash_info is not None}
        for p in paths:
            key = tuple(os.path.relpath(p, ws).split(os.sep))
            with open(p, "rb") as f:
                want = md5(f.read())
            for route, g in (("build_entries", got), ("index.md5", got2)):
                if g.get(key) != want:
                    A.fail("names", f"{route}: {key} answered {g.get(key)}, bytes hash to {want}", case)
        A.dim("names:unusual", len(NAMES))
        A.dim("names:nfc-nfd-twins")
        A.dim("names:case-twins")
        A.dim("names:200-chars")
        A.dim("names:dir-suffix", 2)
        A.dim("shape:zero-length-file")
        A.dim("flag:callback-non-default")
        A.dim("route:build-real-add")
    finally:
        st.close()


def s_shapes(A):
    """shapes: an empty directory, a directory holding only empty sub-directories, one-file directory, depth >= 3 with
    an intermediate directory that holds only sub-directories, identical content within and across directories,
    a zero-length file, the single-file (non-Tree) target"""
    from dvc_data.hashfile.build import build
    from lib import impl

    case = {"audit": "shapes"}
    root, st = A.new("shapes")
    try:
        ws = os.path.join(root, "ws")
        odb = impl.local_odb(os.path.join(root, "cache"), state=st)
        tree = {"only/sub/deep/f1": b"same", "only/sub/deep2/f2": b"same", "only/sub/deep/f3": b"same", "one/f": b"yy",
                "z": b"", "top": b"same"}
        for rel, data in tree.items():
            A.put(os.path.join(ws, *rel.split("/")), data)
        os.makedirs(os.path.join(ws, "emptydir"))
        os.makedirs(os.path.join(ws, "hollow", "a", "b"))
        paths = [os.path.join(ws, *rel.split("/")) for rel in tree]
        for round_ in range(2):
            _, _, obj = build(odb, ws, A.fs, "md5")
            A.judge_tree("shapes", obj, ws, f"staging round {round_}", case)
            A.judge("shapes", st, paths, f"round {round_}", case)
            for i, p in enumerate(paths):
                A.put(p, b"SAME" if i % 2 else b"sam2", how="replace" if i % 3 == 0 else "write", mtime="same" if i % 3 == 0 else "tick")
        _, _, obj = build(odb, paths[3], A.fs, "md5")               # a single file
        with open(paths[3], "rb") as f:
            want = md5(f.read())
        if obj.hash_info.value != want:
            A.fail("shapes", f"single-file staging answered {obj.hash_info.value}, bytes hash to {want}", case)
        empty = os.path.join(root, "empty")
        os.makedirs(empty)
        _, _, obj = build(odb, empty, A.fs, "md5")
        if len(list(obj)) != 0:
            A.fail("shapes", "the empty directory staged a non-empty tree", case)
        A.judge("shapes", st, paths, "end", case, algs=("md5", "sha256"))
        for d in ("shape:empty-directory", "shape:only-empty-subdirectories", "shape:one-file-directory", "shape:depth>=3",
                  "shape:duplicates-within-and-across-directories", "shape:zero-length-file", "shape:single-file-target"):
            A.dim(d)
    finally:
        st.close()


def s_boundary(A, sizes):
    """a directory of n files staged for real across the SQL parameter boundary: _get_hashes -> get_many(n paths) /
    save_many(n rows); cold, then warm after rewriting the files at the chunk edges"""
    from dvc_data.hashfile.build import build
    from lib import impl

    for n in sizes:
        case = {"audit": "boundary", "n": n}
        root, st = A.new(f"bnd{n}")
        try:
            ws = os.path.join(root, "ws")
            os.makedirs(ws)
            odb = impl.local_odb(os.path.join(root, "cache"), state=st)
            for i in range(n):
                with open(os.path.join(ws, f"f{i:04d}"), "wb") as f:
                    f.write(b"c%d" % (i % 997))            # duplicates included
            ns = A.tick()
            for i in range(n):
                os.utime(os.path.join(ws, f"f{i:04d}"), ns=(T0, ns))
            _, _, obj = build(odb, ws, A.fs, "md5", dry_run=True)
            A.judge_tree("boundary", obj, ws, f"cold staging of {n} files", case)
            order = [k[0] for k, _, _ in obj]
            listing = [os.path.join(ws, name) for name in order]
            hits = sum(1 for _, _, hi in st.get_many(listing, A.fs, {}) if hi is not None)
            if hits != n:
                A.fail("boundary", f"after staging {n} files get_many serves {hits} rows", case, sig="C13:batch-differs:audit")
            edges = sorted({0, 1, 997, 998, 999, 1000, n - 2, n - 1} & set(range(n)))
            walk = sorted(os.listdir(ws))
            for pos in edges:
                for name in {walk[pos], os.path.basename(listing[pos])}:
                    A.put(os.path.join(ws, name), b"Z%d" % (pos % 9))      # same length for 1-digit indices, else shorter
            _, _, obj = build(odb, ws, A.fs, "md5", dry_run=True)
            A.judge_tree("boundary", obj, ws, f"warm staging of {n} files after rewriting those at the chunk edges", case)
            A.judge("boundary", st, listing, f"{n} paths", case)
            A.dim(f"batch:real-files:{n}")
        finally:
            st.close()


def s_token_subsets(A):
    """every non-empty subset of (inode, mtime, size) changing while the others are kept - on a plain file, on a
    symlink's target, with whole-second and sub-second mtimes; each after a row was recorded, each followed by every
    reader route and a staging run"""
    from dvc_data.hashfile.build import build
    from dvc_data.hashfile.hash import hash_file
    from lib import impl

    for kind in ("plain", "symlink-target"):
        for whole in (True, False):
            root, st = A.new("tok")
            try:
                ws = os.path.join(root, "ws")
                odb = impl.local_odb(os.path.join(root, "cache"), state=st)
                p = os.path.join(ws, "f")
                other = os.path.join(ws, "g")
                if kind == "plain":
                    A.put(p, b"aaaa", whole=whole)
                else:
                    A.put(os.path.join(root, "targets", "t"), b"aaaa", whole=whole)
                    os.makedirs(ws, exist_ok=True)
                    os.symlink(os.path.join(root, "targets", "t"), p)
                A.put(other, b"gggg", whole=whole)
                for n in range(3):
                  for ino in (False, True):
                    for mt in (False, True):
                        for size in (False, True):
                            if not (ino or mt or size):
                                continue            # nothing moves: the touch-back probe, outside Ticks
                            case = {"audit": "token-subsets", "kind": kind, "whole_second": whole,
                                    "recorded_by": ("hash_file", "staging", "hash_file(info)")[n],
                                    "changes": {"inode": ino, "mtime": mt, "size": size}}
                            # the row is recorded through each route in turn
                            if n == 0:
                                hash_file(p, A.fs, "md5", state=st)
                            elif n == 1:
                                build(odb, ws, A.fs, "md5", dry_run=True)
                            else:
                                hash_file(p, A.fs, "md5", state=st, info=A.fs.info(p))
                            with open(p, "rb") as f:
                                cur = f.read()
                            new = (bytes([cur[0] ^ 3]) * (len(cur) + 1 if size else len(cur)))[: 9 if len(cur) >= 8 else None]
                            if size and len(new) == len(cur):
                                new = new[:-2]
                            before = os.stat(p)
                            A.put(p, new, how="replace" if ino else "write", mtime="tick" if mt else "same", whole=whole)
                            after = os.stat(p)
                            moved = {"inode": before.st_ino != after.st_ino, "mtime": before.st_mtime != after.st_mtime,
                                     "size": before.st_size != after.st_size}
                            if moved != case["changes"]:
                                A.dim("token-subset:not-realised")      # (e.g. the inode number was reused)
                                continue
                            # read back first through the route that recorded it (staging reads with the walk's stat)
                            if n == 1:
                                _, _, obj = build(odb, ws, A.fs, "md5", dry_run=True)
                                A.judge_tree("token-subsets", obj, ws, f"{kind}: staging after {case['changes']} moved", case)
                            A.judge("token-subsets", st, [p, other], f"{kind}: {case['changes']} moved", case)
                            _, _, obj = build(odb, ws, A.fs, "md5", dry_run=True)
                            A.judge_tree("token-subsets", obj, ws, f"{kind}: staging after {case['changes']} moved", case)
                            A.dim("token-subset:" + "+".join(k for k in ("inode", "mtime", "size") if case["changes"][k]))
                            A.dim("file-kind:" + kind)
                            A.dim("mtime:" + ("whole-second" if whole else "sub-second"))
            finally:
                st.close()


def s_mtime_resolution(A):
    """whole-second <-> sub-second mtimes around a same-size rewrite"""
    from dvc_data.hashfile.hash import hash_file

    root, st = A.new("mres")
    try:
        p = os.path.join(root, "ws", "f")
        seq = [(True, b"aaa"), (True, b"bbb"), (False, b"ccc"), (True, b"ddd"), (False, b"eee"), (False, b"fff")]
        for i, (whole, data) in enumerate(seq):
            case = {"audit": "mtime-resolution", "step": i, "whole_second": whole}
            A.put(p, data, whole=whole)
            A.judge("mtime-resolution", st, [p], f"step {i} (mtime {os.stat(p).st_mtime!r})", case, algs=("md5", "sha256"))
            hash_file(p, A.fs, "md5", state=st)
            A.dim("mtime:" + ("whole-second" if whole else "sub-second"))
        # same-size rewrites whose mtimes differ only BELOW the second, then only by microseconds
        base = (A.tick() // 10**9 + 2) * 10**9
        A.clock = base + 10**9
        for i, off in enumerate((100_000_000, 400_000_000, 400_002_000, 999_999_000)):
            case = {"audit": "mtime-resolution", "same_second_offset_ns": off}
            A.put(p, b"s%02d" % i, mtime=base + off)
            A.judge("mtime-resolution", st, [p], f"mtime {os.stat(p).st_mtime!r} (same second as the recorded one)", case)
            hash_file(p, A.fs, "md5", state=st)
            A.dim("mtime:changes-within-one-second")
    finally:
        st.close()


def s_symlinked_parent(A):
    """a file reached through a symlinked parent directory and a State whose root_dir is a symlink: rows are keyed
    by the path as spelled; a write through one spelling must be seen through the other"""
    from dvc_data.hashfile.build import build
    from dvc_data.hashfile.state import State
    from lib import impl

    root = A.ctx.fresh("c13-a-symparent")
    real = os.path.join(root, "real")
    os.makedirs(os.path.join(real, "data"))
    link_root = os.path.join(root, "lroot")
    os.symlink(real, link_root)
    os.symlink(os.path.join(real, "data"), os.path.join(real, "ldata"))
    st = State(root_dir=link_root, tmp_dir=os.path.join(root, ".state"))
    try:
        case = {"audit": "symlinked-parent"}
        odb = impl.local_odb(os.path.join(root, "cache"), state=st)
        spell = [os.path.join(real, "data", "f"), os.path.join(link_root, "data", "f"), os.path.join(real, "ldata", "f"),
                 os.path.join(link_root, "ldata", "f")]
        A.put(spell[0], b"one1")
        A.put(os.path.join(real, "data", "g"), b"gggg")
        for i, via in enumerate(spell):
            build(odb, os.path.dirname(spell[(i + 1) % 4]), A.fs, "md5", dry_run=True)
            A.judge("symlinked-parent", st, spell, f"rows recorded through spelling {(i + 1) % 4}", case)
            A.put(via, b"two%d" % i, how="replace" if i % 2 else "write", mtime="same" if i == 1 else "tick")
            A.judge("symlinked-parent", st, spell, f"after a write through spelling {i}", case)
            _, _, obj = build(odb, os.path.join(link_root, "ldata"), A.fs, "md5", dry_run=True)
            A.judge_tree("symlinked-parent", obj, os.path.join(real, "data"), f"staging through the links after write {i}", case)
        A.dim("file-kind:through-symlinked-parent", 2)
        A.dim("file-kind:symlinked-root_dir", 2)
    finally:
        st.close()


def s_hardlink(A):
    """a workspace file that is a hard link of a cache object (nlink > 1): rows exist for both names (odb.add's
    save_many for the cache path, hash_file for the workspace path); an in-place write through the workspace name
    changes the bytes of both"""
    from dvc_data.hashfile.hash import hash_file
    from lib import impl

    for cls in ("local", "base"):
        root, st = A.new("hl" + cls)
        try:
            case = {"audit": "hardlink-to-cache-object", "odb": cls}
            odb = impl.make_odb(cls, os.path.join(root, "cache"), state=st)
            src = os.path.join(root, "src", "f")
            A.put(src, b"payload-1")
            oid = md5(b"payload-1")
            odb.add(src, A.fs, oid, hardlink=True)
            cpath = odb.oid_to_path(oid)
            w = os.path.join(root, "ws", "h")
            os.makedirs(os.path.dirname(w))
            os.link(cpath, w)
            if os.stat(w).st_nlink < 2:
                continue
            hash_file(w, A.fs, "md5", state=st)
            A.judge("hardlink", st, [w, cpath, src], "hard link of a cache object, rows for both names", case)
            os.chmod(w, 0o644)
            A.put(w, b"PAYLOAD-2")                      # same size, same inode, new mtime: both names change
            A.judge("hardlink", st, [w, cpath, src], "after an in-place write through the workspace name", case,
                    algs=("md5", "md5-dos2unix"))
            A.put(w, b"payload-3", mtime="same", how="replace")    # the link is broken: only the workspace name changes
            A.judge("hardlink", st, [w, cpath, src], "after replacing the workspace name", case)
            A.dim("file-kind:hardlink-nlink>1")
            A.dim("route:odb.add-save_many")
        finally:
            st.close()


def s_inode_reuse(A, tries=300):
    """delete + re-create until the file system hands out the SAME inode number again (bounded); with a new mtime
    the token differs and the row must not be served; with the mtime restored as well the token is identical -
    outside Ticks, recorded as a probe"""
    from dvc_data.hashfile.hash import hash_file

    root, st = A.new("inoreuse")
    try:
        p = os.path.join(root, "ws", "f")
        A.put(p, b"first")
        hash_file(p, A.fs, "md5", state=st)
        reused = 0
        restored_stale = None
        for i in range(tries):
            before = os.stat(p)
            os.unlink(p)
            data = b"re%03d" % i
            with open(p, "wb") as f:
                f.write(data)
            if os.stat(p).st_ino != before.st_ino:
                os.utime(p, ns=(T0, A.tick()))
                hash_file(p, A.fs, "md5", state=st)
                continue
            reused += 1
            case = {"audit": "inode-reuse", "try": i}
            if reused == 1 or reused % 2:
                os.utime(p, ns=(T0, A.tick()))
                A.judge("inode-reuse", st, [p], "same inode number and size after delete + create, new mtime", case)
            else:
                os.utime(p, ns=(T0, before.st_mtime_ns))          # identical token: outside Ticks
                _, hi = st.get(p, A.fs)
                restored_stale = bool(hi is not None and hi.value != md5(data))
                os.utime(p, ns=(T0, A.tick()))
                hash_file(p, A.fs, "md5", state=st)
            if reused >= 4:
                break
            hash_file(p, A.fs, "md5", state=st)
        A.dim("file-kind:inode-reused-after-delete+create", reused)
        A.probes["inode-reuse-with-mtime-and-size-restored"] = {
            "inode_reuse_observed": reused, "stale_answer_observed": restored_stale,
            "note": "identical (inode, mtime, size) for different bytes: outside Ticks, like the touch-back probe"}
    finally:
        st.close()


def s_alg_pairs(A):
    """every ordered pair of algorithm names sharing one State over one path, with and without a write between"""
    from dvc_data.hashfile.hash import hash_file

    root, st = A.new("algs")
    try:
        p = os.path.join(root, "ws", "f")
        A.put(p, b"l1\r\nl2\r\n")
        i = 0
        for a1 in ALGS:
            for a2 in ALGS:
                if a1 == a2:
                    continue
                for write in (False, True):
                    case = {"audit": "algorithm-pairs", "first": a1, "second": a2, "write_between": write}
                    hash_file(p, A.fs, a1, state=st)
                    if write:
                        i += 1
                        A.put(p, b"l%d\r\nl2\r\n" % (i % 10))
                    _, hi = hash_file(p, A.fs, a2, state=st, info=A.fs.info(p) if i % 2 else None)
                    with open(p, "rb") as f:
                        data = f.read()
                    if hi.name != a2 or hi.value != digest(a2, data):
                        A.fail("algorithm-pairs", f"{a1} then {a2}: answered {hi.name}:{hi.value}, bytes hash to {digest(a2, data)}", case)
                    A.judge("algorithm-pairs", st, [p], f"{a1} then {a2}", case, algs=())
                    A.dim(f"alg-pair:{a1}->{a2}")
    finally:
        st.close()


def s_odb_rows(A):
    """odb.add's save_many (rows for cache paths), HashFileDB.check / LocalHashFileDB.check (hash_file with state),
    then tampering with the object: the row must not outlive the bytes"""
    from dvc_objects.errors import ObjectFormatError
    from lib import impl

    for cls in ("local", "base"):
        for verify in (False, True):
            root, st = A.new("odb")
            try:
                case = {"audit": "odb-rows", "odb": cls, "verify": verify}
                odb = impl.make_odb(cls, os.path.join(root, "cache"), state=st, verify=verify)
                srcs, oids = [], []
                for i in range(3):
                    s = os.path.join(root, "src", f"s{i}")
                    A.put(s, b"object-%d" % i)
                    srcs.append(s)
                    oids.append(md5(b"object-%d" % i))
                odb.add(srcs, A.fs, oids, hardlink=False)
                cpaths = [odb.oid_to_path(o) for o in oids]
                A.judge("odb-rows", st, cpaths + srcs, "after odb.add", case)
                for o in oids:
                    odb.check(o)
                A.judge("odb-rows", st, cpaths, "after odb.check", case)
                # bit rot + a careless tool: the object is rewritten (same size), its mode opened
                os.chmod(cpaths[0], 0o644)
                A.put(cpaths[0], b"OBJECT-0")
                os.chmod(cpaths[1], 0o644)
                A.put(cpaths[1], b"OBJECT-1", how="replace", mtime="same")
                A.judge("odb-rows", st, cpaths, "after tampering with two objects", case)
                for o in oids[:2]:
                    try:
                        odb.check(o)
                        A.dim("odb.check:accepted-tampered(mode)")     # C07's business (trust by mode), not a cached hash
                    except ObjectFormatError:
                        A.dim("odb.check:rejected-tampered")
                    except FileNotFoundError:
                        pass
                A.judge("odb-rows", st, [c for c in cpaths if os.path.exists(c)], "after odb.check of the tampered objects", case)
                A.dim("route:odb.add-save_many")
                A.dim("route:odb.check")
                A.dim("flag:verify=" + str(verify))
            finally:
                st.close()


SIG_LEFTOVER = "C13:stale-hit:add-recorded-mismatching-leftover"


def s_odb_leftover(A):
    """pre-existing state: a MISMATCHING object already at the oid's cache path (unprotected leftover / protected
    corrupt copy) when odb.add is asked to add the right bytes.
    Known finding (C15's, seen from the cache): add(check_exists=True) WITHOUT an effective verify skips the copy and
    still records the row -> signature SIG_LEFTOVER, only for exactly that precondition and only for the cache path
    still holding the leftover's bytes.  With verify (per call or store default) the leftover is dropped first, with
    check_exists=False it is overwritten: any stale answer there keeps the generic signature (a VIOLATION)."""
    from lib import impl

    variants = [("plain", {}, {}), ("verify-per-call", {}, {"verify": True}), ("verify-store-default", {"verify": True}, {}),
                ("check_exists=False", {}, {"check_exists": False})]
    for cls in ("local", "base"):
        for mode in (0o644, 0o444):
            for vname, cfg, kw in variants:
                root, st = A.new("left")
                try:
                    case = {"audit": "odb.add-over-mismatching-leftover", "odb": cls, "leftover_mode": oct(mode),
                            "leftover": "BADD", "added": "GOOD", "variant": vname}
                    odb = impl.make_odb(cls, os.path.join(root, "cache"), state=st, **cfg)
                    os.makedirs(odb.path, exist_ok=True)
                    src = os.path.join(root, "src.bin")
                    A.put(src, b"GOOD")
                    oid = md5(b"GOOD")
                    cpath = impl.plant(odb.path, oid, b"BADD", mode=mode)
                    os.utime(cpath, ns=(T0, A.tick()))
                    try:
                        odb.add(src, A.fs, oid, **kw)
                    except Exception as exc:  # noqa: BLE001
                        A.dim("odb.add-over-leftover:raised:" + type(exc).__name__)
                    n = len(A.problems)
                    paths = [q for q in (cpath, src) if os.path.exists(q)]
                    A.judge("odb-leftover", st, paths, f"after odb.add ({vname}) over a mismatching leftover", case)
                    try:
                        with open(cpath, "rb") as f:
                            still = f.read() == b"BADD"
                    except OSError:
                        still = False
                    # verify is NOT effective on a LocalHashFileDB for a leftover that is write-protected: its check
                    # trusts mode 0o444 without reading (C07's trust-by-mode), so add() skips and records as in "plain"
                    ineffective = vname.startswith("verify") and cls == "local" and mode == 0o444
                    if still and (vname == "plain" or ineffective):
                        for k in range(n, len(A.problems)):
                            if os.path.basename(cpath) in A.problems[k][1]:
                                A.problems[k] = (SIG_LEFTOVER, A.problems[k][1], case)
                    A.dim("pre-existing:mismatching-object-at-cache-path")
                    A.dim("odb.add-over-leftover:" + vname + (":leftover-still-there" if still else ":replaced-or-dropped"))
                finally:
                    st.close()


def s_object_checkout(A):
    """object checkout (hashfile/checkout.py): state.save_many of the checked-out files + the link row, over a
    workspace with pre-existing files, a missing object, each link type, force on/off, then relink and later writes"""
    from dvc_data.hashfile.checkout import checkout
    from lib import impl

    for link in ("copy", "hardlink", "symlink"):
        for force in (False, True):
            root, st = A.new("oco")
            try:
                case = {"audit": "object-checkout", "link": link, "force": force}
                odb = impl.local_odb(os.path.join(root, "cache"), state=st, type=[link])
                srcd = os.path.join(root, "srcd")
                for rel, data in {"a": b"AAA", "b": b"BBB", "s/c": b"CCC", "e": b""}.items():
                    A.put(os.path.join(srcd, *rel.split("/")), data)
                _, obj = impl.stage(odb, srcd)
                ws = os.path.join(root, "ws")
                for rel, data in {"a": b"old", "s/c": b"CCC", "u": b"uuu"}.items():
                    A.put(os.path.join(ws, *rel.split("/")), data)
                gone = odb.oid_to_path(md5(b"BBB"))
                os.chmod(gone, 0o644)
                os.unlink(gone)

                def files():
                    return sorted(os.path.join(dp, fn) for dp, _, fns in os.walk(ws) for fn in fns)

                for round_, kw in enumerate(({}, {"relink": True})):
                    try:
                        checkout(ws, A.fs, obj, odb, force=force, state=st, prompt=lambda _m: False, **kw)
                    except Exception as exc:  # noqa: BLE001  (CheckoutError / PromptError / a missing source: C05, C10)
                        A.dim("object-checkout:raised:" + type(exc).__name__)
                    A.judge("object-checkout", st, files(), f"after checkout round {round_}", case,
                            algs=("md5", "md5-dos2unix"))
                    for p in [q for q in files() if os.path.exists(q)][:2]:
                        with open(p, "rb") as f:
                            data = f.read()
                        A.put(p, bytes(b ^ 1 for b in data) or b"!", how="replace", mtime="same" if round_ else "tick")
                    A.judge("object-checkout", st, files(), f"after writes following round {round_}", case)
                A.dim("route:object-checkout-save_many")
                A.dim("flag:link=" + link)
                A.dim("flag:force=" + str(force))
            finally:
                st.close()


def s_migrate(A):
    """db.migrate.prepare: objects of a legacy store re-hashed with state=dest.state (rows for the SOURCE store's
    paths under the destination's algorithm name), two stores of different algorithm names sharing one State"""
    from dvc_data.hashfile.db.migrate import migrate, prepare
    from lib import impl

    root, st = A.new("migrate")
    try:
        case = {"audit": "migrate-prepare"}
        src = impl.local_odb(os.path.join(root, "legacy"), state=st, hash_name="md5-dos2unix")
        dest = impl.local_odb(os.path.join(root, "cache"), state=st, hash_name="md5")
        datas = [b"l1\r\nl2\r\n", b"plain", b"\x00bin\r\n"]
        spaths = []
        for d in datas:
            spaths.append(impl.plant(src.path, digest("md5-dos2unix", d), d))
        for p in spaths:
            os.utime(p, ns=(T0, A.tick()))
        mig = prepare(src, dest)
        want = {p: md5(d) for p, d in zip(spaths, datas)}
        if dict(zip(mig.paths, mig.oids)) != want:
            A.fail("migrate", f"prepare computed {dict(zip(mig.paths, mig.oids))}, md5 of the bytes: {want}", case)
        A.judge("migrate", st, spaths, "after prepare", case, algs=("md5", "md5-dos2unix"))
        for o in [digest("md5-dos2unix", d) for d in datas]:
            src.check(o)                                 # the legacy store reads the same rows under its own name
        A.judge("migrate", st, spaths, "after the legacy store checked its objects", case)
        os.chmod(spaths[0], 0o644)
        A.put(spaths[0], b"L1\r\nL2\r\n")               # same size
        mig = prepare(src, dest)
        with open(spaths[0], "rb") as f:
            cur = f.read()
        if dict(zip(mig.paths, mig.oids)).get(spaths[0]) != md5(cur):
            A.fail("migrate", f"second prepare answered {dict(zip(mig.paths, mig.oids)).get(spaths[0])} for the rewritten "
                              f"object, bytes hash to {md5(cur)}", case)
        migrate(mig)
        dpaths = [dest.oid_to_path(o) for o in mig.oids]
        A.judge("migrate", st, spaths + dpaths, "after migrate", case)
        A.dim("route:migrate.prepare")
        A.dim("alg-pair:two-stores-one-State")
    finally:
        st.close()


def s_legacy_store(A):
    """a legacy store (hash_name = md5-dos2unix) sharing one State with md5 lookups: odb.add records its rows under
    the STORE's algorithm name; CRLF text objects, whose md5-dos2unix id differs from the md5 of their bytes, looked up
    under md5 through the shared State with unchanged stat: single (get / hash_file), batched (get_many / staging of the
    store directory), migrate.prepare"""
    from dvc_data.hashfile.build import build
    from dvc_data.hashfile.db.migrate import prepare
    from lib import impl

    datas = [b"l1\r\nl2\r\n", b"a\r\nb", b"plain", b"\x00bin\r\n"]
    for route in ("lookups", "prepare", "staging"):
        for cls in ("local", "base"):
            root, st = A.new("legacy")
            try:
                case = {"audit": "legacy-store-rows", "route": route, "odb": cls}
                legacy = impl.make_odb(cls, os.path.join(root, "legacy"), state=st, hash_name="md5-dos2unix")
                dest = impl.local_odb(os.path.join(root, "cache"), state=st, hash_name="md5")
                srcs, oids = [], []
                for i, d in enumerate(datas):
                    sp = os.path.join(root, "src", f"s{i}")
                    A.put(sp, d)
                    srcs.append(sp)
                    oids.append(digest("md5-dos2unix", d))
                legacy.add(srcs, A.fs, oids, hardlink=False)
                cpaths = [legacy.oid_to_path(o) for o in oids]
                want = {p: md5(d) for p, d in zip(cpaths, datas)}
                if route == "prepare":
                    mig = prepare(legacy, dest)
                    got = dict(zip(mig.paths, mig.oids))
                    if got != want:
                        bad = [(os.path.basename(p), got.get(p), want[p]) for p in cpaths if got.get(p) != want[p]]
                        A.fail("legacy-store", f"migrate.prepare right after the legacy store's add: (object, answered, md5 of "
                                               f"bytes) {bad[0]}", case)
                elif route == "staging":
                    _, _, obj = build(dest, legacy.path, A.fs, "md5", dry_run=True)
                    A.judge_tree("legacy-store", obj, legacy.path, "md5 staging of the legacy store's directory", case)
                A.judge("legacy-store", st, cpaths, f"md5 lookups after the legacy store's add ({route})", case,
                        algs=("md5", "md5-dos2unix", "md5"))
                for o in oids:
                    legacy.check(o)
                A.judge("legacy-store", st, cpaths, "after the legacy store checked its objects", case)
                A.dim("route:legacy-store-add+md5-lookup:" + route)
                A.dim("content:crlf-text-object", 2)
            finally:
                st.close()


def s_remove_fault(A):
    """object checkout with a linking cache type when REMOVING the modified workspace file fails (PermissionError /
    EIO injected on fs.remove of that path): the old bytes stay; whatever checkout does then, no row may vouch for
    the target hash over them"""
    from dvc_data.hashfile.checkout import checkout
    from lib import impl

    for link in ("hardlink", "symlink", "copy"):
        for err in (errno.EACCES, errno.EIO):
            root, st = A.new("rmfault")
            try:
                case = {"audit": "object-checkout-remove-fault", "link": link, "errno": errno.errorcode[err]}
                odb = impl.local_odb(os.path.join(root, "cache"), state=st, type=[link])
                srcd = os.path.join(root, "srcd")
                for rel, data in {"a": b"AAA", "b": b"BBB", "s/c": b"CCC"}.items():
                    A.put(os.path.join(srcd, *rel.split("/")), data)
                _, obj = impl.stage(odb, srcd)
                ws = os.path.join(root, "ws")
                for rel, data in {"a": b"old", "b": b"BBB", "s/c": b"ccc"}.items():
                    A.put(os.path.join(ws, *rel.split("/")), data)
                victim = os.path.join(ws, "a")
                fs = A.fs
                o_remove = fs.remove

                def p_remove(path, *a, _v=victim, _o=o_remove, _e=err, **kw):
                    targets = path if isinstance(path, (list, tuple)) else [path]
                    if _v in targets:
                        raise OSError(_e, os.strerror(_e), _v) if _e != errno.EACCES else PermissionError(_e, os.strerror(_e), _v)
                    return _o(path, *a, **kw)

                fs.remove = p_remove
                try:
                    checkout(ws, fs, obj, odb, force=True, state=st)
                    A.dim("remove-fault:checkout-returned")
                except Exception as exc:  # noqa: BLE001
                    A.dim("remove-fault:checkout-raised:" + type(exc).__name__)
                finally:
                    del fs.remove
                files = sorted(os.path.join(dp, fn) for dp, _, fns in os.walk(ws) for fn in fns)
                A.judge("remove-fault", st, files, f"after a checkout whose removal of 'a' failed ({errno.errorcode[err]}, {link})",
                        case, algs=("md5",))
                A.dim("fault:remove@object-checkout:" + link)
            finally:
                st.close()


def s_faults(A):
    """a failing read at each position of a staging batch (EIO from the hashing worker, a file that vanished between
    the walk and the read, a dangling symlink in the directory): nothing wrong may be left in the table"""
    import dvc_data.hashfile.build as bmod
    from lib import impl

    for kind in ("EIO", "vanished", "dangling"):
        for pos in (0, 1, 2):
            root, st = A.new("fault")
            try:
                case = {"audit": "fault-in-batch", "kind": kind, "position": pos}
                ws = os.path.join(root, "ws")
                odb = impl.local_odb(os.path.join(root, "cache"), state=st)
                names = ["f0", "f1", "f2"]
                for i, n in enumerate(names):
                    A.put(os.path.join(ws, n), b"data-%d" % i)
                bmod.build(odb, ws, A.fs, "md5", dry_run=True)
                for i, n in enumerate(names):
                    A.put(os.path.join(ws, n), b"DATA-%d" % i)          # all rows are now out of date
                victim = os.path.join(ws, names[pos])
                o_hash = bmod.hash_file
                if kind == "dangling":
                    os.unlink(victim)
                    os.symlink(os.path.join(root, "nowhere"), victim)

                def p_hash(path_, *a, _o=o_hash, _v=victim, _k=kind, **kw):
                    if path_ == _v and _k == "EIO":
                        raise OSError(errno.EIO, "injected read error")
                    if path_ == _v and _k == "vanished":
                        os.unlink(path_)
                    return _o(path_, *a, **kw)

                bmod.hash_file = p_hash
                try:
                    bmod.build(odb, ws, A.fs, "md5", dry_run=True)
                    A.dim("fault:staging-survived")
                except Exception as exc:  # noqa: BLE001
                    A.dim("fault:staging-raised:" + type(exc).__name__)
                finally:
                    bmod.hash_file = o_hash
                A.judge("faults", st, [os.path.join(ws, n) for n in names], f"after a {kind} fault at position {pos}", case)
                A.dim(f"fault:{kind}@{pos}")
            finally:
                st.close()


def s_state_flag(A):
    """state absent / noop / real / shared between two stores"""
    from dvc_data.hashfile.build import build
    from dvc_data.hashfile.hash import hash_file
    from dvc_data.hashfile.state import StateNoop
    from lib import impl

    root, st = A.new("stflag")
    try:
        case = {"audit": "state-flag"}
        ws = os.path.join(root, "ws")
        A.put(os.path.join(ws, "f"), b"v1")
        p = os.path.join(ws, "f")
        odbs = {"absent": impl.local_odb(os.path.join(root, "c0")), "noop": impl.local_odb(os.path.join(root, "c1"), state=StateNoop()),
                "real": impl.local_odb(os.path.join(root, "c2"), state=st), "shared": impl.base_odb(os.path.join(root, "c3"), state=st)}
        for v in (b"v1", b"v2", b"v3"):
            A.put(p, v)
            for name, odb in odbs.items():
                _, _, obj = build(odb, ws, A.fs, "md5", dry_run=(name != "shared"))
                A.judge_tree("state-flag", obj, ws, f"state {name}, content {v!r}", case)
                A.dim("flag:state=" + name)
            for s in (None, StateNoop(), st):
                _, hi = hash_file(p, A.fs, "md5", state=s)
                if hi.value != md5(v):
                    A.fail("state-flag", f"hash_file(state={type(s).__name__}) answered {hi.value} for {v!r}", case)
        A.judge("state-flag", st, [p], "end", case)
    finally:
        st.close()


def s_index_update_partial_old(A):
    """index.update carries hashes over from a PREVIOUS index whose metas are partial: one persisted with
    DataIndex.open/commit/close and reopened (Meta.to_dict keeps neither inode nor mtime), one rebuilt through
    to_dict/from_dict, and the in-memory one.  Files are then rewritten in place / atomically replaced with bytes of
    exactly the SAME size (and one with another size, one untouched): every hash the new index carries must be the md5
    of the file's current bytes."""
    from dvc_data.hashfile.meta import Meta
    from dvc_data.index import DataIndex, DataIndexEntry
    from dvc_data.index.build import build
    from dvc_data.index.checkout import compare  # noqa: F401
    from dvc_data.index.update import update

    root, st = A.new("iupd")
    try:
        case = {"audit": "index-update-partial-old"}
        ws = os.path.join(root, "ws")
        before = {"same": b"stays put", "inplace": b"AAAA-1111", "dir/replaced": b"BBBB-2222", "resized": b"short",
                  "dir/sub/deep": b"CCCC-3333"}
        for k, v in before.items():
            A.put(os.path.join(ws, *k.split("/")), v)
        old_mem = build(ws, A.fs)
        from dvc_data.index.save import md5 as index_md5

        old_mem = index_md5(old_mem, state=st)
        olds = {"in-memory": old_mem}
        dbp = os.path.join(root, "old.db")
        disk = DataIndex.open(dbp)
        for k, e in old_mem.iteritems():
            disk[k] = e
        disk.commit()
        disk.close()
        olds["reopened-sqlite"] = DataIndex.open(dbp)
        rt = DataIndex()
        for k, e in old_mem.iteritems():
            rt[k] = DataIndexEntry.from_dict(e.to_dict())
            rt[k].key = k
        olds["dict-round-trip"] = rt
        stripped = DataIndex()
        for k, e in old_mem.iteritems():
            m = e.meta
            stripped[k] = DataIndexEntry(key=k, meta=None if m is None else Meta(isdir=m.isdir, size=m.size, isexec=m.isexec),
                                         hash_info=e.hash_info)
        olds["size-only-metas"] = stripped
        A.put(os.path.join(ws, "inplace"), b"XXXX-9999", how="write")
        A.put(os.path.join(ws, "dir", "replaced"), b"YYYY-8888", how="replace")
        A.put(os.path.join(ws, "resized"), b"much longer now")
        # (dir/sub/deep and same stay untouched; a rewrite with the mtime restored is outside the Ticks hypothesis)
        for oname, old in olds.items():
            new = build(ws, A.fs)
            update(new, old)
            carried = 0
            for k, e in new.iteritems():
                if e.meta is not None and e.meta.isdir:
                    continue
                if e.hash_info:
                    carried += 1
                    with open(os.path.join(ws, *k), "rb") as f:
                        cur = f.read()
                    if e.hash_info.name != "md5" or e.hash_info.value != md5(cur):
                        A.fail("index-update-partial-old",
                               f"previous index {oname}: update carried {e.hash_info.name}:{e.hash_info.value} over to "
                               f"{'/'.join(k)!r}, whose bytes {cur!r} hash to {md5(cur)}", case,
                               sig="C13:stale:index-update:partial-previous-metas")
            A.dim("pre-state:index.update previous index " + oname)
            A.dim("index.update carried hashes", carried)
        try:
            olds["reopened-sqlite"].close()
        except Exception:  # noqa: BLE001, S110
            pass
    finally:
        st.close()


def run_audit(ctx):
    A = Audit(ctx)
    scenarios = [
        ("names", lambda: s_names(A)),
        ("shapes", lambda: s_shapes(A)),
        ("boundary", lambda: s_boundary(A, (999, 1000) if ctx.tier == "quick" else (998, 999, 1000, 1001, 1998, 2001))),
        ("token-subsets", lambda: s_token_subsets(A)),
        ("mtime-resolution", lambda: s_mtime_resolution(A)),
        ("symlinked-parent", lambda: s_symlinked_parent(A)),
        ("hardlink", lambda: s_hardlink(A)),
        ("inode-reuse", lambda: s_inode_reuse(A)),
        ("algorithm-pairs", lambda: s_alg_pairs(A)),
        ("odb-rows", lambda: s_odb_rows(A)),
        ("odb-leftover", lambda: s_odb_leftover(A)),
        ("object-checkout", lambda: s_object_checkout(A)),
        ("migrate", lambda: s_migrate(A)),
        ("legacy-store", lambda: s_legacy_store(A)),
        ("remove-fault", lambda: s_remove_fault(A)),
        ("faults", lambda: s_faults(A)),
        ("state-flag", lambda: s_state_flag(A)),
        ("index-update-partial-old", lambda: s_index_update_partial_old(A)),
    ]
    for name, fn in scenarios:
        n0 = len(A.problems)
        try:
            fn()
        except Exception as exc:  # noqa: BLE001
            import traceback

            A.fail(name, f"the audit scenario raised {exc!r}: {traceback.format_exc()[-600:]}", {"audit": name},
                   sig=f"C13:route-raised:audit:{name}:{type(exc).__name__}")
        case = {"audit": name}
        ctx.case(case, True)
        ctx.count("audit:scenario:" + name)
        if len(A.problems) > n0:
            ctx.count("audit:failed:" + name)
    seen = set()
    for sig, what, case in A.problems:
        if sig not in seen:
            seen.add(sig)
            ctx.oracle_fail(sig, what, case)
    unknown = [p for p in A.problems if not (p[0] in ctx.known and ctx.known[p[0]].get("status") == "known")]
    ctx.obligation("oracle:audit-routes", not unknown,
                   f"{len(scenarios)} fixed scenarios over every writer / reader route of the hash-state cache "
                   f"({sum(A.dims.values())} dimension hits, {len(A.problems)} answers differing from hashlib)")
    return A


_ = json
