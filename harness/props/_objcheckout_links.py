"""C05, second half: histories record / modify / replace / remove / clean-up on tracked links
(State.save_link, get_unused_links, remove_links) against Model/ObjCheckout.v (lrun)."""

from __future__ import annotations

import os
import shutil

from lib import impl
from lib.core import cN, clist, cbytes, vB, vL

from props._objcheckout_common import IMPORTS

CAND = ["f1", "f2", "d1", "d1/x", "d1/sub/z", "d2"]
FILES_OF = {"d1": ["d1/x", "d1/y", "d1/sub/z"], "d2": ["d2/q"]}


def gen_history(rng):
    ops = []
    n = rng.randint(3, 9)
    # start with something on disk and recorded
    for p in rng.sample(["f1", "f2", "d1", "d2"], rng.randint(1, 3)):
        ops.append(["write", p])
        if rng.random() < 0.85:
            ops.append(["record", p])
    for _ in range(n):
        r = rng.random()
        p = rng.choice(CAND)
        if r < 0.2:
            ops.append(["record", p])
        elif r < 0.35:
            ops.append(["write", p])
        elif r < 0.5:
            ops.append(["touch", p])
        elif r < 0.62:
            ops.append(["replace", p, rng.random() < 0.5])
        elif r < 0.7:
            ops.append(["remove", p])
        else:
            ops.append(["cleanup", rng.sample(CAND, rng.randint(0, 3))])
    if ops[-1][0] != "cleanup":
        ops.append(["cleanup", rng.sample(CAND, rng.randint(0, 2))])
    h = {"ops": ops}
    if rng.random() < 0.3:
        h["via_symlink"] = True
    return h


def _snap(root):
    """{rel: ('f', ino, mtime_ns) | ('d', ino)} for everything below root except the state directory"""
    out = {}
    for r, ds, fs in os.walk(root):
        if r == root and ".tmp" in ds:
            ds.remove(".tmp")
        for d in ds:
            p = os.path.join(r, d)
            out[os.path.relpath(p, root)] = ("d", os.stat(p).st_ino)
        for f in fs:
            p = os.path.join(r, f)
            st = os.stat(p)
            # the mtime at the resolution the code can see: st_mtime is a float (about 0.24 us at these dates)
            out[os.path.relpath(p, root)] = ("f", st.st_ino, st.st_mtime)
    return out


def _token(snap, rel):
    """independent (inode, token) of a path: a directory's token covers every file's path and mtime"""
    e = snap.get(rel)
    if e is None:
        return None
    if e[0] == "f":
        return (e[1], ("f", e[2]))
    under = sorted((q, v[2]) for q, v in snap.items() if v[0] == "f" and q.startswith(rel + "/"))
    return (e[1], ("d", tuple(under)))


def key_term(rel):
    return clist([cbytes(x) for x in rel.split("/")])


def run_history(ctx, hist):
    from dvc_objects.fs.local import localfs

    from dvc_data.hashfile.state import State

    base = ctx.fresh("links")
    if hist.get("via_symlink"):
        # root_dir (and with it every recorded path and every path in `used`) is reached through a symbolic
        # link to the real directory; the caller uses the same unresolved paths throughout
        os.makedirs(os.path.join(base, "real"))
        root = os.path.join(base, "lnk")
        os.symlink(os.path.join(base, "real"), root)
    else:
        root = base
    tmp = os.path.join(root, ".tmp")
    os.makedirs(tmp)
    state = State(root_dir=root, tmp_dir=tmp)
    # explicit clock in ns: mostly sub-second steps (0.25 s inside the same second, 1 us, 0.5 s), sometimes
    # whole seconds - an in-place rewrite right after recording falls into the recorded second
    clock = [1_500_000_000 * 10**9 + 100_000_000]
    steps = [250_000_000, 1_000, 3_000_000_000, 500_000_000, 7_000, 250_000_000, 1_000_000_000]
    nstep = [0]
    counter = [0]
    ino_id: dict = {}
    mt_id: dict = {}

    def stamp(p):
        clock[0] += steps[nstep[0] % len(steps)]
        nstep[0] += 1
        os.utime(p, ns=(clock[0], clock[0]))

    redeltas = [250_000_000, 1_000, 400_000_000, 2_000_000_000, 5_000]
    nre = [0]

    def restamp(p, old):
        """new mtime relative to the file's previous one: mostly inside the same wall-clock second"""
        d = redeltas[nre[0] % len(redeltas)]
        nre[0] += 1
        if d < 10**9 and (old % 10**9) + d >= 10**9:
            d = 1_000
        os.utime(p, ns=(old + d, old + d))

    def write_file(p):
        os.makedirs(os.path.dirname(p), exist_ok=True)
        counter[0] += 1
        with open(p, "wb") as f:
            f.write(b"data %d" % counter[0])
        stamp(p)

    def ident(d, v):
        if v not in d:
            d[v] = len(d) + 1
        return d[v]

    model_ops = []
    problems = []
    removed_lists = []
    recorded = {}      # rel -> independent (inode, token) at record time
    prev = _snap(root)

    def emit_fs_changes():
        nonlocal prev
        cur = _snap(root)
        for rel in sorted(prev):
            if rel not in cur and not any(rel.startswith(q + "/") and q not in cur for q in prev):
                model_ops.append(f"(OpRemove {key_term(rel)})")
        for rel in sorted(cur):          # parents before children
            if prev.get(rel) != cur[rel]:
                e = cur[rel]
                if e[0] == "d":
                    model_ops.append(f"(OpWrite {key_term(rel)} (LDir {cN(ident(ino_id, e[1]))}))")
                else:
                    model_ops.append(f"(OpWrite {key_term(rel)} (LFile {cN(ident(ino_id, e[1]))} {cN(ident(mt_id, e[2]))}))")
        prev = cur

    for op in hist["ops"]:
        kind, rel = op[0], op[1]
        p = os.path.join(root, *rel.split("/")) if isinstance(rel, str) else None
        if kind == "write":
            if rel in FILES_OF:
                if os.path.isfile(p):
                    os.unlink(p)
                for q in FILES_OF[rel]:
                    write_file(os.path.join(root, *q.split("/")))
            else:
                if os.path.isdir(p):
                    shutil.rmtree(p)
                write_file(p)
            emit_fs_changes()
        elif kind == "touch":                      # in-place rewrite (same inode), new mtime
            tgt = None
            if os.path.isfile(p):
                tgt = p
            elif os.path.isdir(p):
                fs_ = [q for q in FILES_OF.get(rel, []) if os.path.isfile(os.path.join(root, q))]
                if fs_:
                    tgt = os.path.join(root, fs_[0])
            if tgt:
                counter[0] += 1
                old_ns = os.stat(tgt).st_mtime_ns
                with open(tgt, "r+b") as f:
                    f.write(b"edit %d" % counter[0])
                restamp(tgt, old_ns)
            emit_fs_changes()
        elif kind == "replace":
            keep = op[2]
            if os.path.isfile(p):
                old_ns = os.stat(p).st_mtime_ns
                t = p + ".new"
                with open(t, "wb") as f:
                    f.write(b"replaced")
                if keep:
                    os.utime(t, ns=(old_ns, old_ns))
                else:
                    stamp(t)
                os.replace(t, p)           # a new inode while the old one still existed
            elif os.path.isdir(p):
                t = p + ".new"
                os.makedirs(t)
                for q in os.listdir(p):
                    os.rename(os.path.join(p, q), os.path.join(t, q))   # same files, new directory inode
                os.rmdir(p)
                os.rename(t, p)
            emit_fs_changes()
        elif kind == "remove":
            if os.path.isdir(p):
                shutil.rmtree(p)
            elif os.path.lexists(p):
                os.unlink(p)
            emit_fs_changes()
        elif kind == "record":
            state.save_link(p, localfs)
            model_ops.append(f"(OpRecord {key_term(rel)})")
            snap = _snap(root)
            if rel in snap:
                recorded[rel] = _token(snap, rel)
        elif kind == "cleanup":
            used_rel = op[1]
            used = [os.path.join(root, *u.split("/")) for u in used_rel]
            before = _snap(root)
            unused = list(state.get_unused_links(used, localfs))
            state.remove_links(unused, localfs)
            after = _snap(root)
            model_ops.append("(OpCleanup %s)" % clist([key_term(u) for u in used_rel]))
            removed_lists.append(sorted(unused))
            # ---- oracle (independent bookkeeping)
            for u in unused:
                if u not in recorded:
                    problems.append(("C05:links:removed-unrecorded", f"clean-up removed '{u}' which was never recorded"))
                elif u in used_rel:
                    problems.append(("C05:links:removed-used", f"clean-up removed '{u}' although the caller lists it as used"))
                elif _token(before, u) != recorded[u]:
                    problems.append(("C05:links:removed-modified", f"clean-up removed '{u}' although it was modified since it was recorded"))
            gone = {q for q in before if q not in after}
            expect_gone = {q for q in before if any(q == u or q.startswith(u + "/") for u in unused)}
            if gone != expect_gone:
                problems.append(("C05:links:removed-other-paths",
                                 f"remove_links deleted {sorted(gone)} for the list {sorted(unused)}"))
            if any(before[q] != after[q] for q in after if q in before and before[q][0] == "f"):
                problems.append(("C05:links:altered-survivor", "remove_links altered a surviving file"))
            for u in unused:
                recorded.pop(u, None)
            prev = after
    final = _snap(root)
    with state.links as ref:
        tab = sorted(ref)
    state.close()
    order = lambda s: [ord(c) for c in s]  # noqa: E731
    exp = vL([vL([vB(q) for q in sorted(final, key=order)]),
              vL([vB(q) for q in sorted(tab, key=order)]),
              vL([vL([vB(q) for q in sorted(set(u), key=order)]) for u in removed_lists])])
    impl.rm_rf(base)
    nontrivial = any(removed_lists) and len(final) > 0
    return clist(model_ops), exp, problems, nontrivial, removed_lists


def run_links(ctx, n):
    items = []
    corpus = [
        # root_dir reached through a symlinked directory; the used links are listed by the same unresolved paths
        {"via_symlink": True, "ops": [["write", "f1"], ["record", "f1"], ["write", "d1"], ["record", "d1"], ["write", "f2"],
                                      ["record", "f2"], ["cleanup", ["f1", "d1"]], ["cleanup", ["d1"]]]},
        # a file inside a recorded directory link is rewritten in place within the recorded second
        {"ops": [["write", "d1"], ["record", "d1"], ["touch", "d1/x"], ["cleanup", []]]},
        {"ops": [["write", "d2"], ["record", "d2"], ["touch", "d2"], ["cleanup", ["f1"]]]},
        {"ops": [["write", "f1"], ["record", "f1"], ["write", "d1"], ["record", "d1"], ["touch", "d1"],
                 ["cleanup", []]]},
        {"ops": [["write", "f1"], ["record", "f1"], ["replace", "f1", True], ["write", "f2"], ["record", "f2"],
                 ["cleanup", ["f2"]], ["cleanup", []]]},
        {"ops": [["write", "d1"], ["record", "d1"], ["record", "d1/x"], ["cleanup", ["d1/x"]]]},
    ]
    for i in range(n + len(corpus)):
        hist = corpus[i] if i < len(corpus) else gen_history(ctx.rng)
        term, exp, problems, nontrivial, removed = run_history(ctx, hist)
        ctx.case(hist, nontrivial)
        dd = ctx.extra.setdefault("input_dimensions", {})
        for d in (["links:history"] + (["links:root_dir-through-symlink"] if hist.get("via_symlink") else [])):
            dd[d] = dd.get(d, 0) + 1
        ctx.count("links:cleanups", sum(1 for o in hist["ops"] if o[0] == "cleanup"))
        ctx.count("links:removed-paths", sum(len(u) for u in removed))
        for sig, what in problems:
            ctx.oracle_fail(sig, what, hist)
        items.append((hist, term, exp))
    ctx.obligation("oracle:links-cleanup", not any(v.kind == "oracle" and v.signature.startswith("C05:links") for v in ctx.violations),
                   f"{len(items)} link histories judged (recorded, not used, unmodified; exactly the list removed)")
    ctx.correspond("links", IMPORTS, "list lop", "fun ops => enc_lstate (lrun ops)", items)


def replay(ctx, hist):
    term, exp, problems, nontrivial, removed = run_history(ctx, hist)
    return {"removed": removed, "problems": problems, "violates": bool(problems)}


# ------------------------------------------------------------------------------------------------
# checkout + clean-up histories (oracle only): (1) a checkout records the link, (2) the user edits a
# checked-out file (uncached bytes), (3) an unforced checkout of another object is refused, (4) clean-up
# with the path not listed as used.  The path was modified since it was recorded - the only completed
# checkout is (1) - so clean-up must not list it and the user's bytes must survive.


def gen_refused_cases():
    out = []
    for kind in ("file", "dir"):
        for cls in ("local", "base"):
            for ty in ("copy", "hardlink", "symlink"):
                for relink in (False, True):
                    for pm in ("none", "no"):
                        out.append({"refused_cleanup": True, "kind": kind, "cls": cls, "types": [ty], "relink": relink, "prompt": pm})
    return out


def run_refused_cleanup(ctx, case):
    import hashlib

    import dvc_data.hashfile.checkout as co
    from dvc_objects.fs.local import localfs

    from dvc_data.hashfile.hash_info import HashInfo
    from dvc_data.hashfile.meta import Meta
    from dvc_data.hashfile.state import State
    from dvc_data.hashfile.tree import Tree

    md5 = lambda b: hashlib.md5(b).hexdigest()  # noqa: E731, S324
    root = ctx.fresh("refused")
    cache, wsd, tmp = os.path.join(root, "cache"), os.path.join(root, "ws"), os.path.join(root, "tmp")
    for d in (cache, wsd, tmp):
        os.makedirs(d)
    A, B, USER = b"version one\n", b"version two, longer\n", b"the user's edit - exists nowhere else\n"
    t = 1_600_000_000
    for b in (A, B):
        p = impl.plant(cache, md5(b), b)
        t += 5
        os.utime(p, ns=(t * 10**9, t * 10**9))
    state = State(root_dir=root, tmp_dir=tmp)
    odb = impl.make_odb(case["cls"], cache, type=list(case["types"]), state=state)

    def tree(d):
        tr = Tree()
        for rel, b in sorted(d.items()):
            tr.add(tuple(rel.split("/")), Meta(size=len(b)), HashInfo("md5", md5(b)))
        tr.digest()
        return tr

    if case["kind"] == "file":
        path = os.path.join(wsd, "data.bin")
        obj1, obj2 = odb.get(md5(A)), odb.get(md5(B))
        edited = path
    else:
        path = os.path.join(wsd, "data")
        obj1, obj2 = tree({"a": A, "sub/c": A, "keep": B}), tree({"a": B, "sub/c": B, "keep": B})
        edited = os.path.join(path, "sub", "c")
    rel = os.path.relpath(path, root)
    problems = []
    # (1) the checkout that records the link
    co.checkout(path, localfs, obj1, odb, force=True, relink=False, state=state, quiet=True)
    with state.links as ref:
        recorded = rel in ref
    # (2) the user edits a checked-out file: never through a link into the cache
    if os.path.islink(edited) or os.stat(edited).st_nlink > 1:
        os.unlink(edited)
    with open(edited, "wb") as f:
        f.write(USER)
    t += 100
    os.utime(edited, ns=(t * 10**9 + 250_000_000, t * 10**9 + 250_000_000))
    # (3) the refused checkout
    try:
        co.checkout(path, localfs, obj2, odb, force=False, relink=case["relink"], state=state, quiet=True,
                    prompt=None if case["prompt"] == "none" else (lambda msg: False))
        out3 = "returned"
    except co.PromptError:
        out3 = "PromptError"
    except Exception as exc:  # noqa: BLE001
        out3 = type(exc).__name__
    if out3 != "PromptError":
        problems.append(("C05:unexpected-outcome:" + out3, f"an unforced checkout over an edited, uncached file {out3} instead of refusing"))
    # (4) clean-up, the path not listed as used
    unused = list(state.get_unused_links([], localfs))
    state.remove_links(unused, localfs)
    state.close()
    if rel in unused:
        problems.append(("C05:links:removed-modified",
                         f"clean-up listed '{rel}' as unused although a file in it was modified after the only completed "
                         f"checkout recorded it (a refused checkout in between); link recorded by step 1: {recorded}"))
    try:
        with open(edited, "rb") as f:
            left = f.read()
    except FileNotFoundError:
        left = None
    if left != USER:
        problems.append(("C05:links:removed-modified" if rel in unused else "C05:unrecoverable-lost",
                         f"the user's edit of '{os.path.relpath(edited, root)}' is gone after refused checkout + clean-up (now {left!r})"))
    impl.rm_rf(root)
    return problems, recorded, unused


def run_refused(ctx, n):
    cases = gen_refused_cases()
    fixed = [c for c in cases if (c["kind"], c["cls"], c["types"][0], c["relink"], c["prompt"]) in (
        ("file", "local", "copy", False, "none"), ("dir", "base", "copy", True, "no"),
        ("file", "base", "symlink", True, "none"), ("dir", "local", "hardlink", False, "none"))]
    rest = [c for c in cases if c not in fixed]
    chosen = fixed + (rest if n >= len(rest) else ctx.rng.sample(rest, n))
    for case in chosen:
        problems, recorded, unused = run_refused_cleanup(ctx, case)
        ctx.case(case, recorded)
        dd = ctx.extra.setdefault("input_dimensions", {})
        dd["history:refused-checkout-then-cleanup"] = dd.get("history:refused-checkout-then-cleanup", 0) + 1
        ctx.count("refused-cleanup:" + case["kind"])
        for sig, what in problems:
            ctx.oracle_fail(sig, what, case)
    ctx.obligation("oracle:refused-checkout-then-cleanup",
                   not any(v.kind == "oracle" and v.case is not None and isinstance(v.case, dict) and v.case.get("refused_cleanup") for v in ctx.violations),
                   f"{len(chosen)} histories checkout / user edit / refused checkout / clean-up judged by the oracle only (the edit survives)")
