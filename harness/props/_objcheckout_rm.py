"""C05, falsy targets ("remove this output"): checkout(path, fs, None, ...) and the EMPTY Tree.  Every key of the
old tree is a DELETE, ROOT included; ROOT's in_cache flag is the cache lookup of the old tree's .dir object and its
removal is recursive.  Judged by the lost-bytes oracle (signature C05:unrecoverable-lost:root-deleted-before-children:
the defect repaired by /repo 38c4abf) and fed through the model (Model/ObjCheckout.v checkout_rm; the deletion order
is observed and passed with the root last, which is what the repaired loop does)."""

from __future__ import annotations

import os

from lib import impl
from lib.core import cbool, clist, cbytes, vL

from props import _objcheckout_common as C

NAME_SETS = [["a", "sub/b"], ["x", "y/z", "y/w"], ["data.csv", "img/1.png", "img/2.png"], ["k", "m/n", "m/o/p"],
             ["top", "n1/n2/n3"], ["u"], ["b.txt", "e", "sub/c", "sub/deep/d"]]


def gen_rm_case(rng):
    names = rng.choice(NAME_SETS)
    prior = {}
    for n in names:
        r = rng.random()
        prior[n] = [rng.choice(["U", "V", "W"]) if r < 0.45 else rng.choice(["A", "B", "C"]), "copy"]
    if all(v[0] in ("A", "B", "C") for v in prior.values()) and rng.random() < 0.7:
        prior[rng.choice(names)] = ["U", "copy"]
    return {"falsy": rng.choice(["none", "empty"]), "cls": rng.choice(["local", "base"]), "types": [rng.choice(C.KINDS)],
            "state": rng.random() < 0.4, "relink": False, "force": rng.random() < 0.08,
            "prompt": rng.choice(["none", "none", "no", "yes"]), "prior": prior, "target": {}, "cache": ["A", "B", "C"],
            "old_dir_cached": rng.random() < 0.75, "evict": rng.random() < 0.3}


CORPUS = [
    {"falsy": f, "cls": cls, "types": ["copy"], "state": False, "relink": False, "force": False, "prompt": pm,
     "prior": prior, "target": {}, "cache": ["A", "B"], "old_dir_cached": True, "evict": ev}
    for f in ("none", "empty") for cls in ("local", "base") for pm in ("none", "no")
    for prior, ev in (({"a": ["A", "copy"], "sub/b": ["B", "copy"]}, True),          # the object of sub/b evicted
                      ({"a": ["A", "copy"], "sub/b": ["U", "copy"]}, False),         # a nested uncached user file
                      ({"a": ["U", "copy"], "sub/b": ["B", "copy"]}, False))         # a top-level uncached user file
]


def run_rm_case(ctx, case):
    import dvc_data.hashfile.checkout as co
    from dvc_objects.fs.local import localfs

    from dvc_data.hashfile.build import build
    from dvc_data.hashfile.state import State
    from dvc_data.hashfile.tree import Tree

    case = dict(case, contents=dict(C.CONTENT_POOL), second="plain")
    root, cache, ws, tmp, contents = C.setup(ctx, case)
    links = C.tested_links(case["types"], cache, ws)
    state = State(root_dir=root, tmp_dir=tmp) if case["state"] else None
    cfg = {"type": list(case["types"])}
    if state is not None:
        cfg["state"] = state
    odb = impl.make_odb(case["cls"], cache, **cfg)
    if case["old_dir_cached"] and os.path.isdir(ws):
        t = build(odb, ws, localfs, "md5", dry_run=True)[2]
        impl.plant(cache, t.hash_info.value, t.as_bytes())
    if case.get("evict"):
        # the object of the LAST path (sorted) is evicted from the cache: its bytes now live in the workspace only
        rel = sorted(case["prior"])[-1]
        op = C.obj_path(cache, C.md5hex(contents[case["prior"][rel][0]]))
        if os.path.exists(op):
            os.chmod(op, 0o644)
            os.unlink(op)
    ws0, c0 = C.snap_ws(ws), C.snap_cache(cache)
    enc = C.Enc(cache, c0, ws0)
    if case["falsy"] == "none":
        obj = None
    else:
        obj = Tree()
        obj.digest()
    seen = {"deleted": [], "ric": False}
    real_odiff = co.odiff

    def odiff_obs(old, new, cache_):
        d = real_odiff(old, new, cache_)
        for ch in d.deleted:
            seen["deleted"].append(ch.old.key)
            if ch.old.key == ("",):
                seen["ric"] = bool(ch.old.in_cache)
        return d

    asked = []
    mode = case["prompt"]

    def prompt(msg):
        p = msg.split("'")[1]
        ans = mode == "yes"
        asked.append((os.path.relpath(p, ws).replace(os.sep, "/"), ans))
        return ans

    def rel_of(p):
        return "" if os.path.abspath(p) == os.path.abspath(ws) else os.path.relpath(p, ws).replace(os.sep, "/")

    co.odiff = odiff_obs
    try:
        try:
            r = co.checkout(ws, localfs, obj, odb, force=case["force"], relink=False, state=state,
                            prompt=None if mode == "none" else prompt, quiet=True)
            out = ("none",) if r is None else ("ret", bool(r))
        except co.PromptError as exc:
            out = ("prompt", rel_of(exc.path))
        except co.CheckoutError as exc:
            out = ("failed", sorted(rel_of(p) for p in exc.paths))
        except co.LinkError:
            out = ("link",)
        except FileNotFoundError as exc:
            out = ("notfound", rel_of(exc.filename or ws))
        except Exception as exc:  # noqa: BLE001
            out = ("exc", type(exc).__name__ + ": " + str(exc)[:160])
    finally:
        co.odiff = real_odiff
    ws1, c1 = C.snap_ws(ws), C.snap_cache(cache)
    if state is not None:
        state.close()
    # ---- oracle: every byte string lost from the workspace is in the cache, or confirmed, or forced
    problems = []
    if not case["force"]:
        yes = {rel for rel, ans in asked if ans}
        for rel, e in ws0.items():
            if e["bytes"] is None or (rel in ws1 and ws1[rel]["bytes"] == e["bytes"]):
                continue
            o = C.md5hex(e["bytes"])
            if o in c0 and c0[o]["bytes"] == e["bytes"]:
                continue
            if rel in yes or "" in yes:
                continue
            problems.append(("C05:unrecoverable-lost:root-deleted-before-children",
                             f"target {case['falsy']}: '{rel}' held {e['bytes'][:30]!r} (in no cache object); the unforced checkout "
                             f"({out}) removed it without an affirmative prompt (the directory entry was removed with what was below it)"))
    if out[0] == "exc":
        problems.append(("C05:unexpected-exception:" + out[1].split(":")[0], f"checkout raised {out[1]}"))
    # ---- model: the repaired loop handles the root entry last
    ds = [k for k in seen["deleted"] if k != ("",)]
    dterm = clist(["(DKey %s)" % clist([cbytes(x) for x in k]) for k in ds] + (["DRoot"] if ("",) in seen["deleted"] else []))
    mcase = dict(case, state=case["state"])
    if mode == "yes":
        mcase["prompt"] = sorted(ws0) + [""]              # the prompt also confirms the root entry (key ROOT = ("",))
    inp = "(%s, %s, %s)" % (C.input_term(mcase, enc, links, False, c0, ws0, contents, []), cbool(seen["ric"]), dterm)
    exp = vL([C.outcome_val(out), enc.ws_val(ws1), vL([]), enc.cache_val(c1)])
    dd = ctx.extra.setdefault("input_dimensions", {})
    for d in ("target:falsy-" + case["falsy"], "ws:old-.dir-object-%s" % ("cached" if seen["ric"] else "not-cached")):
        dd[d] = dd.get(d, 0) + 1
    impl.rm_rf(root)
    return problems, out, ({"case": case}, inp, exp), ws1 != ws0 or out[0] == "prompt"


def run_rm(ctx, n):
    items = []
    cases = list(CORPUS) + [gen_rm_case(ctx.rng) for _ in range(n)]
    std_items = []
    for case in cases:
        if case["falsy"] == "empty":
            # an EMPTY Tree is truthy for checkout(): the root entry stays, every file is an ordinary deletion -
            # the directory model covers it (target = no files); "evicted" = a prior content that is not in the cache
            sc = dict(case, stream="falsy-empty", second="plain", contents=dict(C.CONTENT_POOL))
            if sc.get("evict"):
                rel = sorted(sc["prior"])[-1]
                sc["cache"] = [c for c in sc["cache"] if c != sc["prior"][rel][0]]
            r = C.run_case(ctx, sc)
            ctx.case(sc, r["nontrivial"])
            ctx.count("falsy-target:empty-tree:" + r["outs"][0][0])
            for sig, what in r["c05"]:
                ctx.oracle_fail(sig, what, sc)
            std_items.extend(r["items"])
            dd = ctx.extra.setdefault("input_dimensions", {})
            dd["target:the-empty-directory"] = dd.get("target:the-empty-directory", 0) + 1
            continue
        problems, out, item, nontrivial = run_rm_case(ctx, case)
        ctx.case(case, nontrivial)
        ctx.count("falsy-target:" + out[0])
        for sig, what in problems:
            ctx.oracle_fail(sig, what, case)
        items.append(item)
    ctx.correspond("checkout_empty_directory_target", C.IMPORTS, "co_in", "fun i => enc_result (run_in i)", std_items, shard=60)
    ctx.obligation("oracle:falsy-target-no-loss",
                   not any(v.kind == "oracle" and v.signature.startswith("C05:unrecoverable-lost:root-deleted") for v in ctx.violations),
                   f"{len(cases)} checkouts with a falsy target (None / the empty directory) judged by the lost-bytes oracle")
    ctx.correspond("checkout_falsy_target", C.IMPORTS, "co_in * bool * list dkey", "fun x => enc_result (run_in_rm x)", items, shard=60)


def replay(ctx, case):
    problems, out, _, _ = run_rm_case(ctx, case)
    return {"outcome": out, "problems": problems, "violates": bool(problems)}
