"""C16 - concurrent writers cannot corrupt a shared store or state database.

Tie to the source = trace validation (DESIGN 4.3): N writer threads stage + transfer overlapping
trees into ONE object store (LocalHashFileDB and HashFileDB) sharing ONE State database, under a
COOPERATIVE SCHEDULER implemented with sys.addaudithook in this process (no /repo edits): every
writer blocks at each file-system mutation under the store root (open for write, os.rename,
os.chmod, os.mkdir, os.remove, ...) until the seeded schedule grants it the turn.  Only those
events are scheduling points, a grant is given only when every live writer is parked at one (so
exactly one writer runs at a time and it never holds the turn while blocked on a lock), a grant
to a finished / not-waiting writer is skipped - progress never depends on a timeout.  SQLite
writes raise no audit event: HashesCache.set_many / .set are wrapped to log StateUpsert.

The recorded raw trace is abstracted (temp names -> writer-private serials, <root>/ab/cd.. -> id)
into the steps of coq/theories/Model/Concurrent.v; Coq (vm_compute) must accept it with
[valid_trace] and the store the model computes from the trace must equal the audited real store
(bytes + protection + ids having a state row + left-over temps).  The oracle audits each writer's
independently computed manifest.  A free-running stress (threads and separate processes) is
audited the same way.
"""

from __future__ import annotations

import hashlib
import json
import os
import re
import stat
import subprocess
import sys
import threading
import time

if __name__ != "__main__":
    from lib import impl
    from lib.core import cbytes

PROPERTY = "C16"
GEN: list = ["dbadd"]
RULE = (
    "a case = (store class, workloads of 2-4 writers [quick; up to 8 thorough] drawn from a small pool of shared "
    "contents incl. the empty file, duplicated contents inside one tree, nested paths, sometimes identical trees "
    "(same directory object), writers staging a directory WITHOUT files (empty / skeleton of empty sub-directories) "
    "and a pre-populated store, seeded schedule over the writers' file-system mutation "
    "events). Distinct = distinct GRANT SEQUENCE actually followed (hash of the sequence of writer ids over all "
    "mutation events) x workloads x class. Non-trivial = at least two writers interleaved (>= 2 context switches) "
    "and at least one id requested by two writers. Plus free-running stress rounds (threads; separate processes) "
    "audited against each writer's manifest."
)
ASSUMPTIONS = [
    "partial by nature: the interleaving is controlled at file-system-CALL granularity (audit events + harness-made "
    "points at thread start, status phase and each existence check); the kernel's atomicity of rename/open/unlink, "
    "the GIL and SQLite's own locking are the environment (set_many is checked to be issued as ONE transaction per "
    "add; its atomicity is SQLite's)",
    "environment behaviour of dvc_objects, modelled (ProbeOpen/ProbeUnlink) but not oracle-judged: the reflink attempt "
    "opens the FINAL name with O_CREAT|O_TRUNC and unlinks it; when the harness runs as root this transiently truncates "
    "and removes an object another writer already completed (and a state row can record the token of that empty "
    "file - harmless: its size differs from any non-empty complete object); only the final state is judged",
    "non-root users: the same open fails with EACCES on a protected object; fixed in /repo 5bda9b0 (transfer ignores a "
    "PermissionError for an id whose destination object is protected); exercised by the forked unprivileged child "
    "(skipped with a count when the harness itself is not root, since then every scenario is unprivileged)",
    "this file system has no reflink support (the probe always fails and is cleaned up), as on ext4",
    "tokens (ino, mtime, size) are abstracted to fresh identities and file contents to injective content ids in the "
    "model; real bytes are judged by the oracle (hash = name, bytes = manifest)",
    "collision-freeness of md5 on the contents in play (hypothesis [consistent] of the theorems)",
    "verify=True stream (VERIFY_STREAM, ON): writers calling transfer(verify=True) and stores configured verify=True "
    "(transfer() always passes verify explicitly, so the store setting only matters for direct add() calls); extra "
    "harness-made scheduling point before every check() of either class; those traces are SIMULATED by the extended "
    "machine (vrun: VerifyDrop = post-add check removes a mismatching file and reports the id failed) - outcome "
    "incl. the failed set compared in Coq - not covered by the legality-based soundness theorem",
    "re-staging stream: the staleness of the state cache proper is C13's model; here writers re-stage files rewritten "
    "in place (same size, same inode) with the modification time set explicitly to another fraction of the same "
    "whole second - no wall-clock dependence; only the manifest oracle judges it",
    "hardlink=True writers (with and without verify=True) are part of the scheduled stream; their traces contain "
    "os.link = step VLink of the extended machine and are SIMULATED (vrun), like the verify traces.  A 'source "
    "rewritten after staging' perturbation is applied only to ONE verify=True + hardlink=True writer that is "
    "scheduled to run to completion on a local store before the others: it may be refused (the rewritten ids and "
    "its directory object reported failed) and then promises nothing; the store must stay correctly named and "
    "the others must fully succeed.  (Observation, counted not judged: as root another writer's reflink attempt "
    "truncates the inode a hard-linked object shares with its SOURCE file in the workspace.)",
    "faulted trials (one injected EIO / EACCES on one writer's copy) are outside the quantifier (fault-free writers) "
    "and judged only by: no exception but the injected one escapes, the faulted writer reports the failure, every "
    "object PRESENT is complete and correctly named, no state row vouches for a wrong object.  Observation "
    "(evidence: observations): same root cause as the two known probe findings: dvc_objects' reflink probe "
    "truncates/unlinks the final name; if the prober's copy then fails nobody re-creates the object",
    "dimension corpus (tools/COVERAGE_AUDIT.md), every run: names, shapes, obj_name labels, hardlink x verify "
    "(per call / store default), shallow, check_exists, jobs, callback, State shared / per writer / none, routes "
    "build+transfer / single file / index.save / odb.add / prepare+migrate (and mixed), pre-existing right-unprotected "
    "/ corrupt-unprotected / empty leftover (local stores only: a base store takes any existing name for the "
    "object, that is C07/C15) / stale temps, one injected EIO / EACCES on one writer's copy (first / last / the "
    "directory object); not meaningful here and left to C01/C03/C07: other algorithm names, corrupt PROTECTED "
    "copies, symlinked parents, read-only stores",
    "translator unit dbadd (Gen/DbAdd.v, regenerated on every run) ties the add protocol of the model to "
    "HashFileDB.add: Proofs/ConcurrentTie.v",
    "hashing INSIDE one writer (build's thread pool for large files, imap_unordered) is C03's model (HashSched); "
    "here it is only exercised, not modelled: a share of the scheduled and free-running runs lowers the large-file "
    "threshold to 0 (patched from the harness as c03.py does), uses checksum_jobs in {None,2,4} and delays the read "
    "of selected files so the pool completes out of listing order; the manifest oracle judges the outcome",
]

# verify=True writers (transfer(..., verify=True) / stores configured verify=True).  ON: as root the post-add
# verification of one writer can read a file another writer's reflink probe has just truncated - a genuine
# violation of "all writers succeed" on the unmodified code (signature VERIFY_SIG); the lead decides.
VERIFY_STREAM = True
VERIFY_SIG = "C16:root:verify-sees-probe-truncated-object"

IMPORTS = "From Coq Require Import NArith List.\nFrom DvcData Require Import Model.Concurrent."

MUT = {
    "os.rename", "os.chmod", "os.remove", "os.mkdir", "os.rmdir", "os.link", "os.symlink",
    "os.truncate", "os.utime", "os.chown", "os.setxattr", "os.removexattr", "os.mkfifo", "os.mknod",
}
WRITE_FLAGS = os.O_WRONLY | os.O_RDWR | os.O_CREAT | os.O_TRUNC | os.O_APPEND


# ----------------------------------------------------------------------------------------------
# cooperative scheduler


class Abort(BaseException):
    pass


class Sched:
    """Deterministic cooperative scheduler.  Threads call at_event() from the audit hook."""

    def __init__(self, root: str, schedule, n: int):
        self.root = root
        self.prefix = root + os.sep
        self.cv = threading.Condition()
        self.schedule = list(schedule)
        self.pos = 0
        self.active = set(range(n))
        self.waiting: dict[int, tuple] = {}
        self.log: list[tuple] = []  # (tid, kind, ...) in execution order
        self.grants: list[int] = []
        self.on = True
        self.free = False  # free-running: record only
        self.abort = False
        self.progress = 0

    # --- called with cv held
    def _turn(self):
        """tid that may proceed now, or None"""
        if len(self.waiting) < len(self.active):
            return None  # somebody is still running (or has not reached its first event)
        if not self.waiting:
            return None
        while self.pos < len(self.schedule) and self.schedule[self.pos] not in self.waiting:
            self.pos += 1  # granted writer has finished / unknown id: skip the grant
        if self.pos < len(self.schedule):
            return self.schedule[self.pos]
        return min(self.waiting)  # schedule exhausted: lowest id first

    def at_event(self, tid, ev):
        if self.free:
            with self.cv:
                self.log.append((tid,) + ev)
            return
        with self.cv:
            self.waiting[tid] = ev
            self.cv.notify_all()
            while True:
                if self.abort:
                    self.waiting.pop(tid, None)
                    raise Abort()
                if self._turn() == tid:
                    break
                self.cv.wait()
            del self.waiting[tid]
            if self.pos < len(self.schedule):
                self.pos += 1
            self.grants.append(tid)
            self.log.append((tid,) + ev)
            self.progress += 1
            # the others see "not everybody is waiting" until this thread parks again or finishes

    def note(self, tid, ev):
        """a non-scheduling observation made by the running writer (state upsert, exists result)"""
        with self.cv:
            self.log.append((tid,) + ev)

    def finish(self, tid):
        with self.cv:
            self.active.discard(tid)
            self.waiting.pop(tid, None)
            self.cv.notify_all()


_S: Sched | None = None
_tl = threading.local()
_hook_installed = False
_patched = False


def _hook(ev, args):
    s = _S
    if s is None or not s.on:
        return
    if ev != "open" and ev not in MUT:
        return
    tid = getattr(_tl, "tid", None)
    if tid is None:
        return
    if ev == "open":
        p, mode, flags = args
        if not isinstance(p, str) or not isinstance(flags, int) or not (flags & WRITE_FLAGS):
            return
        if not p.startswith(s.prefix):
            return
        e = ("open", p[len(s.prefix):], "os" if mode is None else "py")
    else:
        a = [x for x in args[:2] if isinstance(x, str)]
        if not any(x.startswith(s.prefix) or x == s.root for x in a):
            return
        rel = tuple("" if x == s.root else (x[len(s.prefix):] if x.startswith(s.prefix) else
                                            ("<outside>" + x if ev == "os.link" else "<outside>")) for x in a)
        extra = ()
        if ev == "os.chmod":
            extra = (args[1],)
        e = (ev,) + rel + extra
    s.at_event(tid, e)


def _install():
    """audit hook + wrappers around the state database writes and the existence queries"""
    global _hook_installed, _patched
    if not _hook_installed:
        sys.addaudithook(_hook)
        _hook_installed = True
    if _patched:
        return
    _patched = True
    import diskcache
    from dvc_objects.db import ObjectDB

    from dvc_data.hashfile.cache import HashesCache
    from dvc_data.hashfile.db.local import LocalHashFileDB

    orig_set_many = HashesCache.set_many
    orig_set = diskcache.Cache.set

    # pool-hashing path of build(): lower the large-file threshold (as harness/props/c03.py does) instead of
    # writing megabytes, and delay the read of selected files so that the pool completes out of order
    import dvc_data.hashfile.build as bmod

    o_bf, o_hash = bmod._build_files, bmod.hash_file

    def p_build_files(root, file_infos, fs, name, **kw):
        cfg = _POOL.get("cfg")
        if cfg is not None:
            kw["large_file_threshold"] = cfg["threshold"]
        return o_bf(root, file_infos, fs, name, **kw)

    def p_hash_file(path, *a, **kw):
        cfg = _POOL.get("cfg")
        if cfg is not None:
            d = cfg["delays"].get(path)
            if d:
                time.sleep(d)
        return o_hash(path, *a, **kw)

    bmod._build_files = p_build_files
    bmod.hash_file = p_hash_file

    def _note_rows(keys, how):
        s = _S
        tid = getattr(_tl, "tid", None)
        if s is None or not s.on or tid is None:
            return
        ks = [k[len(s.prefix):] for k in keys if isinstance(k, str) and k.startswith(s.prefix)]
        if ks:
            s.note(tid, ("state", how, tuple(ks)))

    def set_many(self, items, retry=False):
        items = list(items)
        _note_rows([k for k, _ in items], "many")
        return orig_set_many(self, items, retry)

    def set_(self, key, value, *a, **kw):
        _note_rows([key], "one")
        return orig_set(self, key, value, *a, **kw)

    HashesCache.set_many = set_many
    HashesCache.set = set_

    def wrap_exists(orig):
        def oids_exist(self, oids, *a, **kw):
            s = _S
            tid = getattr(_tl, "tid", None)
            mine = s is not None and s.on and tid is not None and os.path.abspath(self.path) == s.root
            if mine:
                s.at_event(tid, ("sync", "status"))  # scheduling point: the status phase starts here
            res = list(orig(self, oids, *a, **kw))
            if mine:
                s.note(tid, ("exists", tuple(sorted(res))))
            return res
        return oids_exist

    LocalHashFileDB.oids_exist = wrap_exists(LocalHashFileDB.oids_exist)

    # ObjectDB.add(check_exists=True) (index.save, direct add, migrate) asks exists() per id
    orig_exists1 = ObjectDB.exists

    def exists1(self, oid):
        r = orig_exists1(self, oid)
        s = _S
        tid = getattr(_tl, "tid", None)
        if r and s is not None and s.on and tid is not None and type(self).__name__ in ("LocalHashFileDB", "HashFileDB") \
                and os.path.abspath(self.path) == s.root:
            s.note(tid, ("exists", (oid,)))
        return r

    ObjectDB.exists = exists1

    # fault injection: ONE writer's copy of ONE object fails (before anything is written)
    import errno as _errno

    from dvc_objects.fs.base import FileSystem as _FS
    from dvc_objects.fs.local import LocalFileSystem as _LFS

    def _maybe_fail(target):
        s = _S
        tid = getattr(_tl, "tid", None)
        if s is None or not s.on or tid is None:
            return
        f = _FAULT.get(tid)
        if not f or not isinstance(target, str) or not target.startswith(s.prefix):
            return
        c = classify(target[len(s.prefix):])
        name = c[1] if c[0] == "obj" else None
        if name is None and c[0] == "tmp":
            # the directory object arrives under a temp name in its fan-out directory
            name = f["oid"] if target[len(s.prefix):].split(os.sep)[0] == f["oid"][:2] and f["oid"].endswith(".dir") else None
        if name == f["oid"]:
            _FAULT_FIRED.add(tid)
            code = getattr(_errno, f.get("errno", "EIO"))
            raise OSError(code, os.strerror(code), target)

    orig_put = _LFS.put_file
    orig_get = _FS.get_file

    def put_file(self, lpath, rpath, *a, **kw):
        _maybe_fail(rpath)
        return orig_put(self, lpath, rpath, *a, **kw)

    def get_file(self, rpath, lpath, *a, **kw):
        _maybe_fail(lpath)
        return orig_get(self, rpath, lpath, *a, **kw)

    _LFS.put_file = put_file
    _FS.get_file = get_file
    orig_check = LocalHashFileDB.check

    def check(self, oid, *a, **kw):
        s = _S
        tid = getattr(_tl, "tid", None)
        if s is not None and s.on and tid is not None and os.path.abspath(self.path) == s.root:
            s.at_event(tid, ("sync", "check", oid))  # scheduling point before each existence check
        return orig_check(self, oid, *a, **kw)

    LocalHashFileDB.check = check

    from dvc_data.hashfile.db import HashFileDB

    orig_bcheck = HashFileDB.check

    def bcheck(self, oid, *a, **kw):
        s = _S
        tid = getattr(_tl, "tid", None)
        if (s is not None and s.on and tid is not None and type(self) is HashFileDB
                and os.path.abspath(self.path) == s.root):
            s.at_event(tid, ("sync", "check", oid))  # the base store's check (verify=True only)
        return orig_bcheck(self, oid, *a, **kw)

    HashFileDB.check = bcheck
    ObjectDB.oids_exist = wrap_exists(ObjectDB.oids_exist)


# ----------------------------------------------------------------------------------------------
# workloads


def md5hex(b: bytes) -> str:
    return hashlib.md5(b).hexdigest()  # noqa: S324


def files_of(wl: dict) -> dict:
    """the files of a workload; a key ending in "/" is an EMPTY sub-directory (it contributes nothing)"""
    return {rel: b for rel, b in wl.items() if not rel.endswith("/")}


def mk_ws(root: str, wl: dict):
    impl.mk_tree(root, files_of(wl))
    for rel in wl:
        if rel.endswith("/"):
            os.makedirs(os.path.join(root, *rel.strip("/").split("/")), exist_ok=True)


def manifest(wl: dict) -> dict:
    """independent expectation of one writer: {oid: bytes}, directory object last.  A tree without files has
    the empty listing: its only object is d751713988987e9331980363e24189ce.dir = b"[]"."""
    wl = files_of(wl)
    out = {}
    for rel in sorted(wl):
        out[md5hex(wl[rel])] = wl[rel]
    listing = sorted(({"md5": md5hex(b), "relpath": rel} for rel, b in wl.items()), key=lambda d: d["relpath"])
    lb = json.dumps(listing, sort_keys=True).encode("utf-8")
    out[md5hex(lb) + ".dir"] = lb
    return out


def listing_bytes(files: dict) -> bytes:
    listing = sorted(({"md5": md5hex(b), "relpath": rel} for rel, b in files.items()), key=lambda d: d["relpath"])
    return json.dumps(listing, sort_keys=True).encode("utf-8")


def requested(wl: dict, opt: dict | None = None) -> dict:
    """{oid: bytes} a writer requests, by construction route (directory object(s) last):
    transfer (default)  build() + transfer(): the files and ONE directory object for the whole tree
    single              build() of ONE file + transfer(): that file object
    add                 odb.add(paths, fs, oids) directly: the file objects only
    save                index.save(): the files and one directory object PER SUB-DIRECTORY (none for the root)
    migrate             prepare()+migrate() of a source store that holds the transfer-manifest as objects"""
    route = (opt or {}).get("route", "transfer")
    files = files_of(wl)
    if route == "single":
        b = files["@file"]
        return {md5hex(b): b}
    if route == "add":
        return {md5hex(b): b for _rel, b in sorted(files.items())}
    if route == "save":
        out = {md5hex(b): b for _rel, b in sorted(files.items())}
        dirs = set()
        for rel in wl:
            parts = rel.strip("/").split("/")
            upto = len(parts) if rel.endswith("/") else len(parts) - 1
            for k in range(1, upto + 1):
                dirs.add("/".join(parts[:k]))
        for d in sorted(dirs):
            lb = listing_bytes({rel[len(d) + 1:]: b for rel, b in files.items() if rel.startswith(d + "/")})
            out[md5hex(lb) + ".dir"] = lb
        return out
    return manifest(wl)


def gen_workloads(rng, n, big=False):
    pool = [b"", b"a", b"shared", b"also", b"x" * 40, bytes(range(7)), b"\r\n", b"zz"]
    if big:
        pool += [bytes([i]) * (100 + 37 * i) for i in range(6)]
    k = rng.randint(2, 4 if not big else 7)
    shared = rng.sample(pool, k)
    names = ["a", "b", "d/c", "d/e", "u", "d/f/g", "h", "i/j"]
    wkls = []
    for w in range(n):
        if w > 0 and rng.random() < 0.18:
            wkls.append(dict(wkls[rng.randrange(w)]))  # identical tree: same directory object
            continue
        wl = {}
        nf = rng.randint(1, 4 if not big else 7)
        for nm in rng.sample(names, nf):
            r = rng.random()
            if r < 0.78:
                wl[nm] = rng.choice(shared)
            else:
                wl[nm] = b"uniq-%d-%d" % (w, rng.randrange(3))
        wkls.append(wl)
    return wkls


EMPTY_SHAPES = [{}, {"d/": b""}, {"d/": b"", "e/f/": b""}, {"x/y/z/": b""}]


def with_empty_writers(rng, wkls):
    """1-2 of the writers stage a directory WITHOUT files (empty, or a skeleton of nested empty sub-directories):
    they all request the same single object, the empty listing"""
    k = min(len(wkls), rng.choice([1, 1, 2]))
    for i in rng.sample(range(len(wkls)), k):
        wkls[i] = dict(rng.choice(EMPTY_SHAPES))
    return wkls


def gen_pool_workloads(rng, n):
    """trees that take the POOL hashing path once the threshold is lowered: every writer has >= 3 files with
    pairwise different non-empty contents in one directory (plus a few nested), contents shared across writers"""
    contents = [b"pool-%d-" % i + bytes([65 + i]) * (5 + 11 * i) for i in range(7)]
    top = ["a", "b", "c", "e", "h", "u"]
    sub = ["d/c", "d/e", "d/k"]
    wkls = []
    for _w in range(n):
        wl = {}
        for nm, c in zip(rng.sample(top, rng.randint(3, 5)), rng.sample(contents, 5)):
            wl[nm] = c
        for nm, c in zip(rng.sample(sub, rng.randint(0, 3)), rng.sample(contents, 3)):
            wl[nm] = c
        wkls.append(wl)
    return wkls


def gen_pool(rng):
    return {"jobs": rng.choice([None, 2, 4]), "order": rng.choice(["asc", "desc", "rand"]),
            "seed": rng.randrange(1000), "step": 0.004}


def gen_schedule(rng, n, length=400):
    """mix of styles: uniform, bursty, round-robin with jitter, one writer delayed"""
    style = rng.choice(["uniform", "bursty", "rr", "late", "pairs"])
    out = []
    if style == "uniform":
        out = [rng.randrange(n) for _ in range(length)]
    elif style == "bursty":
        while len(out) < length:
            out += [rng.randrange(n)] * rng.randint(1, 9)
    elif style == "rr":
        i = 0
        while len(out) < length:
            out.append(i % n)
            if rng.random() < 0.7:
                i += 1
    elif style == "late":
        late = rng.randrange(n)
        others = [i for i in range(n) if i != late] or [late]
        k = rng.randint(3, 60)
        out = [rng.choice(others) for _ in range(k)]
        out += [rng.randrange(n) for _ in range(length - k)]
    else:
        while len(out) < length:
            a, b = rng.randrange(n), rng.randrange(n)
            out += [a, b] * rng.randint(1, 6)
    return style, out[:length]


# ----------------------------------------------------------------------------------------------
# one writer

_STATE: dict = {}
_STATS: dict = {}
_POOL: dict = {}
_WL: dict = {}  # workspace path -> workload (for the routes that compute ids themselves)
_FAULT_FIRED: set = set()  # writers whose injected failure actually happened in this run
_FAULT: dict = {}  # writer id -> {"oid": ..., "errno": ...}: injected failure of that writer's copy of that object
_RESTAGE: dict = {}  # workspace path -> {"files": {rel: new bytes of the same size}, "ns": mtime to set}


def pool_delays(root, wkls, pool):
    """{workspace path: seconds}: within every directory of every writer's tree the files are ranked (by name,
    ascending / descending / a seeded permutation) and the k-th waits k * step before it is read, so the
    hashing pool completes in an order unrelated to the listing order"""
    import random as _random

    out = {}
    r = _random.Random(pool.get("seed", 0))
    for i, wl in enumerate(wkls):
        bydir: dict = {}
        for rel in files_of(wl):
            bydir.setdefault(os.path.dirname(rel), []).append(rel)
        for rels in bydir.values():
            rels = sorted(rels)
            if pool["order"] == "desc":
                rels.reverse()
            elif pool["order"] == "rand":
                r.shuffle(rels)
            for k, rel in enumerate(rels):
                out[os.path.join(root, f"w{i}", *rel.split("/"))] = k * pool.get("step", 0.004)
    return out


def _run_state_dir(ctx):
    if _STATE.get("ctx") is not ctx:
        if _STATE.get("obj") is not None:
            try:
                _STATE["obj"].close()
            except Exception:  # noqa: BLE001
                pass
        _STATE.clear()
        _STATE["ctx"] = ctx
        _STATE["dir"] = ctx.fresh("c16-state")
    return _STATE["dir"]



def _writer_body(cls, store, ws, st, verify=None, hardlink=False, modify=None, opt=None):
    from dvc_objects.fs.local import localfs

    from dvc_data.hashfile.build import build
    from dvc_data.hashfile.transfer import transfer

    opt = opt or {}
    route = opt.get("route", "transfer")
    # verify: None | "call" (transfer(verify=True)) | "store" (the store is configured verify=True)
    cfgkw = {"verify": True} if verify == "store" else {}
    if st is not None:
        cfgkw["state"] = st
    odb = impl.make_odb(cls, store, **cfgkw)
    cfg = _POOL.get("cfg")
    kw = {"checksum_jobs": cfg["jobs"]} if cfg is not None else {}
    vkw = {"verify": True} if verify == "call" else {}
    if route == "add":
        # HashFileDB.add directly, files only, oids computed by the caller
        files = files_of(_WL[ws])
        rels = sorted(files)
        akw = dict(vkw)
        if "check_exists" in opt:
            akw["check_exists"] = opt["check_exists"]
        if hardlink:
            akw["hardlink"] = True
        odb.add([os.path.join(ws, *r.split("/")) for r in rels], localfs, [md5hex(files[r]) for r in rels], **akw)
        return "add", []
    if route == "save":
        from dvc_data.index import ObjectStorage
        from dvc_data.index import build as ibuild
        from dvc_data.index import md5 as imd5
        from dvc_data.index import save as isave

        idx = imd5(ibuild(ws, localfs), **({"state": st} if st is not None else {}))
        idx.storage_map.add_cache(ObjectStorage((), odb))
        isave(idx, **vkw)
        return "save", []
    if route == "migrate":
        from dvc_data.hashfile.db.migrate import migrate, prepare

        src = impl.make_odb("local", ws + "-src")
        migrate(prepare(src, odb))
        return "migrate", []
    target = os.path.join(ws, "@file") if route == "single" else ws
    staging, _meta, obj = build(odb, target, localfs, "md5", **kw)
    if modify:
        # perturbation: the SOURCE is rewritten after it was staged (what was hashed is no longer what is there)
        for rel, data in modify.items():
            with open(os.path.join(ws, *rel.split("/")), "wb") as f:
                f.write(data)
    tkw = dict(vkw)
    if hardlink:
        tkw["hardlink"] = True
    if opt.get("jobs"):
        tkw["jobs"] = opt["jobs"]
    if opt.get("callback"):
        from fsspec.callbacks import Callback

        tkw["callback"] = Callback()
    hi = obj.hash_info
    if opt.get("label"):
        hi.obj_name = "data/" + os.path.basename(ws)  # as DVC labels what it requests
    ids = {hi}
    if opt.get("shallow"):
        # as DVC calls it: the directory AND its files are requested, directories are not expanded
        ids |= {h for _, _, h in obj}
    res = transfer(staging, odb, ids, shallow=bool(opt.get("shallow")), **tkw)
    failed = sorted(h.value for h in res.failed)
    rs = _RESTAGE.get(ws)
    if rs:
        # re-stage after rewriting files IN PLACE with other contents of the SAME size; the modification time is
        # set explicitly (no wall clock involved): same whole second as before, another fraction
        for rel, data in rs["files"].items():
            p = os.path.join(ws, *rel.split("/"))
            with open(p, "r+b") as f:
                f.write(data)
            os.utime(p, ns=(rs["ns"], rs["ns"]))
        staging, _meta, obj = build(odb, ws, localfs, "md5", **kw)
        res = transfer(staging, odb, {obj.hash_info}, shallow=False)
        failed += sorted(h.value for h in res.failed)
    return obj.oid, failed


def _thread_main(s: Sched, tid, cls, store, ws, st, results, verify=None, hardlink=False, modify=None, opt=None):
    _tl.tid = tid
    try:
        s.at_event(tid, ("sync", "start"))
        results[tid] = ("ok",) + _writer_body(cls, store, ws, st, verify, hardlink, modify, opt)
    except Abort:
        results[tid] = ("abort",)
    except BaseException as exc:  # noqa: BLE001
        results[tid] = ("exc", type(exc).__name__, str(exc)[:200])
    finally:
        _tl.tid = None
        s.finish(tid)


def run_threads(ctx, cls, wkls, schedule, prepop=None, free=False, shared_state=True, _root=None, pool=None,
                verify=None, restage=None, hardlink=None, modify=None, wopts=None, state_mode=None, pre_raw=None,
                pre_temps=None):
    """returns dict(trace, grants, results, store, rows, leftovers, root).
    hardlink[i]: writer i transfers with hardlink=True; modify[i]: {rel: bytes} rewritten between build and transfer"""
    global _S
    from dvc_data.hashfile.state import State

    _install()
    root = _root or ctx.fresh("c16")
    store = os.path.join(root, "store")
    n = len(wkls)
    _WL.clear()
    _FAULT.clear()
    _FAULT_FIRED.clear()
    for i, wl in enumerate(wkls):
        ws = os.path.join(root, f"w{i}")
        mk_ws(ws, wl)
        _WL[ws] = wl
        o = (wopts or [None] * n)[i] or {}
        if o.get("route") == "migrate":
            # the writer's source store: the objects of its tree (files and directory object), protected
            for oid, data in manifest(wl).items():
                impl.plant(ws + "-src", oid, data, mode=0o444)
        if o.get("fault"):
            _FAULT[i] = o["fault"]
    for oid, (data, mode) in (pre_raw or {}).items():
        impl.plant(store, oid, data, mode=mode)
    for rel in pre_temps or []:
        p = os.path.join(store, *rel.split("/"))
        os.makedirs(os.path.dirname(p), exist_ok=True)
        with open(p, "wb") as f:
            f.write(b"partial copy left by somebody who died")
    _RESTAGE.clear()
    if restage:
        # restage[i] = second version of writer i's tree (same names, same sizes).  Explicit clock: first
        # version at T + 0.25 s, second at T + 0.75 s, T a whole second in the past
        t0 = (int(time.time()) - 100) * 10**9
        for i, wl in enumerate(wkls):
            ws = os.path.join(root, f"w{i}")
            for rel in wl:
                p = os.path.join(ws, *rel.split("/"))
                os.utime(p, ns=(t0 + 250_000_000, t0 + 250_000_000))
            changed = {rel: b for rel, b in restage[i].items() if b != wl[rel]}
            assert all(len(b) == len(wl[rel]) for rel, b in changed.items())
            _RESTAGE[ws] = {"files": changed, "ns": t0 + 750_000_000}
    if prepop:
        for oid, data in prepop.items():
            impl.plant(store, oid, data, mode=0o444 if cls == "local" else None)
    if state_mode == "noop":
        st_dir = os.path.join(root, "st")
        states = [None]
    elif shared_state and state_mode != "per-writer":
        # ONE State object for all writers of the trial; it is kept for the whole harness run (diskcache
        # initialisation costs 0.1 s) - the rows are keyed by absolute path, every trial has its own root
        st_dir = _run_state_dir(ctx)
        if _STATE.get("obj") is None:
            _STATE["obj"] = State(root_dir=os.path.dirname(st_dir), tmp_dir=st_dir)
        states = [_STATE["obj"]]
    else:
        # one State object per writer on the same database directory (as separate commands would have)
        st_dir = os.path.join(root, "st")
        states = [State(root_dir=root, tmp_dir=st_dir) for _ in range(n)]
    s = Sched(store, schedule, n)
    s.free = free
    results: dict = {}
    ths = [threading.Thread(target=_thread_main, daemon=True,
                            args=(s, i, cls, store, os.path.join(root, f"w{i}"), states[i % len(states)], results,
                                  (verify or [None] * n)[i], (hardlink or [False] * n)[i],
                                  (modify or [None] * n)[i], (wopts or [None] * n)[i]))
           for i in range(n)]
    _S = s
    if pool:
        _POOL["cfg"] = {"threshold": 0, "jobs": pool.get("jobs"), "delays": pool_delays(root, wkls, pool)}
    try:
        for t in ths:
            t.start()
        deadline = time.time() + 60
        last = -1
        for t in ths:
            while t.is_alive():
                t.join(timeout=5)
                if t.is_alive() and time.time() > deadline:
                    if s.progress == last:
                        with s.cv:
                            s.abort = True
                            s.cv.notify_all()
                        t.join(timeout=5)
                        break
                    last = s.progress
                    deadline = time.time() + 60
    finally:
        s.on = False
        _S = None
        _POOL.pop("cfg", None)
        _RESTAGE.clear()
        _FAULT.clear()
    if state_mode == "per-writer" or (not shared_state and state_mode != "noop"):
        for x in states:
            x.close()
    return {"trace": s.log, "grants": s.grants, "results": results, "root": root, "store": store,
            "st_dir": st_dir, "aborted": s.abort, "fault_fired": sorted(_FAULT_FIRED)}


# ----------------------------------------------------------------------------------------------
# audit of the real store and state database (independent: os / hashlib / sqlite3 only)


def classify(rel: str):
    """('root',) | ('dir', name) | ('obj', oid) | ('tmp', rel) | ('other', rel)"""
    if rel == "":
        return ("root",)
    parts = rel.split(os.sep)
    if len(parts) == 1:
        return ("dir", parts[0]) if len(parts[0]) == 2 else ("other", rel)
    if len(parts) == 2 and len(parts[0]) == 2:
        if parts[1].endswith(".tmp"):
            return ("tmp", rel)
        return ("obj", parts[0] + parts[1])
    return ("other", rel)


def audit_store(store):
    objs, leftovers = {}, []
    if os.path.isdir(store):
        for r, _ds, fs_ in os.walk(store):
            for f in fs_:
                p = os.path.join(r, f)
                c = classify(os.path.relpath(p, store))
                if c[0] == "obj":
                    with open(p, "rb") as fh:
                        objs[c[1]] = (fh.read(), stat.S_IMODE(os.lstat(p).st_mode))
                else:
                    leftovers.append(os.path.relpath(p, store))
    return objs, sorted(leftovers)


def audit_rows(st_dir, store):
    """rows of the hashes cache whose key is a path under the store: {oid: (entry, live?)}"""
    import sqlite3

    from dvc_data.hashfile.state import _checksum
    from dvc_data.fsutils import _localfs_info

    db = os.path.join(st_dir, "hashes", "local", "cache.db")
    out = {}
    if not os.path.exists(db):
        return out, "missing"
    con = sqlite3.connect(db)
    try:
        integrity = con.execute("PRAGMA integrity_check").fetchall()[0][0]
        rows = con.execute("SELECT key, value FROM Cache WHERE raw = 1").fetchall()
    finally:
        con.close()
    pre = store + os.sep
    for k, v in rows:
        if isinstance(k, str) and k.startswith(pre):
            c = classify(k[len(pre):])
            try:
                entry = json.loads(v)
            except ValueError:
                entry = None
            live = None
            if entry is not None and os.path.exists(k):
                live = entry.get("checksum") == _checksum(_localfs_info(k))
            out[c[1] if c[0] == "obj" else k] = (entry, live)
    return out, integrity


def judge(cls, wkls, run, prepop=None, earlier=None, modify=None, mans=None, faults=None, pre_temps=None,
          state_mode=None, routes=None):
    """oracle: the property on the real outcome.  returns [(signature, what)].
    earlier[i] = an earlier version of writer i's tree that it staged too (its objects are requested as well)"""
    problems = []
    n = len(wkls)
    if run.get("aborted"):
        problems.append(("C16:no-progress", "the writers stopped making progress (deadlock)"))
    # a writer whose source was rewritten after staging may be REFUSED (the rewritten ids and its directory
    # object reported failed): it then promises nothing about the store; it must not raise, and whatever it
    # does, the store must stay correctly named and the other writers must fully succeed
    refused = set()
    for i, m in enumerate(modify or []):
        r = run["results"].get(i)
        if m and r and r[0] == "ok" and r[2]:
            man = manifest(wkls[i])
            allowed = {md5hex(wkls[i][rel]) for rel in m} | {list(man)[-1]}
            if set(r[2]) <= allowed:
                refused.add(i)
    # a writer with an injected failure of one copy may be refused as well (that id and its directory object)
    for i, f in (faults or {}).items():
        r = run["results"].get(i)
        man = mans[i] if mans else manifest(wkls[i])
        if r and r[0] == "ok" and r[2] and set(r[2]) <= {f["oid"], list(man)[-1]}:
            refused.add(i)
        elif r and r[0] == "exc" and r[1] in ("OSError", "PermissionError") and (routes or {}).get(i) in ("add", "save", "migrate"):
            refused.add(i)  # these routes have no on_error: the injected error propagates to the caller
        if i in run.get("fault_fired", []) and i not in refused:
            problems.append(("C16:injected-fault-not-reported",
                             f"writer {i}: its copy of {f['oid']} failed ({f.get('errno')}) but it reports {r}"))
    for i in range(n):
        r = run["results"].get(i)
        if i in refused:
            continue
        if r is None or r[0] != "ok":
            problems.append((f"C16:writer-failed:{r[1] if r and len(r) > 1 else 'no-result'}",
                             f"writer {i} did not succeed: {r}"))
        elif r[2]:
            problems.append(("C16:writer-failed:transfer-failed", f"writer {i}: transfer reported failed ids {r[2]}"))
    objs, leftovers = audit_store(run["store"])
    want = dict(prepop or {})
    for i, wl in enumerate(wkls):
        man = dict(mans[i]) if mans else manifest(wl)
        doid = list(man)[-1]
        r = run["results"].get(i)
        if r and r[0] == "ok" and r[1] != doid and (routes or {}).get(i, "transfer") in ("transfer", "single"):
            problems.append(("C16:directory-id", f"writer {i} staged {r[1]}, its tree is {doid}"))
        if earlier:
            man = {**manifest(earlier[i]), **man}
        if i in refused:
            want.update(man)
            continue
        for oid, data in man.items():
            want[oid] = data
            got = objs.get(oid)
            if got is None:
                problems.append(("C16:requested-object-absent", f"writer {i}: {oid} is not in the store"))
            elif got[0] != data:
                kind = "directory-object-differs" if oid.endswith(".dir") else "object-incomplete"
                problems.append((f"C16:{kind}", f"writer {i}: {oid} holds {len(got[0])} bytes, expected {len(data)}"))
    for oid, (data, mode) in objs.items():
        if md5hex(data) != oid.split(".")[0]:
            problems.append(("C16:object-misnamed", f"{oid} holds bytes hashing to {md5hex(data)}"))
        if oid not in want:
            problems.append(("C16:unrequested-object", f"{oid} was requested by nobody"))
        if cls == "local" and mode != 0o444:
            problems.append(("C16:object-unprotected", f"{oid} has mode {oct(mode)}"))
    leftovers = [x for x in leftovers if x not in set(pre_temps or [])]
    if leftovers:
        problems.append(("C16:leftover-temp", f"left in the store: {leftovers[:4]}"))
    rows, integrity = audit_rows(run["st_dir"], run["store"])
    if state_mode == "noop" and integrity == "missing":
        integrity = "ok"
    if integrity != "ok":
        problems.append(("C16:state-db-corrupt", f"PRAGMA integrity_check = {integrity}"))
    for oid, (entry, live) in rows.items():
        if entry is None:
            problems.append(("C16:state-row-unparsable", f"row of {oid}"))
            continue
        if live:
            val = (entry.get("hash_info") or {}).get("md5")
            got = objs.get(oid)
            if got is None or val is None or val.split(".")[0] != md5hex(got[0]):
                problems.append(("C16:state-row-live-but-wrong", f"row of {oid} vouches {val}"))
    return problems, objs, leftovers, rows


# ----------------------------------------------------------------------------------------------
# abstraction of the raw trace into model steps


def abstract(cls, wkls, raw, modify=None, mans=None):
    """-> (steps [(tid, ('Step', args...))], notes).  Unknown events become ('Unknown', text) which the
    caller reports (the model has no such step)."""
    steps = []
    unknown = []
    tmp_owner: dict[str, tuple] = {}  # raw temp rel -> (tid, serial)
    serial: dict[int, int] = {}
    probe_open: set = set()  # (tid, oid) with an open probe
    placed: set = set()  # (tid, oid) the writer has renamed into place itself
    renames_of_tmp = {}  # raw temp -> destination rel (for CopyTmp's id)
    for e in raw:
        if e[1] == "os.rename":
            renames_of_tmp[e[2]] = e[3]

    def final_of_tmp(rel, depth=0):
        d = renames_of_tmp.get(rel)
        if d is None or depth > 4:
            return None
        c = classify(d)
        if c[0] == "obj":
            return c[1]
        if c[0] == "tmp":
            return final_of_tmp(d, depth + 1)
        return None

    def tmp_id(tid, rel):
        if rel not in tmp_owner:
            serial[tid] = serial.get(tid, 0) + 1
            tmp_owner[rel] = (tid, serial[tid])
        own, ser = tmp_owner[rel]
        if own != tid:
            unknown.append(f"writer {tid} touches the temp {rel} of writer {own}")
        return ser

    ins: dict[int, int] = {}  # writer -> index in steps right after its last GRANTED event (where its reads happen)
    for e in raw:
        tid, kind = e[0], e[1]
        if kind == "open":
            c = classify(e[2])
            if c[0] == "obj":
                steps.append((tid, ("ProbeOpen", c[1])))
                probe_open.add((tid, c[1]))
            elif c[0] == "tmp":
                ser = tmp_id(tid, e[2])
                if e[3] == "py":  # the copy itself (builtin open 'wb'); os.open = reflink attempt on the temp
                    steps.append((tid, ("CopyTmp", ser, final_of_tmp(e[2]) or "")))
            else:
                unknown.append(f"open for writing of {e[2]}")
        elif kind == "os.remove":
            c = classify(e[2])
            if c[0] == "obj":
                if (tid, c[1]) in probe_open:
                    probe_open.discard((tid, c[1]))
                    steps.append((tid, ("ProbeUnlink", c[1])))
                elif (tid, c[1]) in placed:
                    # only add(verify=True)'s check AFTER the copy removes a name its writer has placed.  The
                    # check is read-then-remove: the mismatching READ happened in the writer's previous turn
                    # (right after its last granted event), the remove is this event
                    pos = ins.get(tid, len(steps))
                    steps.insert(pos, (tid, ("VerifyBad", c[1])))
                    for t in ins:
                        if ins[t] > pos:
                            ins[t] += 1
                    steps.append((tid, ("VerifyDrop", c[1])))
                else:
                    steps.append((tid, ("Remove", c[1])))
            elif c[0] == "tmp":
                tmp_id(tid, e[2])  # clean-up of the reflink attempt on a private temp: no model step
            else:
                unknown.append(f"remove of {e[2]}")
        elif kind == "os.rename":
            a, b = classify(e[2]), classify(e[3])
            if a[0] == "tmp" and b[0] == "obj":
                steps.append((tid, ("Rename", tmp_id(tid, e[2]), b[1])))
                placed.add((tid, b[1]))
            elif a[0] == "tmp" and b[0] == "tmp":
                x = tmp_id(tid, e[2])
                steps.append((tid, ("RenameTmp", x, tmp_id(tid, e[3]))))
            else:
                unknown.append(f"rename {e[2]} -> {e[3]}")
        elif kind == "os.link":
            b = classify(e[3]) if len(e) > 3 else ("other", "")
            src = e[2][len("<outside>"):] if isinstance(e[2], str) and e[2].startswith("<outside>") else None
            content = None
            if b[0] == "obj" and src:
                ms = re.search(r"/w(\d+)-src/(..)/([^/]+)$", src)
                if ms and int(ms.group(1)) == tid and mans:
                    content = mans[tid].get(ms.group(2) + ms.group(3))
                m = re.search(r"/w(\d+)/(.*)$", src)
                if content is None and m and int(m.group(1)) == tid:
                    rel = m.group(2).replace(os.sep, "/")
                    wl = files_of(wkls[tid])
                    if rel in wl:
                        content = ((modify[tid] or {}) if modify else {}).get(rel, wl[rel])
            if content is None:
                unknown.append(f"link {e[2:]}")
            else:
                steps.append((tid, ("Link", b[1], content)))
                placed.add((tid, b[1]))
        elif kind == "os.chmod":
            c = classify(e[2])
            if c[0] == "obj" and e[3] == 0o444:
                steps.append((tid, ("Chmod", c[1])))
            elif c[0] in ("dir", "root"):
                pass  # mode of a fan-out directory right after its creation
            else:
                unknown.append(f"chmod {e[2]} {oct(e[3]) if isinstance(e[3], int) else e[3]}")
        elif kind == "os.mkdir":
            c = classify(e[2])
            if c[0] == "dir":
                steps.append((tid, ("Mkdir", c[1])))
            elif c[0] == "root":
                steps.append((tid, ("Mkdir", "")))
            else:
                unknown.append(f"mkdir {e[2]}")
        elif kind == "state":
            oids = []
            for k in e[3]:
                c = classify(k)
                if c[0] == "obj":
                    oids.append(c[1])
                else:
                    unknown.append(f"state row for {k}")
            steps.append((tid, ("StateUpsert", tuple(oids))))
        elif kind == "exists":
            for o in e[2]:
                steps.append((tid, ("ExistsCheck", o, True)))
        elif kind == "sync":
            pass  # harness-made scheduling point (thread start, status phase, one existence check)
        else:
            unknown.append(f"{kind} {e[2:]}")
        if kind not in ("state", "exists"):
            ins[tid] = len(steps)
    return steps, unknown


# ----------------------------------------------------------------------------------------------
# Coq terms


class Names:
    """let-bound byte strings so that each id / content is written once per case"""

    def __init__(self):
        self.d = {}
        self.order = []
        self.c = {}

    def ref(self, b) -> str:
        if isinstance(b, str):
            b = b.encode("ascii")
        if b not in self.d:
            self.d[b] = f"x{len(self.d)}"
            self.order.append(b)
        return self.d[b]

    def content(self, b: bytes) -> str:
        """file contents are abstracted to an injective content id: b"" -> [], the k-th distinct non-empty
        content -> [k].  The model only ever compares contents for equality (and creates the empty one);
        the real bytes are judged by the oracle (hash = name, bytes = manifest)."""
        if b == b"":
            return "[]"
        if b not in self.c:
            self.c[b] = len(self.c) + 1
        return f"[{self.c[b]}]"

    def wrap(self, term: str) -> str:
        out = term
        for b in reversed(self.order):
            out = f"let {self.d[b]} := {cbytes(b)} in\n {out}"
        return "(" + out + ")"


def step_term(nm: Names, st):
    k = st[0]
    if k == "ExistsCheck":
        return f"ExistsCheck {nm.ref(st[1])} {'true' if st[2] else 'false'}"
    if k in ("Remove", "ProbeOpen", "ProbeUnlink", "Chmod", "Mkdir"):
        return f"{k} {nm.ref(st[1])}"
    if k == "CopyTmp":
        return f"CopyTmp {st[1]} {nm.ref(st[2])}"
    if k == "Rename":
        return f"Rename {st[1]} {nm.ref(st[2])}"
    if k == "RenameTmp":
        return f"RenameTmp {st[1]} {st[2]}"
    if k == "StateUpsert":
        return "StateUpsert [" + "; ".join(nm.ref(o) for o in st[1]) + "]"
    raise ValueError(st)


def vcase_term(cls, wkls, steps, objs, rows, leftovers, failed, prepop=None, mans=None):
    """(vsim_in, expected val): the extended machine with the verification step; failed = {(writer, file id)}"""
    nm = Names()
    wls = []
    for wi, wl in enumerate(wkls):
        man = mans[wi] if mans else manifest(wl)
        wls.append("[" + "; ".join(f"({nm.ref(o)}, {nm.content(b)})" for o, b in man.items()) + "]")
    pre = "[" + "; ".join(f"({nm.ref(o)}, {nm.content(b)})" for o, b in (prepop or {}).items()) + "]"

    def vt(st):
        if st[0] in ("VerifyDrop", "VerifyBad"):
            return f"{st[0]} {nm.ref(st[1])}"
        if st[0] == "Link":
            return f"VLink {nm.ref(st[1])} {nm.content(st[2])}"
        return f"Base ({step_term(nm, st)})"

    tr = "[" + ";\n  ".join(f"({tid}%nat, {vt(s)})" for tid, s in steps) + "]"
    loc = "true" if cls == "local" else "false"
    store = "; ".join(
        f"VL [VB {nm.ref(o)}; VB {nm.content(objs[o][0])}; VN {1 if objs[o][1] == 0o444 else 0}]"
        for o in sorted(objs, key=lambda s: s.encode()))
    rowset = "; ".join(f"VB {nm.ref(o)}" for o in sorted(rows, key=lambda s: s.encode()))
    fl = "; ".join(f"VB ({i} :: {nm.ref(o)})" for i, o in sorted(set(failed), key=lambda io: bytes([io[0]]) + io[1].encode()))
    exp = f"VL [VN 1; VL [{store}]; VL [{rowset}]; VN {len(leftovers)}; VL [{fl}]]"
    return nm.wrap(f"(({loc}, [{'; '.join(wls)}], {pre}, {tr}), {exp})")


def case_term(cls, wkls, steps, objs, rows, leftovers, prepop=None, mans=None):
    """(check_in_pre, expected val) as one let-wrapped Coq term"""
    nm = Names()
    wls = []
    for wi, wl in enumerate(wkls):
        man = mans[wi] if mans else manifest(wl)
        wls.append("[" + "; ".join(f"({nm.ref(o)}, {nm.content(b)})" for o, b in man.items()) + "]")
    pre = "[" + "; ".join(f"({nm.ref(o)}, {nm.content(b)})" for o, b in (prepop or {}).items()) + "]"
    tr = "[" + ";\n  ".join(f"({tid}%nat, {step_term(nm, s)})" for tid, s in steps) + "]"
    loc = "true" if cls == "local" else "false"
    store = "; ".join(
        f"VL [VB {nm.ref(o)}; VB {nm.content(objs[o][0])}; VN {1 if objs[o][1] == 0o444 else 0}]"
        for o in sorted(objs, key=lambda s: s.encode()))
    rowset = "; ".join(f"VB {nm.ref(o)}" for o in sorted(rows, key=lambda s: s.encode()))
    exp = f"VL [VN 1; VL [{store}]; VL [{rowset}]; VN {len(leftovers)}; VN 1]"
    return nm.wrap(f"(({loc}, [{'; '.join(wls)}], {pre}, {tr}), {exp})")


def coq_check(ctx, name, cases, shard, ty="check_in_pre", fn="enc_check_in_pre"):
    """cases: [(case_json, term)].  Records the correspondence obligation."""
    if not cases:
        return
    terms = [t for _, t in cases]
    okfn = f"fun c => val_eqb ({fn} (fst c)) (snd c)"
    try:
        total, bad = ctx.coq_eval_failing(name, IMPORTS, f"{ty} * val", okfn, terms, shard=shard)
    except RuntimeError as exc:
        ctx.obligation(f"correspondence:{name}", False, "coq evaluation failed: " + " ".join(str(exc).split())[-260:])
        ctx.broken("correspondence", f"correspondence:{name}",
                   "the model could not be evaluated on the recorded traces", detail=str(exc)[-3000:])
        return
    ok = total == len(cases) and not bad
    ctx.obligation(f"correspondence:{name}", ok,
                   f"{total} recorded traces checked by valid_trace + final store compared in Coq, {len(bad)} rejected/differ")
    ctx.extra.setdefault("correspondence", {})[name] = {"cases": total, "disagree": len(bad)}
    if bad:
        detail = []
        for bi in bad[:2]:
            cj, term = cases[bi]
            mv = ctx.coq_eval_val(name, IMPORTS, f"{fn} (fst {term})")
            detail.append({"case": cj, "model": mv if not isinstance(mv, list) or len(str(mv)) < 4000 else "large"})
        ctx.broken("correspondence", f"correspondence:{name}",
                   f"valid_trace rejects, or the model's final store differs from the audited store, on {len(bad)} of {total} recorded traces",
                   detail=detail, case=cases[bad[0]][0])


# ----------------------------------------------------------------------------------------------
# scenarios


def hexwl(wkls):
    return [{k: v.hex() for k, v in wl.items()} for wl in wkls]


def unhexwl(j):
    return [{k: bytes.fromhex(v) for k, v in wl.items()} for wl in j]


def switches(grants):
    return sum(1 for a, b in zip(grants, grants[1:]) if a != b)


def overlap(wkls):
    seen, shared = {}, 0
    for i, wl in enumerate(wkls):
        for o in manifest(wl):
            if o in seen and seen[o] != i:
                shared += 1
            seen.setdefault(o, i)
    return shared


def scheduled_case(ctx, cls, wkls, schedule, style="given", prepop=None, pool=None, verify=None, hardlink=None,
                   modify=None, wopts=None, state_mode=None, pre_raw=None, pre_temps=None, dims=None):
    """one run under the cooperative scheduler + audit + abstraction.
    wopts[i]: {"route","shallow","label","jobs","callback","check_exists","fault"}; state_mode: None (one shared
    State) | "per-writer" | "noop"; pre_raw: {oid: (bytes, mode)} planted as they are; pre_temps: stale temp files"""
    n = len(wkls)
    wopts = wopts or [None] * n
    mans = [requested(wl, wopts[i]) for i, wl in enumerate(wkls)]
    faults = {i: o["fault"] for i, o in enumerate(wopts) if o and o.get("fault")}
    routes = {i: (o or {}).get("route", "transfer") for i, o in enumerate(wopts)}
    run = run_threads(ctx, cls, wkls, schedule, prepop=prepop, pool=pool, verify=verify, hardlink=hardlink,
                      modify=modify, wopts=wopts, state_mode=state_mode, pre_raw=pre_raw, pre_temps=pre_temps)
    good_pre = {o: b for o, (b, _m) in (pre_raw or {}).items() if md5hex(b) == o.split(".")[0]}
    problems, objs, leftovers, rows = judge(cls, wkls, run, {**(prepop or {}), **good_pre} or None, modify=modify,
                                            mans=mans, faults=faults, pre_temps=pre_temps, state_mode=state_mode,
                                            routes=routes)
    steps, unknown = abstract(cls, wkls, run["trace"], modify, mans)
    # directories that exist before the race starts (those of stale temp files) are part of the initial world
    pre_dirs = sorted({rel.split("/")[0] for rel in (pre_temps or [])})
    steps = [(0, ("Mkdir", ""))] * bool(pre_dirs) + [(0, ("Mkdir", d)) for d in pre_dirs] + steps
    gh = hashlib.sha1(bytes(run["grants"])).hexdigest()
    case = {"cls": cls, "workloads": hexwl(wkls), "schedule": run["grants"], "style": style}
    if prepop:
        case["prepop"] = {k: v.hex() for k, v in prepop.items()}
    if pool:
        case["pool"] = pool
    if verify:
        case["verify"] = verify
    if hardlink and any(hardlink):
        case["hardlink"] = hardlink
        # the reflink attempt of ANOTHER writer truncates the inode a hard-linked object shares with its source
        for i, wl in enumerate(wkls):
            if hardlink[i]:
                for rel, b in files_of(wl).items():
                    want_b = (modify[i] or {}).get(rel, b) if modify else b
                    try:
                        with open(os.path.join(run["root"], f"w{i}", *rel.split("/")), "rb") as f:
                            if f.read() != want_b:
                                ctx.count("observation:hardlinked-source-file-changed-by-a-probe")
                    except OSError:
                        pass
    if modify and any(modify):
        case["modify"] = [None if not m else {k: v.hex() for k, v in m.items()} for m in modify]
    if any(wopts):
        case["wopts"] = wopts
    if state_mode:
        case["state_mode"] = state_mode
    if pre_raw:
        case["pre_raw"] = {o: [b.hex(), m] for o, (b, m) in pre_raw.items()}
    if pre_temps:
        case["pre_temps"] = pre_temps
    if dims:
        case["dims"] = dims
    leftovers = [x for x in leftovers if x not in set(pre_temps or [])]
    impl.rm_rf(run["root"])
    return case, run, problems, steps, unknown, objs, leftovers, rows, gh


# ----------------------------------------------------------------------------------------------
# dimension corpus (tools/COVERAGE_AUDIT.md): fixed cases that reach, in EVERY run, the input dimensions
# on which seeded changes keep slipping through; schedules are seeded


NAMES_TREE = {
    "we\\ird.txt": b"shared", "with space.txt": b"also", ".hidden": b"shared",
    "\u043a\u0438\u0440\u0438\u043b\u043b\u0438\u0446\u0430.txt": b"cyr", "\u6f22\u5b57.txt": b"cjk",
    "emoji-\U0001F600.bin": b"emo",
    "cafe\u0301.txt": b"nfd", "caf\u00e9.txt": b"nfc",          # decomposed next to its composed twin
    "data.dir": b"a FILE whose name ends in .dir",
    "imgs/a": b"shared", "imgs_raw/a": b"raw", "imgs.bak/a": b"also",   # one name a prefix of the other
    "x": b"x", "L" * 200: b"long name",
    "Case/f": b"dir Case", "case": b"file case",
}


def flat_workloads(n_files=1003):
    """two flat directories of MORE THAN 999 files (not a multiple of 999: the state database is queried in chunks
    of 999 keys) with tiny contents from a small pool: ~1000 state rows per writer, a handful of objects"""
    pool = [b"flat-%d" % i for i in range(7)]
    w0 = {"f%04d" % i: pool[i % 5] for i in range(n_files)}
    w1 = {"f%04d" % i: pool[(i % 5) if i % 11 else 5 + i % 2] for i in range(n_files)}
    return [w0, w1]


def dimension_cases(rng):
    """[(dims, kwargs for scheduled_case)]"""
    S, A, Z = b"shared", b"also", b""
    out = []

    def sch(n, length=None):
        return gen_schedule(rng, n, length or 80 * n + 120)[1]

    def add(dims, cls, wkls, **kw):
        kw.setdefault("schedule", sch(len(wkls)))
        out.append((dims, dict(cls=cls, wkls=wkls, **kw)))

    # -- names
    part = {k: v for k, v in NAMES_TREE.items() if k in ("we\\ird.txt", "caf\u00e9.txt", "imgs/a", "case", "Case/f")}
    names_dims = ["names:backslash", "names:space", "names:leading-dot", "names:cyrillic", "names:cjk", "names:emoji",
                  "names:nfd-next-to-nfc", "names:file-ending-in-.dir", "names:prefix-siblings", "names:1-char",
                  "names:200-chars", "names:case-differing-file-and-dir"]
    add(names_dims + ["overlap:identical-trees", "overlap:partial"], "local", [dict(NAMES_TREE), dict(NAMES_TREE), part])
    add(names_dims + ["route:index.save"], "base", [dict(NAMES_TREE), part], wopts=[{"route": "save"}, {"route": "save"}])
    # -- shapes
    deep = {"p/q/r/f": b"deep", "p/q/s/": Z, "p/q/r/g": S}
    add(["shape:depth>=3-intermediate-only-subdirs", "shape:only-empty-subdirs", "shape:empty-directory"], "local",
        [deep, {"d/": Z, "e/f/": Z}, {}, {"p/q/r/f": b"deep"}])
    add(["shape:identical-content-in-one-dir-and-across-dirs", "shape:one-file"], "base",
        [{"a": S, "b": S, "d/a": S, "d/b": A}, {"only": S}, {"x/y": A, "x/z": A}])
    add(["shape:zero-length-file", "flag:hardlink", "shape:zero-length-file-hardlinked"], "local",
        [{"z": Z, "a": S}, {"e/z": Z}, {"z": Z}], hardlink=[True, True, False])
    add(["shape:single-file-target", "route:single-file"], "local",
        [{"@file": S}, {"a": S, "b": A}, {"@file": A}], wopts=[{"route": "single"}, None, {"route": "single"}])
    # -- identifiers
    add(["id:obj_name-label", "id:empty-listing"], "local", [{"a": S}, {"a": S, "b": A}, {}],
        wopts=[{"label": True}, {"label": True}, {"label": True}])
    # -- flags
    t = {"a": S, "b": A, "d/c": S}
    if VERIFY_STREAM:
        add(["flag:hardlink-x-verify-matrix", "flag:verify-per-call", "flag:verify-store-default"], "local",
            [dict(t), dict(t), dict(t), dict(t)], hardlink=[False, True, False, True], verify=[None, None, "call", "call"])
        add(["flag:verify-store-default", "flag:hardlink-x-verify-matrix"], "base", [dict(t), {"a": S}, {"b": A, "q": b"q"}],
            hardlink=[True, False, True], verify=["store", "call", None])
    add(["flag:shallow"], "local", [dict(t), dict(t), {"a": S, "n": b"n"}],
        wopts=[{"shallow": True}, None, {"shallow": True}])
    add(["flag:shallow"], "base", [dict(t), {"b": A}], wopts=[{"shallow": True}, {"shallow": True}])
    add(["flag:jobs", "flag:callback-non-default"], "local", [dict(t), dict(t), {"a": S}],
        wopts=[{"jobs": 1}, {"jobs": 4, "callback": True}, {"callback": True}])
    add(["state:per-writer"], "local", [dict(t), {"a": S, "u": b"u"}], state_mode="per-writer")
    add(["state:noop"], "local", [dict(t), {"a": S, "u": b"u"}, dict(t)], state_mode="noop")
    add(["state:noop"], "base", [dict(t), {"b": A}], state_mode="noop")
    # -- construction routes
    nested = {"a": S, "d/c": A, "d/e/f": S, "g/": Z}
    add(["route:index.save"], "local", [dict(nested), dict(nested), {"d/c": A, "k/m": S}],
        wopts=[{"route": "save"}] * 3)
    add(["route:odb.add", "flag:check_exists"], "local", [dict(t), dict(t), {"a": S, "w": b"w"}],
        wopts=[{"route": "add", "check_exists": True}, {"route": "add", "check_exists": False}, {"route": "add"}],
        hardlink=[False, True, False])
    add(["route:migrate"], "local", [dict(t), {"a": S, "m": b"m"}, dict(t)], wopts=[{"route": "migrate"}] * 3)
    add(["route:mixed"], "local", [dict(nested), dict(nested), {"a": S, "d/c": A}, {"a": S}],
        wopts=[None, {"route": "save"}, {"route": "add"}, {"route": "migrate"}])
    add(["route:mixed"], "base", [dict(nested), {"a": S, "d/c": A}, dict(nested)],
        wopts=[{"route": "save"}, {"route": "add", "check_exists": False}, None])
    # -- pre-existing store states (local: the existence query re-hashes what is not protected)
    x, y = md5hex(S), md5hex(A)
    add(["pre:right-object-unprotected"], "local", [dict(t), {"a": S}], pre_raw={x: (S, 0o644)})
    add(["pre:corrupt-unprotected"], "local", [dict(t), {"a": S}, {"b": A}], pre_raw={x: (b"garbage", 0o644)})
    add(["pre:empty-leftover"], "local", [dict(t), {"a": S}], pre_raw={x: (b"", 0o644), y: (b"", 0o644)})
    add(["pre:temp-leftovers"], "local", [dict(t), {"a": S}],
        pre_temps=[x[:2] + "/.stale1.tmp", y[:2] + "/" + y[2:] + ".dir.stale2.tmp"])
    add(["pre:temp-leftovers"], "base", [dict(t), {"a": S}], pre_temps=[x[:2] + "/.stale1.tmp"])
    add(["pre:right-object-protected"], "local", [dict(t), {"a": S}], prepop={x: S})
    # -- one injected fault on one writer's copy while the others race (judged without "the others succeed")
    ft = {"a": S, "b": A, "c": b"third"}
    oids = sorted(md5hex(b) for b in ft.values())
    add(["fault:EIO-first-of-batch"], "local", [dict(ft), dict(ft), {"a": S}],
        wopts=[{"fault": {"oid": oids[0], "errno": "EIO"}}, None, None])
    add(["fault:EACCES-last-of-batch"], "base", [dict(ft), dict(ft), {"c": b"third"}],
        wopts=[{"fault": {"oid": oids[-1], "errno": "EACCES"}}, None, None])
    add(["fault:EIO-on-directory-object"], "local", [dict(ft), {"a": S, "b": A}, dict(ft)],
        wopts=[{"fault": {"oid": list(manifest(ft))[-1], "errno": "EIO"}}, None, None])
    # the failing writer's reflink attempt destroys the complete object of the other writer before its copy fails
    add(["fault:probe-then-copy-fails"], "base", [{"a": S}, {"a": S}],
        wopts=[{"fault": {"oid": x, "errno": "EIO"}}, None], schedule=[int(c) for c in "001111111111100001111111"])
    add(["fault:probe-then-copy-fails"], "local", [{"a": S}, {"a": S}],
        wopts=[{"fault": {"oid": x, "errno": "EIO"}}, None],
        schedule=[int(c) for c in "00011111111111111100001111111111"])
    # -- overlap
    add(["overlap:none"], "local", [{"a": b"one"}, {"a": b"two"}, {"a": b"three", "b": b"four"}])
    add(["overlap:identical-trees", "writers:4"], "base", [dict(t)] * 4)
    return out


def run(ctx):
    rng = ctx.rng
    t_start = time.time()
    _STATS.clear()
    n_sched = ctx.n(210, 3000)
    budget = 16 if ctx.tier == "quick" else 240
    cases = []
    seen_sched = set()
    unknown_total = []
    i = 0
    corpus = [
        # the probe race: writer 1 decides "new", writer 0 completes + protects, writer 1's probe truncates it
        ("local", [{"a": b"shared"}, {"a": b"shared"}], [1] * 4 + [0] * 40 + [1] * 40),
        ("base", [{"a": b"shared", "b": b""}, {"b": b"", "c": b"shared"}, {"a": b"shared"}], [0, 1, 2] * 60),
        ("local", [{"a": b"", "d/b": b""}, {"x": b""}], [1, 0] * 50),
        # writers staging a directory without files: the empty listing is the most shared object there is
        ("local", [{}, {"a": b"shared"}, {"d/": b"", "e/f/": b""}], [0, 1, 2] * 60),
        ("base", [{"d/": b""}, {}], [1, 0] * 40),
    ]
    for cls, wkls, schedule in corpus:
        out = scheduled_case(ctx, cls, wkls, schedule, "corpus")
        _register(ctx, out, cases, seen_sched, unknown_total)
    for _rep in range(ctx.n(1, 6)):  # thorough: every dimension case under six seeded schedules
        for dims, kw in dimension_cases(rng):
            cls_, wk_ = kw.pop("cls"), kw.pop("wkls")
            sc_ = kw.pop("schedule")
            out = scheduled_case(ctx, cls_, wk_, sc_, "dimension", dims=dims, **kw)
            _register(ctx, out, cases, seen_sched, unknown_total)
    # > 999 files in one directory level, two writers sharing ONE (already non-empty) State: writer 0 completes
    # before writer 1 queries the state database
    out = scheduled_case(ctx, "local", flat_workloads(), [0] * 400 + [1] * 400, "flat-1003",
                         dims=["state:shared-nonempty-more-than-999-keys-in-one-query", "shape:flat-directory-1003-files"])
    _register(ctx, out, cases, seen_sched, unknown_total)
    if VERIFY_STREAM:
        # minimal reproduction, both classes: writer 0 verifies; writer 1 decided "new" before; writer 0 places the
        # object; writer 1's probe truncates it; writer 0's post-add verification reads it
        two = [{"a": b"shared"}, {"a": b"shared"}]
        g_base = [int(c) for c in "11000000000000111001111111111111"]
        g_local = [int(c) for c in "11111100000000000000111001111111111111111"]
        # same, but writer 0's remove (second half of its check) is granted only after writer 1 re-created the
        # object: the complete object is deleted and stays absent
        g_lost = [int(c) for c in "11000000000000111011111101111111"]
        # writer 0's post-add verification runs while the object is ABSENT (after writer 1's probe unlink, before
        # its re-creation): add() swallows the FileNotFoundError - writer 0 succeeds, nothing is dropped
        g_absent = [int(c) for c in "11000000000000111100000000111111111111"]
        # hardlink=True + verify=True with a source rewritten after staging: writer 0 first, to completion; then two
        # writers requesting the same content from pristine sources
        out = scheduled_case(ctx, "local", [{"a": b"shared", "b": b"also"}, {"a": b"shared"}, {"x": b"shared", "b": b"also"}],
                             [0] * 200 + [1, 2] * 100, "corpus-modified-source", verify=["call", "call", None],
                             hardlink=[True, False, True], modify=[{"a": b"REWRITTEN after staging"}, None, None])
        _register(ctx, out, cases, seen_sched, unknown_total)
        for cls, g in (("base", g_base), ("local", g_local), ("base", g_lost), ("base", g_absent)):
            out = scheduled_case(ctx, cls, two, g, "corpus-verify", verify=["call", None])
            _register(ctx, out, cases, seen_sched, unknown_total)
    while len(seen_sched) < n_sched and time.time() - t_start < budget:
        i += 1
        cls = "local" if rng.random() < 0.6 else "base"
        n = rng.choice([2, 2, 3, 3, 4]) if ctx.tier == "quick" else rng.choice([2, 3, 4, 5, 6, 8])
        wkls = gen_workloads(rng, n, big=(ctx.tier != "quick" and rng.random() < 0.3))
        style, schedule = gen_schedule(rng, n, 60 * n + 100)
        prepop = None
        pool = None
        if i % 8 == 5:
            wkls = with_empty_writers(rng, wkls)
        verify = None
        if VERIFY_STREAM and i % 16 == 9:
            verify = [rng.choice(["call", "call", "store", None]) for _ in range(n)]
            verify[rng.randrange(n)] = "call"
        if i % 16 == 3:
            # the writer's own hashing pool (build's large-file path), completion order perturbed
            wkls = gen_pool_workloads(rng, n)
            pool = gen_pool(rng)
        elif rng.random() < 0.15:
            man = manifest(wkls[0])
            if len(man) > 1:
                k = rng.choice(list(man)[:-1])
            else:
                k = list(man)[0]  # a writer without files: its only object, the empty listing, is already there
            prepop = {k: man[k]}
        hardlink = modify = None
        if i % 16 == 11 and pool is None:
            # hardlink=True writers (with and without verify=True), pristine sources
            hardlink = [rng.random() < 0.6 for _ in range(n)]
            hardlink[rng.randrange(n)] = True
            if VERIFY_STREAM and verify is None and rng.random() < 0.5:
                verify = [rng.choice(["call", None]) for _ in range(n)]
        elif VERIFY_STREAM and i % 16 == 13 and pool is None and prepop is None:
            # one writer (verify=True, hardlink=True) whose SOURCE is rewritten after staging reaches the local
            # store first and runs to completion; then the others, who request the same content from pristine
            # sources.  It must be refused (or harmless); the store must stay correctly named.
            cls = "local"
            wkls = [w for w in gen_workloads(rng, n)]
            rel0 = sorted(files_of(wkls[0]) or {"a": b"shared"})[0]
            wkls[0] = {**files_of(wkls[0]), rel0: files_of(wkls[0]).get(rel0, b"shared") or b"shared"}
            victim = wkls[0][rel0]
            for j in range(1, n):
                if rng.random() < 0.7 or j == 1:
                    wkls[j] = {**wkls[j], "m%d" % j: victim}
            modify = [None] * n
            modify[0] = {rel0: b"rewritten-after-staging-" + bytes([65 + rng.randrange(20)]) * rng.randint(1, 9)}
            verify = ["call"] + [rng.choice(["call", None]) for _ in range(n - 1)]
            hardlink = [True] + [rng.random() < 0.4 for _ in range(n - 1)]
            schedule = [0] * 400 + schedule
            style = "modified-source-first"
        out = scheduled_case(ctx, cls, wkls, schedule, style, prepop, pool, verify, hardlink, modify)
        _register(ctx, out, cases, seen_sched, unknown_total)
    t_trials = time.time() - t_start
    ctx.extra["schedules_distinct"] = len(seen_sched)
    ok_txn = not _STATS.get("multi_txn")
    ctx.obligation("trace:one-transaction-per-add", ok_txn,
                   "every writer issued at most one set_many per add (two adds per staged tree)" if ok_txn else
                   f"{_STATS.get('multi_txn')} trials with more than two set_many transactions by one writer")
    if not ok_txn:
        ctx.broken("correspondence", "trace:one-transaction-per-add",
                   "the state rows of one add are no longer written in a single transaction",
                   case=_STATS.get("multi_txn_case"))
    ctx.extra["scheduled_trials"] = len(cases)
    ctx.obligation("trace:abstraction", not unknown_total,
                   "every file-system mutation under the store root maps to a step of the model"
                   if not unknown_total else f"unmodelled events: {unknown_total[:3]}")
    if unknown_total:
        ctx.broken("correspondence", "trace:abstraction",
                   "the writers issued file-system mutations the step machine does not have",
                   detail=unknown_total[:10])
    # the model: every recorded trace accepted, final store = audited store
    shard = 20 if ctx.tier == "quick" else 100
    t1 = time.time()
    coq_check(ctx, "traces", [(c, t) for c, t, k in cases if t is not None and k == "n"], shard)
    coq_check(ctx, "vtraces", [(c, t) for c, t, k in cases if t is not None and k == "v"], shard,
              ty="vsim_in", fn="enc_vsim_in")
    t2 = time.time()
    # free-running stress
    stress(ctx)
    t3 = time.time()
    nonroot(ctx)
    dims = dict(_STATS.get("dims", {}))
    for k, v in ctx.dist.items():
        if k.startswith(("class:", "writers:", "pool-hashing", "empty-directory", "verify:", "hardlink", "restage",
                         "prepopulated", "source-modified", "nonroot:", "stress:")):
            dims["stream:" + k] = v
    ctx.extra["input_dimensions"] = dict(sorted(dims.items()))
    ctx.extra["observations"] = [
        {"what": "outside C16's quantifier (fault-free writers): a writer whose copy of an object FAILS (injected EIO / "
                 "EACCES; equally a crash) has already run dvc_objects' reflink attempt on the final name (open O_TRUNC "
                 "+ unlink); a complete object another writer placed there is gone and nobody re-creates it, although "
                 "that writer reported success.  Same root cause as the two known probe findings.",
         "minimal_inputs": [
             {"cls": "base", "workloads": [{"a": "shared"}, {"a": "shared"}], "fault": "writer 0, EIO on its copy of md5(shared)",
              "grants": "001111111111100001111111"},
             {"cls": "local", "workloads": [{"a": "shared"}, {"a": "shared"}], "fault": "writer 0, EIO on its copy of md5(shared)",
              "grants": "00011111111111111100001111111111"}],
         "seen_in_this_run": ctx.dist.get("observation:failed-prober-removed-another-writers-object", 0),
         "examples_of_this_run": _STATS.get("obs_fault_cases", []),
         "coq": "C16_observation_failed_prober_loses_object"},
        {"what": "outside C16's statement (workspace data): as root another writer's reflink attempt truncates the inode "
                 "a hard-linked object shares with its SOURCE file in the workspace",
         "minimal_inputs": [{"cls": "local", "workloads": [{"a": "shared"}, {"a": "shared"}], "hardlink": [True, False],
                             "grants": "1111" + "0" * 60 + "1" * 60}],
         "seen_in_this_run": ctx.dist.get("observation:hardlinked-source-file-changed-by-a-probe", 0)},
    ]
    ctx.extra["wall_breakdown_s"] = {"scheduled_trials": round(t_trials, 1), "coq": round(t2 - t1, 1),
                                     "stress": round(t3 - t2, 1), "nonroot": round(time.time() - t3, 1)}
    ctx.obligation("oracle:manifests", not any(v.kind == "oracle" for v in ctx.violations),
                   f"{ctx.evaluations} runs audited against every writer's independently computed manifest")


LOST_SIG = "C16:root:verify-drop-removes-recreated-object"


def classify_fault(steps, faults):
    """{oid}: a complete object placed by ANOTHER writer was truncated / unlinked by the reflink probe of a writer
    whose own copy of that object then failed (the injected fault), so nobody re-created it"""
    full_by, out = {}, set()
    for tid, st in steps:
        k = st[0]
        if k == "Rename":
            full_by[st[2]] = tid
            out.discard(st[2])
        elif k == "Link" and st[1] not in full_by:
            full_by[st[1]] = tid
            out.discard(st[1])
        elif k in ("ProbeOpen", "ProbeUnlink"):
            o = st[1]
            if o in full_by and full_by[o] != tid and tid in faults and faults[tid]["oid"] == o:
                out.add(o)
            full_by.pop(o, None)
        elif k in ("Remove", "VerifyDrop"):
            full_by.pop(st[1], None)
    return out



def classify_verify(steps):
    """boolean classification over the abstracted trace.
    explained = {(w, o)}: writer w's post-add verification READ o while it was the truncated reflink probe of
                another writer (a ProbeOpen by another writer since o's last complete placement);
    lost      = {o}: the remove half of such a check deleted a COMPLETE placement (the prober had re-created o)"""
    state, probers = {}, {}
    explained, lost, touched = set(), set(), set()
    for tid, st in steps:
        k = st[0]
        if k == "Rename":
            state[st[2]] = "full"
            probers[st[2]] = set()
        elif k == "ProbeOpen":
            state[st[1]] = "probe"
            probers.setdefault(st[1], set()).add(tid)
        elif k == "ProbeUnlink":
            state.pop(st[1], None)
            probers.setdefault(st[1], set()).add(tid)
        elif k == "Remove":
            state.pop(st[1], None)
        elif k == "Link":
            if st[1] not in state:  # os.link on an existing name is skipped
                state[st[1]] = "full" if md5hex(st[2]) == st[1].split(".")[0] else "mislinked"
                probers[st[1]] = set()
        elif k == "VerifyBad":
            touched.add((tid, st[1]))
            if state.get(st[1]) == "probe" and probers.get(st[1], set()) - {tid}:
                explained.add((tid, st[1]))
        elif k == "VerifyDrop":
            touched.add((tid, st[1]))
            if state.get(st[1]) == "full":
                lost.add(st[1])
            state.pop(st[1], None)
    return explained, lost, touched


_ABSENT = re.compile(r"writer (\d+): (\S+) is not in the store")


def report_problems(ctx, case, problems, steps, results, free=False):
    """oracle failures of one run.  In a verify=True run each failure is classified on the abstracted trace:
    VERIFY_SIG  a verifying writer reports a file failed whose verification read another writer's truncated
                probe (+ that writer's directory object withheld because of it);
    LOST_SIG    a requested object is absent because the remove half of such a check deleted the re-created,
                complete object;
    anything else keeps its own signature."""
    if not problems:
        return
    faults = {i: o["fault"] for i, o in enumerate(case.get("wopts") or []) if o and o.get("fault")}
    if faults:
        # C16 quantifies over FAULT-FREE writers.  A faulted trial is judged by: no exception but the injected one
        # escapes, the faulted writer reports the failure, every object PRESENT is complete and correctly named,
        # no state row vouches for a wrong object.  That an UNFAULTED writer's object is lost because the failing
        # writer's reflink attempt had already truncated / unlinked it is recorded as an observation.
        destroyed = classify_fault(steps, faults)
        rest = []
        for sig, what in problems:
            m = _ABSENT.search(what)
            if sig == "C16:requested-object-absent" and m and m.group(2) in destroyed:
                ctx.count("observation:failed-prober-removed-another-writers-object")
                _STATS.setdefault("obs_fault_cases", [])
                if len(_STATS["obs_fault_cases"]) < 2:
                    _STATS["obs_fault_cases"].append({"cls": case["cls"], "grants": "".join(map(str, case["schedule"])),
                                                      "absent": m.group(2)})
            else:
                rest.append((sig, what))
        problems = rest
        if not problems:
            return
    if not case.get("verify"):
        for sig, what in problems:
            ctx.oracle_fail(sig, what, case)
        return
    explained, lost, touched = classify_verify(steps)
    if free:
        # the recorded order of racing system calls of free-running threads is not reliable: the writer's own
        # bad verification of that id is the evidence
        explained = explained | touched
        lost = lost | {o for _w, o in touched}
    fails = {int(i): [o for o in r[2]] for i, r in results.items() if r and r[0] == "ok"}

    def known_writer(w):
        files = [o for o in fails.get(w, []) if not o.endswith(".dir")]
        return bool(files) and all((w, o) in explained for o in files)

    for sig, what in problems:
        m = _ABSENT.search(what)
        if sig == "C16:writer-failed:transfer-failed":
            w = int(re.search(r"writer (\d+)", what).group(1))
            if known_writer(w):
                ctx.count("verify:read-a-probe-truncated-object")
                ctx.oracle_fail(
                    VERIFY_SIG,
                    "verify=True, harness running as root: a writer placed an object, another writer's reflink attempt "
                    "(open(final name, O_TRUNC) + unlink in dvc_objects) truncated it, the first writer's post-add "
                    f"check_hash read the empty file and reported the object (and its directory) failed: {what}", case)
                continue
        elif sig == "C16:requested-object-absent" and m:
            w, oid = int(m.group(1)), m.group(2)
            if oid in lost:
                ctx.count("verify:drop-removed-a-recreated-object")
                ctx.oracle_fail(
                    LOST_SIG,
                    "verify=True, harness running as root: HashFileDB.check is read-then-remove; the remove of a "
                    "verification that read another writer's truncated probe ran after that writer had re-created the "
                    f"object and deleted the complete object: {what}", case)
                continue
            if oid.endswith(".dir") and oid in fails.get(w, []) and known_writer(w):
                ctx.oracle_fail(VERIFY_SIG, f"directory object withheld because of the failed file: {what}", case)
                continue
        ctx.oracle_fail(sig, what, case)


def _register(ctx, out, cases, seen_sched, unknown_total):
    case, run_, problems, steps, unknown, objs, leftovers, rows, gh = out
    wkls = unhexwl(case["workloads"])
    key = (gh, json.dumps(case["workloads"], sort_keys=True), case["cls"])
    nontrivial = switches(run_["grants"]) >= 2 and overlap(wkls) >= 1
    ctx.case(case, nontrivial)
    seen_sched.add(hashlib.sha1(repr(key).encode()).hexdigest())
    ctx.count("class:" + case["cls"])
    ctx.count(f"writers:{len(wkls)}")
    ctx.count("style:" + case["style"])
    ctx.count("events", len(run_["grants"]))
    ctx.count("switches", switches(run_["grants"]))
    kinds = {}
    for _tid, s in steps:
        kinds[s[0]] = kinds.get(s[0], 0) + 1
    for k, v in kinds.items():
        if k not in ("VerifyDrop", "VerifyBad", "Link"):
            ctx.count("step:" + k, v)
    if "prepop" in case:
        ctx.count("prepopulated")
    if "pool" in case:
        ctx.count("pool-hashing:scheduled")
    if any(not files_of(wl) for wl in wkls):
        ctx.count("empty-directory-writers:scheduled")
    wopts = case.get("wopts") or [None] * len(wkls)
    # how often the interesting races were actually driven (replayed on the abstract steps)
    present, protected, linked = set(), set(), set()
    for tid, s in steps:
        if s[0] == "Rename":
            present.add(s[2])
            protected.discard(s[2])
        elif s[0] == "Link":
            ctx.count("step:Link")
            if s[1] not in present:
                present.add(s[1])
                linked.add(s[1])
        elif s[0] == "ProbeOpen":
            if s[1] in present and s[1] in linked:
                ctx.count("race:probe-truncates-a-hardlinked-object")
            linked.discard(s[1])
            if s[1] in present:
                ctx.count("race:probe-truncates-a-complete-object")
                if s[1] in protected:
                    ctx.count("race:probe-truncates-a-protected-object")
            present.discard(s[1])
        elif s[0] in ("ProbeUnlink", "Remove"):
            present.discard(s[1])
            protected.discard(s[1])
        elif s[0] == "Chmod" and s[1] in present:
            protected.add(s[1])
        elif s[0] == "ExistsCheck":
            ctx.count("observed-present-and-skipped")
    # set_many is issued as ONE transaction per add: a stage+transfer of one tree has two adds
    # (files of the directory, then the directory object)
    per_writer = {}
    for e in run_["trace"]:
        if e[1] == "state" and e[2] == "many":
            per_writer[e[0]] = per_writer.get(e[0], 0) + 1
    def n_adds(i):
        o = wopts[i] if i < len(wopts) and wopts[i] else {}
        r = o.get("route", "transfer")
        if r == "save":  # the files, then one add per sub-directory
            return len([k for k in requested(wkls[i], o) if k.endswith(".dir")]) + 1
        return {"transfer": 2, "single": 1, "add": 1, "migrate": 1}[r]

    if any(v > n_adds(w) for w, v in per_writer.items()):
        _STATS["multi_txn"] = _STATS.get("multi_txn", 0) + 1
        _STATS.setdefault("multi_txn_case", case)
    report_problems(ctx, case, problems, steps, run_["results"])
    unknown_total.extend(unknown)
    term = None
    prepop = {k: bytes.fromhex(v) for k, v in case.get("prepop", {}).items()}
    wopts = case.get("wopts") or [None] * len(wkls)
    mans = [requested(wl, wopts[i]) for i, wl in enumerate(wkls)]
    injected = {(i, o["fault"]["oid"]) for i, o in enumerate(wopts) if o and o.get("fault")}
    for d in case.get("dims", []):
        _STATS.setdefault("dims", {})
        _STATS["dims"][d] = _STATS["dims"].get(d, 0) + 1
    corrupt_pre = False
    for o, (hx, _m) in case.get("pre_raw", {}).items():
        b = bytes.fromhex(hx)
        if md5hex(b) == o.split(".")[0]:
            prepop[o] = b
        else:
            corrupt_pre = True
    if corrupt_pre:
        # a store that starts with a mismatching / empty leftover is not a state of the model (its initial
        # objects are complete): judged by the oracle only
        ctx.count("not-in-coq:corrupt-pre-existing-object")
        cases.append((case, None, "n"))
        return
    uses_link = any(st[0] == "Link" for _t, st in steps)
    if "hardlink" in case:
        ctx.count("hardlink:scheduled")
    if "modify" in case:
        ctx.count("source-modified-after-staging:scheduled")
    if "verify" in case or "hardlink" in case or injected or uses_link:
        ctx.count("verify:scheduled" if "verify" in case else "hardlink-only:scheduled")
        ctx.count("step:VerifyBad", sum(1 for _t, st in steps if st[0] == "VerifyBad"))
        ctx.count("step:VerifyDrop", sum(1 for _t, st in steps if st[0] == "VerifyDrop"))
        if not unknown:
            failed = {(int(i), o) for i, r in run_["results"].items() if r and r[0] == "ok"
                      for o in r[2] if not o.endswith(".dir")} - injected
            term = vcase_term(case["cls"], wkls, steps, objs, rows, leftovers, failed, prepop, mans)
        cases.append((case, term, "v"))
        return
    if not unknown:
        term = case_term(case["cls"], wkls, steps, objs, rows, leftovers, prepop, mans)
    cases.append((case, term, "n"))


def stress(ctx):
    """free-running: threads in this process, then separate processes; audit only"""
    rng = ctx.rng
    rounds_t = ctx.n(4, 40)
    rounds_p = ctx.n(2, 24)
    for _r in range(rounds_t):
        cls = rng.choice(["local", "base"])
        n = rng.choice([3, 4, 6]) if ctx.tier == "quick" else rng.choice([4, 6, 8])
        pool = None
        if _r % 2 == 0:
            wkls = gen_pool_workloads(rng, n)
            pool = gen_pool(rng)
            ctx.count("pool-hashing:free-threads")
        else:
            wkls = gen_workloads(rng, n, big=True)
            if _r % 4 == 3:
                wkls = with_empty_writers(rng, wkls)
                ctx.count("empty-directory-writers:free-threads")
        verify = None
        if VERIFY_STREAM and _r % 4 == 1:
            verify = [rng.choice(["call", "store"]) for _ in range(n)]
            verify[0] = "call"
            ctx.count("verify:free-threads")
        run_ = run_threads(ctx, cls, wkls, [], free=True, shared_state=rng.random() < 0.7, pool=pool, verify=verify)
        problems, *_ = judge(cls, wkls, run_)
        case = {"cls": cls, "workloads": hexwl(wkls), "mode": "free-threads"}
        if pool:
            case["pool"] = pool
        if verify:
            case["verify"] = verify
            report_problems(ctx, case, problems, abstract(cls, wkls, run_["trace"])[0], run_["results"], free=True)
            problems = []
        ctx.case(case, overlap(wkls) >= 1)
        ctx.count("stress:threads")
        for sig, what in problems:
            ctx.oracle_fail(sig, what, case)
        impl.rm_rf(run_["root"])
    # > 999 files per directory against the shared State, free-running
    wkls = flat_workloads()
    run_ = run_threads(ctx, "base", wkls, [], free=True)
    problems, *_ = judge("base", wkls, run_)
    case = {"cls": "base", "workloads": "flat_workloads()", "mode": "free-threads-flat-1003"}
    ctx.case(case, True)
    ctx.count("stress:flat-1003")
    _STATS.setdefault("dims", {})
    _STATS["dims"]["state:shared-nonempty-more-than-999-keys-in-one-query"] = \
        _STATS["dims"].get("state:shared-nonempty-more-than-999-keys-in-one-query", 0) + 1
    for sig, what in problems:
        ctx.oracle_fail(sig, what, case)
    impl.rm_rf(run_["root"])
    # re-staging against the shared State: every writer stages its tree, rewrites some files in place with other
    # contents of the same size and a modification time in the same whole second, and stages again
    for _r in range(ctx.n(2, 16)):
        cls = rng.choice(["local", "base"])
        n = rng.choice([2, 3, 4])
        v1 = gen_pool_workloads(rng, n)
        v2 = []
        for wl in v1:
            w2 = dict(wl)
            for rel in rng.sample(sorted(wl), rng.randint(1, len(wl))):
                b = wl[rel]
                w2[rel] = bytes([b[0] ^ 1]) + b[1:-1] + bytes([(b[-1] + 1 + rng.randrange(3)) % 256])
            v2.append(w2)
        free = _r % 2 == 0
        schedule = [] if free else gen_schedule(rng, n, 200 * n)[1]
        run_ = run_threads(ctx, cls, v1, schedule, free=free, restage=v2)
        problems, *_ = judge(cls, v2, run_, earlier=v1)
        case = {"cls": cls, "workloads": hexwl(v1), "restage": hexwl(v2), "mode": "restage",
                "schedule": run_["grants"], "free": free}
        ctx.case(case, True)
        ctx.count("restage:" + ("free-threads" if free else "scheduled"))
        for sig, what in problems:
            ctx.oracle_fail(sig, what, case)
        impl.rm_rf(run_["root"])
    for _r in range(rounds_p):
        cls = rng.choice(["local", "base"])
        n = rng.choice([3, 4]) if ctx.tier == "quick" else rng.choice([4, 6])
        pool = None
        if _r % 2 == 0:
            wkls = gen_pool_workloads(rng, n)
            pool = gen_pool(rng)
            ctx.count("pool-hashing:free-processes")
        else:
            wkls = gen_workloads(rng, n, big=True)
            wkls = with_empty_writers(rng, wkls)
            ctx.count("empty-directory-writers:free-processes")
        run_ = run_processes(ctx, cls, wkls, rounds=2, pool=pool)
        problems, *_ = judge(cls, wkls, run_)
        case = {"cls": cls, "workloads": hexwl(wkls), "mode": "free-processes"}
        if pool:
            case["pool"] = pool
        ctx.case(case, overlap(wkls) >= 1)
        ctx.count("stress:processes")
        for sig, what in problems:
            ctx.oracle_fail(sig, what, case)
        impl.rm_rf(run_["root"])


def run_processes(ctx, cls, wkls, rounds=1, pool=None):
    from lib.core import REPO

    root = ctx.fresh("c16p")
    store = os.path.join(root, "store")
    for i, wl in enumerate(wkls):
        mk_ws(os.path.join(root, f"w{i}"), wl)
    env = dict(os.environ, PYTHONPATH=os.path.join(REPO, "src") + os.pathsep + os.path.dirname(os.path.dirname(os.path.abspath(__file__))),
               PYTHONHASHSEED="0", PYTHONDONTWRITEBYTECODE="1")
    go = os.path.join(root, "go")
    pj = json.dumps({"threshold": 0, "jobs": pool.get("jobs"), "delays": pool_delays(root, wkls, pool)}) if pool else ""
    procs = [subprocess.Popen([sys.executable, os.path.abspath(__file__), "worker", cls, root, str(i), str(rounds), go, pj],
                              env=env, stdout=subprocess.PIPE, stderr=subprocess.PIPE, text=True)
             for i in range(len(wkls))]
    # start barrier: every worker has imported everything and waits for the go file
    t0 = time.time()
    while time.time() - t0 < 60 and sum(os.path.exists(os.path.join(root, f"ready{i}")) for i in range(len(wkls))) < len(wkls):
        if any(p.poll() is not None for p in procs):
            break
        time.sleep(0.01)
    with open(go, "w") as f:
        f.write("go")
    results = {}
    for i, p in enumerate(procs):
        try:
            o, e = p.communicate(timeout=120)
        except subprocess.TimeoutExpired:
            p.kill()
            o, e = p.communicate()
            results[i] = ("exc", "Timeout", "")
            continue
        if p.returncode != 0:
            results[i] = ("exc", "ExitCode%d" % p.returncode, e[-300:])
        else:
            try:
                r = json.loads(o.strip().splitlines()[-1])
                results[i] = ("ok", r["oid"], r["failed"])
            except Exception:  # noqa: BLE001
                results[i] = ("exc", "BadOutput", o[-200:])
    return {"trace": [], "grants": [], "results": results, "root": root, "store": store,
            "st_dir": os.path.join(root, "st"), "aborted": False}


def replay_case(ctx, case):
    if case.get("mode") == "free-threads-flat-1003":
        wkls = flat_workloads()
        run_ = run_threads(ctx, case["cls"], wkls, [], free=True)
        problems, objs, leftovers, rows = judge(case["cls"], wkls, run_)
        return {"results": {str(k): v for k, v in run_["results"].items()}, "problems": problems,
                "violates": bool(problems)}
    wkls = unhexwl(case["workloads"])
    cls = case["cls"]
    if case.get("mode") == "free-threads":
        run_ = run_threads(ctx, cls, wkls, [], free=True, pool=case.get("pool"), verify=case.get("verify"))
    elif case.get("mode") == "free-processes":
        run_ = run_processes(ctx, cls, wkls, rounds=2, pool=case.get("pool"))
    elif case.get("mode") == "nonroot":
        return nonroot_case(ctx, case)
    elif case.get("mode") == "restage":
        v2 = unhexwl(case["restage"])
        run_ = run_threads(ctx, cls, wkls, case.get("schedule", []), free=case.get("free", False), restage=v2)
        problems, objs, leftovers, rows = judge(cls, v2, run_, earlier=wkls)
        return {"results": {str(k): v for k, v in run_["results"].items()}, "problems": problems,
                "violates": bool(problems)}
    else:
        prepop = {k: bytes.fromhex(v) for k, v in case.get("prepop", {}).items()} or None
        modify = case.get("modify")
        if modify:
            modify = [None if not m else {k: bytes.fromhex(v) for k, v in m.items()} for m in modify]
        pre_raw = {o: (bytes.fromhex(hx), m) for o, (hx, m) in case.get("pre_raw", {}).items()} or None
        out = scheduled_case(ctx, cls, wkls, case.get("schedule", []), "replay", prepop, case.get("pool"),
                             case.get("verify"), case.get("hardlink"), modify, case.get("wopts"),
                             case.get("state_mode"), pre_raw, case.get("pre_temps"))
        _c, run_, problems, _s, _u, objs, leftovers, rows, _g = out
        return {"results": {str(k): v for k, v in run_["results"].items()}, "problems": problems,
                "store": {o: (len(b), oct(m)) for o, (b, m) in objs.items()}, "leftovers": leftovers,
                "grants": run_["grants"], "violates": bool(problems)}
    problems, objs, leftovers, rows = judge(cls, wkls, run_)
    return {"results": {str(k): v for k, v in run_["results"].items()}, "problems": problems,
            "store": {o: (len(b), oct(m)) for o, (b, m) in objs.items()}, "leftovers": leftovers,
            "grants": run_["grants"], "violates": bool(problems)}


# ----------------------------------------------------------------------------------------------
# non-root scenario: the same scheduler in a forked child that has dropped privileges


NONROOT_UID = 65534
_WARM: list = []


def _nonroot_child(ctx, case, wfd):
    """runs in the forked child as an unprivileged user; writes one JSON line to wfd"""
    out = {}
    try:
        os.setgroups([])
        os.setgid(NONROOT_UID)
        os.setuid(NONROOT_UID)
        os.umask(0o022)
        import dvc_data.hashfile.transfer as tr

        errors = []
        orig_log = tr._log_exception

        def _log(oid, exc):
            errors.append((oid, type(exc).__name__, getattr(exc, "errno", None)))
            return orig_log(oid, exc)

        tr._log_exception = _log
        _STATE.clear()  # never touch the parent's State object
        _STATE["ctx"] = ctx
        _STATE["dir"] = os.path.join(case["_root"], "st-shared")
        wkls = unhexwl(case["workloads"])
        run_ = run_threads(ctx, case["cls"], wkls, case["schedule"], _root=case["_root"])
        problems, objs, leftovers, _rows = judge(case["cls"], wkls, run_)
        out = {"results": {str(k): v for k, v in run_["results"].items()}, "problems": problems,
               "errors": errors, "grants": run_["grants"],
               "store": {o: [len(b), oct(m)] for o, (b, m) in objs.items()}}
    except BaseException as exc:  # noqa: BLE001
        import traceback

        out = {"child_error": repr(exc), "tb": traceback.format_exc()[-1500:]}
    try:
        os.write(wfd, (json.dumps(out, default=str) + "\n").encode())
    finally:
        os._exit(0)


def nonroot_case(ctx, case):
    """fork, drop to uid 65534, run the scheduled writers, audit; returns the child's report"""
    if os.geteuid() != 0:
        return {"skipped": "harness is not root; the ordinary scenarios already run unprivileged"}
    _install()
    if not _WARM:
        # every module the writers import lazily must be loaded before privileges are dropped
        for cls in ("local", "base"):
            scheduled_case(ctx, cls, [{"a": b"warm", "b": b""}, {"a": b"warm"}], [0, 1] * 50, "warm")
        import dvc_data.hashfile.transfer  # noqa: F401
        _WARM.append(1)
    os.chmod(ctx.tmpdir(), 0o755)
    root = ctx.fresh("c16nr")
    os.chmod(root, 0o777)
    case = dict(case, _root=root)
    r, w = os.pipe()
    sys.stdout.flush()
    sys.stderr.flush()
    pid = os.fork()
    if pid == 0:
        os.close(r)
        _nonroot_child(ctx, case, w)
    os.close(w)
    buf = b""
    t0 = time.time()
    import select

    while time.time() - t0 < 120:
        rd, _, _ = select.select([r], [], [], 1.0)
        if rd:
            chunk = os.read(r, 65536)
            if not chunk:
                break
            buf += chunk
    os.close(r)
    try:
        os.kill(pid, 0)
        done, _ = os.waitpid(pid, os.WNOHANG)
        if done == 0:
            os.kill(pid, 9)
            os.waitpid(pid, 0)
    except OSError:
        pass
    subprocess.run(["chmod", "-R", "u+rwX", root], check=False)
    impl.rm_rf(root)
    try:
        rep = json.loads(buf.decode().strip().splitlines()[-1])
    except Exception:  # noqa: BLE001
        return {"child_error": "no report", "raw": buf[-300:].decode(errors="replace")}
    probs = [tuple(p) for p in rep.get("problems", [])]
    eacces = [e for e in rep.get("errors", []) if e[1] == "PermissionError"]
    rep["violates"] = bool(probs)
    rep["eacces"] = eacces
    return rep


NONROOT_SIG = "C16:nonroot:racing-writer-fails-on-protected-object"


def nonroot(ctx):
    """the deterministic probe race + a few seeded schedules, as an unprivileged user"""
    rng = ctx.rng
    todo = [{"cls": "local", "mode": "nonroot",
             # same two contents under different names: same file ids, different directory objects
             "workloads": hexwl([{"a": b"shared", "x": b"also"}, {"a": b"shared", "c": b"also"}]),
             # writer 1: start, status, its three existence checks -> decides "new"; writer 0 runs to the
             # end (places and protects both files); writer 1 then adds: whichever file comes first in
             # its batch is probed at its final name
             "schedule": [1] * 5 + [0] * 80 + [1] * 80}]
    for _ in range(ctx.n(2, 12)):
        n = rng.choice([2, 3])
        todo.append({"cls": rng.choice(["local", "local", "base"]), "mode": "nonroot",
                     "workloads": hexwl(gen_workloads(rng, n)), "schedule": gen_schedule(rng, n, 300)[1]})
    ran = 0
    for case in todo:
        rep = nonroot_case(ctx, case)
        if "skipped" in rep:
            ctx.count("nonroot:skipped")
            return
        if "child_error" in rep:
            ctx.obligation("harness:nonroot", False, str(rep)[:300])
            ctx.broken("correspondence", "harness:nonroot", "the unprivileged child could not run", detail=rep)
            return
        ran += 1
        case = dict(case, schedule=rep.get("grants", case["schedule"]))
        ctx.case(case, True)
        ctx.count("nonroot:" + case["cls"])
        probs = [tuple(p) for p in rep.get("problems", [])]
        if probs:
            kinds = {p[0] for p in probs}
            explained = kinds <= {"C16:writer-failed:transfer-failed", "C16:requested-object-absent"} and rep["eacces"]
            if explained:
                ctx.count("nonroot:racing-writer-failed")
                ctx.oracle_fail(
                    NONROOT_SIG,
                    "as an unprivileged user a writer that decided 'new' before another writer completed and protected "
                    "the same object fails: the reflink attempt opens the final name for writing -> PermissionError; "
                    f"transfer reports it failed and withholds the directory object: {probs[:3]} errors={rep['eacces'][:2]}",
                    case)
            else:
                for sig, what in probs:
                    ctx.oracle_fail(sig.replace("C16:", "C16:nonroot:", 1), what, case)
    ctx.obligation("oracle:nonroot", not any(v.signature.startswith("C16:nonroot") for v in ctx.violations),
                   f"{ran} scheduled runs as uid {NONROOT_UID} audited")


# ----------------------------------------------------------------------------------------------
# worker process (free-running stress): python c16.py worker <cls> <root> <i> <rounds> <gofile>

if __name__ == "__main__" and len(sys.argv) > 1 and sys.argv[1] == "worker":
    import logging

    logging.disable(logging.CRITICAL)
    _cls, _root, _i, _rounds, _go = sys.argv[2], sys.argv[3], int(sys.argv[4]), int(sys.argv[5]), sys.argv[6]
    from lib import impl  # noqa: E402
    from dvc_objects.fs.local import localfs  # noqa: E402

    from dvc_data.hashfile.build import build  # noqa: E402
    from dvc_data.hashfile.state import State  # noqa: E402
    from dvc_data.hashfile.transfer import transfer  # noqa: E402

    _pj = json.loads(sys.argv[7]) if len(sys.argv) > 7 and sys.argv[7] else None
    _kw = {}
    if _pj:
        import dvc_data.hashfile.build as bmod  # noqa: E402

        _o_bf, _o_hash = bmod._build_files, bmod.hash_file

        def _p_bf(root, file_infos, fs, name, **kw):
            kw["large_file_threshold"] = _pj["threshold"]
            return _o_bf(root, file_infos, fs, name, **kw)

        def _p_hash(path, *a, **kw):
            d = _pj["delays"].get(path)
            if d:
                time.sleep(d)
            return _o_hash(path, *a, **kw)

        bmod._build_files, bmod.hash_file = _p_bf, _p_hash
        _kw = {"checksum_jobs": _pj["jobs"]}
    st = State(root_dir=_root, tmp_dir=os.path.join(_root, "st"))
    odb = impl.make_odb(_cls, os.path.join(_root, "store"), state=st)
    with open(os.path.join(_root, f"ready{_i}"), "w") as fh:
        fh.write("1")
    t0 = time.time()
    while not os.path.exists(_go) and time.time() - t0 < 60:
        pass
    failed = []
    oid = None
    for _ in range(_rounds):
        # odd-numbered writers spell their source directory with a trailing separator (a legitimate spelling)
        staging, _meta, obj = build(odb, os.path.join(_root, f"w{_i}") + (os.sep if _i % 2 else ""), localfs, "md5", **_kw)
        res = transfer(staging, odb, {obj.hash_info}, shallow=False)
        oid = obj.oid
        failed += sorted(h.value for h in res.failed)
    st.close()
    print(json.dumps({"oid": oid, "failed": failed}))
    sys.exit(0)
