"""C10 - object checkout converges, is idempotent, honours link types, spares the cache."""

from props import _objcheckout_audit as A
from props import _objcheckout_common as C
from props import _objcheckout_single as S

PROPERTY = "C10"
GEN = ["types", "odiff", "relink", "objcheckout"]
RULE = (
    "(prior, target) pairs over <=5 nested paths (duplicates, empty files, paths only in the prior or only in "
    "the target, user-edited files) with every target object cached and force on x the 3x3 matrix existing "
    "kind (copy/hardlink/symlink, uniform or mixed) x configured link type (single types and fallback lists) "
    "x relink on/off x LocalHashFileDB/HashFileDB x with/without State; every case is followed by a second "
    "call (plain or with the same flags) on the result; plus two-call histories in one process on one workspace "
    "path (forced checkout of a nested target, the user deletes a sub-directory tree / everything / one file, forced "
    "checkout of the same or another nested target through the same or a fresh odb object; or an earlier checkout "
    "while target objects were not yet cached, then fetched; or an earlier checkout under another configured link "
    "type - all ordered pairs - followed by a relinking checkout), each call judged by "
    "the convergence oracle; plus the unforced / missing-object streams of C05 for "
    "cache immutability and the link record.  Non-trivial: the first call changed the workspace or raised."
)
ASSUMPTIONS = [
    "the model and the theorems cover non-empty directory targets whose paths agree in kind with the workspace; single-file targets are judged by the oracle only (harness/props/_objcheckout_single.py)",
    "cache objects are intact (C07), hashes not stale (C13); link types limited to those this file system offers (no reflink)",
    "a hard link of an empty object is a fresh empty file (documented behaviour of dvc_objects)",
    "with a fallback list of link types the code accepts any listed type a file already has; exactness is judged for single types",
]


# design finding 7.7 (repaired by a8647e5): a symlink whose cache object has another hard link must be
# relinked under type hardlink; and the plain 3x3 diagonal
_NEST = {"a": "A", "sub/c": "B", "sub/deep/d": "A"}
CORPUS = [
    # cache relocation: symlinks into the OLD cache whose objects are hard links of ours; a relinking checkout must
    # point them at OUR cache (symlink), or replace them (hardlink / copy)
    *[{"stream": "converge", "cls": cls, "types": [ty], "state": st, "relink": True, "second": "plain", "force": True,
       "prompt": "none", "prior": {"a": ["A", "xsymshare"], "sub/c": ["B", "xsymshare"], "k": ["A", "xsymshare"]},
       "target": {"a": "A", "sub/c": "B", "k": "A"}, "cache": ["A", "B"]}
      for cls, ty, st in (("local", "symlink", False), ("base", "symlink", True), ("local", "hardlink", False), ("base", "copy", False))],
    # relink to independent copies: duplicates hard-linked to each other (not to the cache), base class
    *[{"stream": "converge", "cls": cls, "types": [ty], "state": False, "relink": True, "second": "plain", "force": True,
       "prompt": "none", "prior": {"a": ["A", "wshard"], "sub/c": ["A", "wshard"], "e": ["B", "copy"]},
       "target": {"a": "A", "sub/c": "A", "e": "B"}, "cache": ["A", "B"]}
      for cls, ty in (("base", "copy"), ("local", "copy"), ("base", "hardlink"))],
    # missing -> fetched -> forced checkout -> the next checkout is a no-op (same / re-created odb object)
    *[{"stream": "rehistory", "cls": cls, "types": [ty], "state": st, "relink": False, "second": "plain", "force": True,
       "prompt": "none", "prior": None, "target": dict(_NEST), "cache": ["A", "B"],
       "prelude": {"missing": ["B"], "same_odb": same}}
      for cls, ty, st, same in (("local", "copy", False, True), ("base", "hardlink", True, False), ("local", "symlink", True, True))],
    # link type reconfigured between two checkouts on the same cache and workspace directories: all ordered pairs
    *[{"stream": "rehistory", "cls": cls, "types": [t2], "state": st, "relink": True, "second": "same", "force": True,
       "prompt": "none", "prior": None, "target": dict(_NEST), "cache": ["A", "B"], "prelude": {"types": [t1]}}
      for (t1, t2, cls, st) in (("copy", "symlink", "local", False), ("copy", "hardlink", "base", True),
                                ("symlink", "copy", "local", True), ("symlink", "hardlink", "local", False),
                                ("hardlink", "copy", "base", False), ("hardlink", "symlink", "local", True))],
    # one process, one workspace path: nested target, sub-directories removed by the user, forced checkout again
    {"stream": "rehistory", "cls": "local", "types": ["hardlink"], "state": False, "relink": False, "second": "plain",
     "force": True, "prompt": "none", "prior": None, "target": {"a": "A", "sub/c": "B", "sub/deep/d": "C"},
     "cache": ["A", "B", "C"],
     "call2": {"drop": [], "target": {"a": "A", "sub/c": "B", "sub/deep/d": "C"}, "force": True, "prompt": "none",
               "relink": False, "fresh_odb": True, "user": "rm_subdirs"}},
    {"stream": "rehistory", "cls": "base", "types": ["symlink"], "state": True, "relink": True, "second": "plain",
     "force": True, "prompt": "none", "prior": None, "target": {"sub/c": "B", "sub/e2": "E"}, "cache": ["A", "B", "E"],
     "call2": {"drop": [], "target": {"sub/c": "A", "sub/deep/d": "B"}, "force": True, "prompt": "none",
               "relink": False, "fresh_odb": False, "user": "rm_all"}},
    {"stream": "converge", "cls": "local", "types": ["hardlink"], "state": True, "relink": True, "second": "plain",
     "force": True, "prompt": "none", "prior": {"a": ["A", "symlink"], "b.txt": ["A", "hardlink"]},
     "target": {"a": "A", "b.txt": "A"}, "cache": ["A"]},
    {"stream": "converge", "cls": "base", "types": ["symlink"], "state": False, "relink": True, "second": "same",
     "force": True, "prompt": "none", "prior": {"a": ["A", "copy"], "sub/c": ["B", "hardlink"], "e": ["E", "copy"]},
     "target": {"a": "A", "sub/c": "B", "e": "E"}, "cache": ["A", "B", "E"]},
    {"stream": "converge", "cls": "local", "types": ["copy"], "state": True, "relink": True, "second": "plain",
     "force": True, "prompt": "none", "prior": {"a": ["A", "symlink"], "sub/c": ["B", "hardlink"]},
     "target": {"a": "A", "sub/c": "B", "z y": "A"}, "cache": ["A", "B"]},
]


def run(ctx):
    C.check_deciders(ctx)
    streams = [("converge", ctx.n(70, 650)), ("rehistory", ctx.n(30, 250)), ("guard", ctx.n(15, 120)), ("missing", ctx.n(8, 80))]
    items = C.run_stream(ctx, streams, "C10")
    items.extend(A.run_audit(ctx, "C10"))                   # tools/COVERAGE_AUDIT.md: every dimension, every run
    for case in CORPUS:                                     # regression inputs, always run
        case = dict(case, contents=dict(C.CONTENT_POOL))
        r = C.run_case(ctx, case)
        ctx.case(case, r["nontrivial"])
        for sig, what in r["c10"]:
            ctx.oracle_fail(sig, what, case)
        items.extend(r["items"])
    if C.INCLUDE_DANGLING:
        for tc in C.TRUNCATION_CASES:
            tc = dict(tc, contents=dict(C.CONTENT_POOL))
            r = C.run_case(ctx, tc)
            ctx.case(tc, True)
            for sig, what in r["c10"]:
                ctx.oracle_fail(sig, what, tc)
            items.extend(r["items"])
    ctx.obligation("oracle:converges-idempotent-linktypes-cache", not any(v.kind == "oracle" for v in ctx.violations),
                   f"{len(items)} real checkouts judged (walk = target, second call None, link kinds, cache bytes, link record)")
    ctx.correspond("checkout", C.IMPORTS, "co_in", "fun i => enc_result (run_in i)", items, shard=60)
    S.run_singles(ctx, ctx.n(30, 300))


def replay_case(ctx, case):
    if case.get("single"):
        return S.replay(ctx, case)
    return C.replay(ctx, case, "C10")
