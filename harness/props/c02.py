"""C02 - stage -> store -> checkout round trip reproduces the data exactly."""

import os
import stat

from lib import impl
from lib.core import cbytes, clist, cpair, vB, vL, vN

PROPERTY = "C02"
GEN: list = ["dbadd"]  # Gen/DbAdd.v: HashFileDB.add / add_update_tree decisions, tied to the store step by Proofs/RoundTripTie.v
RULE = (
    "random directory trees (quick: depth<=4, <=14 files; thorough: depth<=6, <=60 files) with empty "
    "directories (also nested), duplicate contents, empty files, NUL, CR LF, and names drawn from a pool "
    "with spaces, quotes, backslashes, newline/tab, DEL, '.dir'-suffixed and dot names, non-BMP "
    "characters, combining marks; each tree is staged + transferred + reloaded + checked out through the "
    "object level and built + md5'd + saved + compared + applied through the index level, under store "
    "class x link type x State configurations (quick: a seeded subset of the 12, thorough: all), with a "
    "trailing '/' on the staged path in a fraction of the runs; single files likewise. Malformed stream: "
    "a '.dvcignore' inside the tree, a listed object / the directory object removed before checkout. "
    "Store histories before the full transfer (destination not empty): the directory object alone "
    "transferred first (default shallow transfer), or a complete transfer from which 1-4 file objects "
    "were deleted; then transfer(shallow=False), reload, object-level checkout and index-level apply of "
    "the stored directory entry. Re-stage history (80% with a State): every source mtime set to T+0.1 s, "
    "stage + transfer v1, rewrite 1-2 files (in place same length with mtime T+0.6 s in the same integer "
    "second / T+2.1 s / atomic replace / resize; mtimes set by os.utime(ns=), no wall clock), stage v2 with "
    "the same State into the same odb, transfer, object-level checkout and index-level round trip must "
    "equal the CURRENT source; half of these histories move contents between paths (P rewritten, a new "
    "path Q holds P's former bytes) and/or delete all / the moved objects from the store and re-create the "
    "odb object on the same store path between the two builds (one process, same store location); the store "
    "oracle re-hashes every object. Linked-checkout history (both store classes, symlink / hardlink, some copy; "
    "4 fixed + 4 quick / 16 thorough generated): round-trip a tree, check it out with the store's link type, add "
    "one regular file to the checkout, stage + transfer the checkout into the SAME store; after the transfer every "
    "object that was in the store must still be there with the same bytes, the workspace unchanged, the transfer "
    "without failures, and the old and the new tree must both check out byte-identically (object and index level). "
    "Input-space audit streams, every run, on one fixed 6-file tree: 29 forced object-level flag vectors (hardlink x "
    "verify per call and store default, jobs, force x relink, quiet, link types singly and as fallback lists, State "
    "none / real / shared, upload=True, staging class != final class, non-default callbacks, obj_name label) and 16 "
    "index-level ones (save jobs/hardlink/verify, compare relink/delete, apply update_meta/jobs/links, root-key () "
    "directory entry), plus sampled vectors in thorough; 12 kinds of pre-existing destination content x link type "
    "for checkout(force=True); a second round trip (rebuild from the checkout gives the same id) per tree. "
    "Oracle-only stream: trees with 2-4 files above the 1 MiB large-file threshold (thread-pool hashing). "
    "A case is non-trivial when the tree has >= 2 files in >= 2 directories or exercises an error."
)
ASSUMPTIONS = [
    "default algorithm md5 (md5-dos2unix merges CR LF / LF twins by design and is not exercised)",
    "file names are valid Unicode (no lone surrogates: those make the SQLite-backed State raise), non-empty, '/'-free",
    "os.walk visits every directory it lists (no symlinked directories, broken links or permission errors in the source)",
    "reflink is not offered by this file system; link types exercised: copy, hardlink, symlink",
    "the walk order of the source directory is observed with os.walk and handed to the model as an argument",
    "staging in the model is cache-free (it hashes the bytes that are there now): C02 claims, and checks on runs with a "
    "real State incl. re-staging after rewrites, that the hash-state cache is transparent; the cache's own soundness "
    "theorem is C13's. A rewrite that restores the exact previous (inode, mtime, size) is outside the claim (by design)",
]

IMPORTS = "From Coq Require Import NArith List.\nFrom DvcData Require Import Model.Listing Model.RoundTrip."

NAME_POOL = [
    "caf\u00e9.txt", "cafe\u0301.txt", "\u00c5", "a", "b", "c", "dir", "data", "x.dir", "f.txt", "with space", " lead", "trail ", "q\"uote", "it's",
    "back\\slash", "\\", "\"", "tab\there", "new\nline", "cr\rlf", "\x7f", "\x01", "..x", ".hidden", "...",
    "\u00e9", "e\u0301", "\u0301", "\U0001f600", "a\U0001f600b", "\ud55c\uae00", "\ufeffbom", "\u202e",
    "\U0010ffff", "\uffff", "\u0041\u030a", "\u212b", "md5", "relpath", "[", "{\"md5\": 1}", "%s", "~", "*", "-",
    "0123456789abcdef0123456789abcdef.dir",
]
CONTENT_POOL = [
    b"", b"", b"x", b"same", b"same", b"\x00", b"\x00\x00\x00", b"a\r\nb\r\n", b"a\nb\n", b"\r\n", b"\n",
    b"\xff\xfe", b"[]", b'[{"md5": "d41d8cd98f00b204e9800998ecf8427e", "relpath": "a"}]', b"hello world",
    bytes(range(64)), b"z" * 55, b"z" * 56, b"z" * 64, b"q" * 130,
]
LINKS = ["copy", "hardlink", "symlink"]
CONFIGS = [(c, l, s) for c in ("local", "base") for l in LINKS for s in (False, True)]


# ------------------------------------------------------------------ generator

def gen_tree(rng, max_depth, max_files, max_empty):
    """returns (files {rel: bytes}, dirs: all directories as sorted rel list (empty ones included))"""
    pool = rng.sample(NAME_POOL, rng.randint(3, 9))
    nfiles = rng.choice([0, 1, 1, 2, 3, 4, 6, 9, max_files, max_files])
    files, dirs = {}, set()

    def conflicts(parts):
        rel = "/".join(parts)
        if rel in files or rel in dirs:
            return True
        return any("/".join(parts[:i]) in files for i in range(1, len(parts)))

    tries = 0
    contents = rng.sample(CONTENT_POOL, rng.randint(1, 6))
    while len(files) < nfiles and tries < 400:
        tries += 1
        depth = rng.randint(1, max_depth)
        parts = [rng.choice(pool) for _ in range(depth)]
        if conflicts(parts):
            continue
        for i in range(1, depth):
            dirs.add("/".join(parts[:i]))
        r = rng.random()
        if r < 0.7:
            data = rng.choice(contents)
        elif r < 0.9:
            data = rng.randbytes(rng.choice([1, 7, 16, 33, 63, 65]))
        else:
            data = rng.choice([b"a\r\n", b"\x00", b"dup"]) * rng.randint(1, 20)
        files["/".join(parts)] = data
    for _ in range(rng.randint(0, max_empty)):
        depth = rng.randint(1, max_depth)
        parts = [rng.choice(pool) for _ in range(depth)]
        if conflicts(parts) and "/".join(parts) not in dirs:
            continue
        if any("/".join(parts[:i]) in files for i in range(1, depth + 1)):
            continue
        for i in range(1, depth + 1):
            dirs.add("/".join(parts[:i]))
    return files, sorted(dirs)


def make_source(src, files, dirs):
    impl.mk_tree(src, files)
    for d in dirs:
        os.makedirs(os.path.join(src, *d.split("/")), exist_ok=True)


def observe_walk(src):
    """what os.walk hands to _build_tree: [(root string, [(fname, bytes)])] in walk order"""
    out = []
    for root, _dirs, fnames in os.walk(src):
        fl = []
        for n in fnames:
            with open(os.path.join(root, n), "rb") as f:
                fl.append((n, f.read()))
        out.append((root, fl))
    return out


def walk_term(walk):
    return clist([cpair(cbytes(r), clist([cpair(cbytes(n), cbytes(b)) for n, b in fl])) for r, fl in walk])


def ancestors(rels):
    out = set()
    for rel in rels:
        parts = rel.split("/")
        for i in range(1, len(parts)):
            out.add("/".join(parts[:i]))
    return out


# ------------------------------------------------------------------ val helpers

def v_jval(x):
    if isinstance(x, bool):
        return vL([vN(2), vN(1 if x else 0)])
    if isinstance(x, int):
        return vL([vN(1), vN(x)])
    return vL([vN(0), vB(x)])


def v_store(store):
    return vL([vL([vB(o), vB(b)]) for o, (b, _m) in sorted(store.items())])


def v_fsmap(files):
    return vL([vL([vB(r), vB(b)]) for r, b in sorted(files.items())])


def v_dirs(dirs):
    return vL([vB(d) for d in sorted(set(dirs))])


def v_tree(entries):
    """entries: [(key tuple, meta dict or None, (name, value) or None)] in dict order"""
    out = []
    for key, md, hi in entries:
        mv = vL([]) if md is None else vL([vL([vL([vB(k), v_jval(v)]) for k, v in sorted(md.items())])])
        hv = vL([]) if hi is None else vL([vL([vB(hi[0]), vB(hi[1])])])
        out.append(vL([vL([vB(p) for p in key]), mv, hv]))
    return vL(out)


def v_keyhash(entries):
    return vL([vL([vL([vB(p) for p in key]),
                   vL([]) if hi is None else vL([vL([vB(hi[0]), vB(hi[1])])])]) for key, hi in entries])


# ------------------------------------------------------------------ real-code drivers

class Env:
    """one store configuration in a scratch directory"""

    def __init__(self, ctx, cfg):
        from dvc_data.hashfile.state import State

        self.cls, self.link, self.with_state = cfg
        self.dir = ctx.fresh("env")
        self.state = None
        if self.with_state:
            self.state = State(root_dir=self.dir, tmp_dir=os.path.join(self.dir, "state"))
        self._n = 0

    def odb(self):
        self._n += 1
        path = os.path.join(self.dir, f"odb{self._n}")
        kw = {"type": [self.link]}
        if self.state is not None:
            kw["state"] = self.state
        return path, impl.make_odb(self.cls, path, **kw)

    def reopen(self, path):
        """a new odb object on a store location that was used before"""
        kw = {"type": [self.link]}
        if self.state is not None:
            kw["state"] = self.state
        return impl.make_odb(self.cls, path, **kw)

    def out(self):
        self._n += 1
        return os.path.join(self.dir, f"out{self._n}")

    def close(self):
        if self.state is not None:
            self.state.close()
        impl.rm_rf(self.dir)


def tree_entries(tree):
    out = []
    for key, meta, hi in tree:
        md = None if meta is None else meta.to_dict()
        h = None if hi is None else (hi.name or "", hi.value or "")
        out.append((tuple(key), md, h))
    return out


def link_kind(path):
    st = os.lstat(path)
    if stat.S_ISLNK(st.st_mode):
        return "symlink"
    return "hardlink" if st.st_nlink > 1 else "copy"


def run_obj(env, src, stage_path, remove=None, idem=False):
    """object level: build + transfer + load + checkout. Returns an observation dict."""
    from dvc_objects.fs.local import localfs

    from dvc_data.hashfile import load
    from dvc_data.hashfile.build import IgnoreInCollectedDirError, build
    from dvc_data.hashfile.checkout import CheckoutError, checkout
    from dvc_data.hashfile.transfer import transfer

    odb_path, odb = env.odb()
    obs = {}
    try:
        staging, meta, obj = build(odb, stage_path, localfs, "md5")
    except IgnoreInCollectedDirError:
        return {"err": 20}
    transfer(staging, odb, {obj.hash_info}, shallow=False)
    obs["oid"] = obj.hash_info.value
    obs["hash_name"] = obj.hash_info.name
    obs["meta"] = meta.to_dict()
    obs["built"] = [(k, h) for k, _m, h in tree_entries(obj)]
    obs["store"] = impl.walk_store(odb_path)
    if remove:
        for oid in remove(obs):
            p = os.path.join(odb_path, oid[:2], oid[2:])
            os.chmod(p, 0o644)
            os.unlink(p)
        # a fresh odb object: no memoised existence information
        odb = impl.make_odb(env.cls, odb_path, type=[env.link])
    out = env.out()
    try:
        loaded = load(odb, obj.hash_info)
        obs["loaded"] = tree_entries(loaded)
        checkout(out, localfs, loaded, odb, state=env.state)
        obs["co_err"] = None
    except CheckoutError:
        obs["co_err"] = 5
    except FileNotFoundError:
        obs["co_err"] = 2
    if obs["co_err"] is None:
        obs["out_files"] = impl.walk_files(out)
        obs["out_dirs"] = impl.walk_dirs(out)
        obs["out_exists"] = os.path.isdir(out)
        obs["links"] = sorted({link_kind(os.path.join(out, *r.split("/"))) for r in obs["out_files"]})
        if idem:
            # second round trip: rebuilding from the checked-out location gives the same object and Meta
            _st2, meta2, obj2 = build(odb, out, localfs, "md5")
            obs["idem"] = (obj2.hash_info.value == obs["oid"] and meta2.to_dict() == obs["meta"]
                           and impl.walk_files(out) == obs["out_files"])
    return obs


def run_hist(env, src, kind, pick):
    """a destination store with a pre-history, then the full transfer and the round trip.
    kind 'shallow': the directory object alone was transferred first (default shallow transfer);
    kind 'lost': a complete transfer, then the file objects chosen by `pick` are deleted."""
    from dvc_objects.fs.local import localfs

    from dvc_data.hashfile import load
    from dvc_data.hashfile.build import build
    from dvc_data.hashfile.checkout import CheckoutError, checkout
    from dvc_data.hashfile.meta import Meta
    from dvc_data.hashfile.transfer import transfer
    from dvc_data.index import DataIndex, DataIndexEntry, ObjectStorage
    from dvc_data.index.checkout import apply, compare

    odb_path, odb = env.odb()
    staging, _meta, obj = build(odb, src, localfs, "md5")
    obs = {"oid": obj.hash_info.value, "gone": []}
    if kind == "shallow":
        first = transfer(staging, odb, {obj.hash_info})
    else:
        first = transfer(staging, odb, {obj.hash_info}, shallow=False)
        file_oids = sorted(o for o in impl.walk_store(odb_path) if not o.endswith(".dir"))
        obs["gone"] = sorted({file_oids[i % len(file_oids)] for i in pick}) if file_oids else []
        for oid in obs["gone"]:
            odb.delete(oid)
    obs["pre_failed"] = len(first.failed)
    obs["pre_store"] = impl.walk_store(odb_path)
    result = transfer(staging, odb, {obj.hash_info}, shallow=False)
    obs["failed"] = len(result.failed)
    obs["store"] = impl.walk_store(odb_path)
    out = env.out()
    try:
        checkout(out, localfs, load(odb, obj.hash_info), odb, state=env.state)
        obs["co_err"] = None
        obs["out_files"] = impl.walk_files(out)
        obs["out_dirs"] = impl.walk_dirs(out)
    except CheckoutError:
        obs["co_err"] = 5
    except FileNotFoundError:
        obs["co_err"] = 2
    # index level: an index that holds only the directory entry of the stored object
    idx = DataIndex({("data",): DataIndexEntry(key=("data",), meta=Meta(isdir=True), hash_info=obj.hash_info)})
    idx.storage_map.add_cache(ObjectStorage((), odb))
    out2 = env.out()
    os.makedirs(out2)
    failures = []
    apply(compare(None, idx), out2, localfs, state=env.state, onerror=lambda *a: failures.append(a))
    obs["idx_failed"] = len(failures)
    obs["idx_files"] = impl.walk_files(os.path.join(out2, "data")) if os.path.isdir(os.path.join(out2, "data")) else {}
    return obs


def hist_case(ctx, case, files, src, walk, items_hist):
    kind, pick = case["history"]["kind"], case["history"].get("pick", [])
    cfg = tuple(case["history"]["config"])
    one = {k: v for k, v in case.items() if k not in ("configs", "remove")}
    env = Env(ctx, cfg)
    try:
        obs = run_hist(env, src, kind, pick)
    except Exception as exc:  # noqa: BLE001
        ctx.oracle_fail(f"C02:history-exception:{type(exc).__name__}",
                        f"round trip after the store history '{kind}' raised {type(exc).__name__}: {exc}", one)
        return
    finally:
        env.close()
    ctx.count("history:" + kind)
    dim(ctx, "flag(obj): shallow=True transfer first" if kind == "shallow" else "history: object lost, re-transfer")
    if obs["failed"] or obs["pre_failed"]:
        # an honest failure report is not a violation of the round trip (never seen: local stores)
        ctx.count("history:transfer-reported-failure")
        return
    truth = {impl.md5hex(b) for b in files.values()}
    absent = sorted(truth - set(obs["store"]))
    if absent:
        ctx.oracle_fail("C02:store-incomplete-after-full-transfer",
                        f"history '{kind}': the full transfer reported success but the store lacks {absent}", one)
    if obs["co_err"] is not None:
        ctx.oracle_fail("C02:history-checkout-failed",
                        f"history '{kind}': checkout of the completed store failed with code {obs['co_err']}", one)
    elif obs["out_files"] != files or set(obs["out_dirs"]) != ancestors(files):
        ctx.oracle_fail("C02:history-roundtrip", f"history '{kind}': the checked-out tree differs from the source", one)
    if obs["idx_failed"] or obs["idx_files"] != files:
        ctx.oracle_fail("C02:history-idx-roundtrip",
                        f"history '{kind}': index-level apply of the stored directory differs "
                        f"({obs['idx_failed']} failures reported)", one)
    if obs["co_err"] is None:
        co = vL([vN(1), vL([v_fsmap(obs["out_files"]), v_dirs(obs["out_dirs"])])])
    else:
        co = vL([vN(0), vN(obs["co_err"])])
    exp = vL([vN(1), vB(obs["oid"]), v_store(obs["pre_store"]), v_store(obs["store"]), co])
    inp = cpair(cpair(cbytes(src), walk_term(walk)),
                cpair("0" if kind == "shallow" else "1", clist([cbytes(g) for g in obs["gone"]])))
    items_hist.append((one, inp, exp))


def dim(ctx, name, k=1):
    d = ctx.extra.setdefault("input_dimensions", {})
    d[name] = d.get(name, 0) + k


def tree_dimensions(ctx, files, dirs, configs):
    """COVERAGE_AUDIT sections 1-3: which name / shape dimensions this tree has"""
    import unicodedata

    names = {p for r in list(files) + list(dirs) for p in r.split("/")}
    alldirs = set(dirs) | ancestors(files)
    children = {}
    for r in list(files) + list(alldirs):
        children.setdefault(r.rsplit("/", 1)[0] if "/" in r else "", set()).add(r)
    has = []
    if any("\\" in n for n in names):
        has.append("name: backslash")
    if any(" " in n for n in names):
        has.append("name: space")
    if any(n.startswith(".") for n in names):
        has.append("name: leading dot")
    if any(any("\u0400" <= c <= "\u04ff" for c in n) for n in names):
        has.append("name: Cyrillic")
    if any(any("\u4e00" <= c <= "\u9fff" or "\uac00" <= c <= "\ud7a3" for c in n) for n in names):
        has.append("name: CJK")
    if any(any(ord(c) >= 0x10000 for c in n) for n in names):
        has.append("name: non-BMP / emoji")
    nfc = {unicodedata.normalize("NFC", n) for n in names}
    if any(unicodedata.normalize("NFC", n) != n for n in names):
        has.append("name: not NFC")
    for kids in children.values():
        base = [k.rsplit("/", 1)[-1] for k in kids]
        if len({unicodedata.normalize("NFC", b) for b in base}) < len(base):
            has.append("name: NFC twins in one directory")
        if len({b.lower() for b in base}) < len(base):
            has.append("name: case twins in one directory")
        if any(a != b and b.startswith(a) for a in base for b in base):
            has.append("name: sibling is a string prefix of another")
    del nfc
    if any(n.endswith(".dir") for r in files for n in [r.rsplit("/", 1)[-1]]):
        has.append("name: file ending in .dir")
    if any(d.rsplit("/", 1)[-1].endswith(".dir") for d in alldirs):
        has.append("name: directory ending in .dir")
    if any(len(n) == 1 for n in names):
        has.append("name: 1 char")
    if any(len(n) >= 200 for n in names):
        has.append("name: >= 200 chars")
    if not files:
        has.append("shape: empty listing []")
    for d in alldirs:
        kids = children.get(d, set())
        below = [f for f in files if f.startswith(d + "/")]
        if not below and kids:
            has.append("shape: directory holding only empty sub-directories")
        if not kids:
            has.append("shape: empty directory")
        if len([k for k in kids if k in files]) == 1 and len(kids) == 1:
            has.append("shape: directory with one file")
        if below and kids and not any(k in files for k in kids) and d.count("/") >= 1:
            has.append("shape: intermediate directory holding only sub-directories")
    if any(r.count("/") >= 3 for r in files):
        has.append("shape: depth >= 4")
    by = {}
    for r, b in files.items():
        by.setdefault(b, []).append(r.rsplit("/", 1)[0] if "/" in r else "")
    if any(len(v) != len(set(v)) for v in by.values()):
        has.append("shape: identical contents in one directory")
    if any(len(set(v)) > 1 for v in by.values()):
        has.append("shape: identical contents across directories")
    if any(b == b"" for b in files.values()):
        has.append("shape: zero-length file")
        if any(c[1] == "hardlink" for c in configs):
            has.append("shape: zero-length file under hardlink type")
        if any(c[1] == "symlink" for c in configs):
            has.append("shape: zero-length file under symlink type")
    for h in sorted(set(has)):
        dim(ctx, h)


# ------------------------------------------------------------------ COVERAGE_AUDIT section 4: flags
AUDIT_TREE = {"a": b"x", "d/b": b"x", "d/c": b"x", "d/e/f": b"", "d/g": b"hello", "h/i/j/k": b"deep\r\n"}
AUDIT_DIRS = ["d", "d/e", "h", "h/i", "h/i/j", "hollow", "hollow/e1"]

OBJ_FLAG_DEFAULT = {"cls": "local", "final_cls": None, "types": ["copy"], "odb_verify": None, "upload": False,
                    "checksum_jobs": None, "t_jobs": None, "t_verify": False, "t_hardlink": False,
                    "co_force": False, "co_relink": False, "co_quiet": False, "state": "none", "callback": False,
                    "obj_name": False}
OBJ_FLAG_VECTORS = [
    {},                                                                     # every default
    {"t_hardlink": True}, {"t_verify": True}, {"t_hardlink": True, "t_verify": True},       # hardlink x verify
    {"odb_verify": True}, {"odb_verify": True, "t_hardlink": True}, {"odb_verify": False, "t_verify": True},
    {"t_jobs": 1, "checksum_jobs": 1}, {"t_jobs": 3, "checksum_jobs": 4},                   # batch boundaries (6 files)
    {"co_force": True}, {"co_relink": True}, {"co_relink": True, "co_force": True}, {"co_quiet": True},
    {"types": ["hardlink"]}, {"types": ["symlink"]},
    {"types": ["reflink", "copy"]}, {"types": ["reflink", "hardlink", "symlink", "copy"]}, {"types": ["symlink", "copy"]},
    {"types": ["hardlink"], "co_relink": True, "state": "real"},
    {"state": "real"}, {"state": "shared"}, {"state": "shared", "cls": "base"},
    {"upload": True}, {"upload": True, "cls": "base", "state": "real"},
    {"cls": "local", "final_cls": "base"}, {"cls": "base", "final_cls": "local", "types": ["symlink"]},
    {"callback": True}, {"obj_name": True}, {"cls": "base", "t_hardlink": True, "types": ["hardlink"]},
]
IDX_FLAG_DEFAULT = {"cls": "local", "types": ["copy"], "save_jobs": None, "save_hardlink": False, "save_verify": None,
                    "cmp_relink": False, "cmp_delete": False, "update_meta": True, "apply_jobs": None,
                    "apply_links": None, "state": "none", "root_entry": False}
IDX_FLAG_VECTORS = [
    {}, {"save_jobs": 2, "apply_jobs": 2}, {"save_hardlink": True}, {"save_verify": True},
    {"save_hardlink": True, "save_verify": True}, {"cmp_relink": True}, {"cmp_delete": True},
    {"cmp_relink": True, "cmp_delete": True}, {"update_meta": False}, {"apply_links": ["hardlink", "copy"]},
    {"apply_links": ["symlink"]}, {"types": ["reflink", "symlink", "copy"]}, {"cls": "base", "state": "real"},
    {"state": "shared"}, {"root_entry": True}, {"root_entry": True, "types": ["hardlink"], "cls": "base"},
]


class _SharedState:
    st = None


def _state_for(ctx, env_dir, kind):
    from dvc_data.hashfile.state import State

    if kind == "none":
        return None, False
    if kind == "real":
        return State(root_dir=env_dir, tmp_dir=os.path.join(env_dir, "state")), True
    if _SharedState.st is None:        # one State object shared by every "shared" vector of this run
        d = ctx.fresh("shared-state")
        _SharedState.st = State(root_dir=d, tmp_dir=os.path.join(d, "state"))
    return _SharedState.st, False


def audit_expected_store(files):
    """independent of dvc_data: {oid: bytes} of the file objects and the directory object"""
    exp = {impl.md5hex(b): b for b in files.values()}
    lst = impl.canon_listing([(r, impl.md5hex(b)) for r, b in files.items()])
    exp[impl.md5hex(lst) + ".dir"] = lst
    return exp


def obj_flag_case(ctx, vec, src, files):
    import fsspec.callbacks
    from dvc_objects.fs.local import localfs

    from dvc_data.hashfile import load
    from dvc_data.hashfile.build import build
    from dvc_data.hashfile.checkout import checkout
    from dvc_data.hashfile.hash_info import HashInfo
    from dvc_data.hashfile.transfer import transfer

    v = {**OBJ_FLAG_DEFAULT, **vec}
    case = {"audit": "object-level flags", "flags": vec}
    d = ctx.fresh("flags")
    state, own = _state_for(ctx, d, v["state"])
    try:
        cfg = {"type": list(v["types"])}
        if v["odb_verify"] is not None:
            cfg["verify"] = v["odb_verify"]
        if state is not None:
            cfg["state"] = state
        odb = impl.make_odb(v["cls"], os.path.join(d, "odb"), **cfg)
        dest_path = os.path.join(d, "odb" if v["final_cls"] is None else "odb-final")
        dest = odb if v["final_cls"] is None else impl.make_odb(v["final_cls"], dest_path, **cfg)
        cb = {}
        if v["callback"]:
            class Count(fsspec.callbacks.Callback):
                pass
            cb = {"b": Count(), "t": Count(), "c": Count()}
        bkw = {k: x for k, x in (("upload", v["upload"]), ("checksum_jobs", v["checksum_jobs"])) if x}
        if cb:
            bkw["callback"] = cb["b"]
        staging, meta, obj = build(odb, src, localfs, "md5", **bkw)
        hi = obj.hash_info
        if v["obj_name"]:
            hi = HashInfo(hi.name, hi.value, obj_name="data/dir-label")
        tkw = {"shallow": False, "verify": v["t_verify"], "hardlink": v["t_hardlink"]}
        if v["t_jobs"]:
            tkw["jobs"] = v["t_jobs"]
        if cb:
            tkw["callback"] = cb["t"]
        res = transfer(staging, dest, {hi}, **tkw)
        out = os.path.join(d, "out")
        ckw = {"force": v["co_force"], "relink": v["co_relink"], "quiet": v["co_quiet"], "state": state}
        if cb:
            ckw["progress_callback"] = cb["c"]
        checkout(out, localfs, load(dest, hi), dest, **ckw)
        got, got_dirs = impl.walk_files(out), impl.walk_dirs(out)
        store = {o: b for o, (b, _m) in impl.walk_store(dest_path).items()}
        md = meta.to_dict()
        if res.failed:
            ctx.oracle_fail("C02:flags-transfer-failed", f"flags {vec}: transfer reported failures", case)
        if got != files or set(got_dirs) != ancestors(files):
            ctx.oracle_fail("C02:flags-obj-roundtrip", f"flags {vec}: the checked-out tree differs from the source", case)
        if store != audit_expected_store(files):
            ctx.oracle_fail("C02:flags-store", f"flags {vec}: the store is not exactly the files' and the listing's "
                            f"objects under their md5 names", case)
        if md.get("nfiles") != len(files) or md.get("size") != sum(len(b) for b in files.values()):
            ctx.oracle_fail("C02:flags-meta", f"flags {vec}: Meta {md}", case)
        if impl.walk_files(src) != files:
            ctx.oracle_fail("C02:flags-source-damaged", f"flags {vec}: the source tree changed", case)
    except Exception as exc:  # noqa: BLE001
        ctx.oracle_fail(f"C02:flags-exception:{type(exc).__name__}",
                        f"object-level round trip with flags {vec} raised {type(exc).__name__}: {exc}", case)
    finally:
        if own:
            state.close()
        impl.rm_rf(d)
    for k, x in v.items():
        if x != OBJ_FLAG_DEFAULT[k] or not vec:
            dim(ctx, f"flag(obj): {k}={x}")
    if v["t_hardlink"] and (v["t_verify"] or v["odb_verify"]):
        dim(ctx, "flag pair(obj): hardlink x verify")
    if v["co_relink"] and v["co_force"]:
        dim(ctx, "flag pair(obj): relink x force")
    if len(v["types"]) > 1:
        dim(ctx, "flag(obj): link types as a fallback list")
    if v["final_cls"] and v["final_cls"] != v["cls"]:
        dim(ctx, "flag(obj): staging store class != final store class")
    ctx.case(case, True)


def idx_flag_case(ctx, vec, src, files, dirs):
    from dvc_objects.fs.local import localfs

    from dvc_data.hashfile.build import build as obuild
    from dvc_data.hashfile.meta import Meta
    from dvc_data.hashfile.transfer import transfer
    from dvc_data.index import DataIndex, DataIndexEntry, ObjectStorage, build, md5, save
    from dvc_data.index.checkout import apply, compare

    v = {**IDX_FLAG_DEFAULT, **vec}
    case = {"audit": "index-level flags", "flags": vec}
    d = ctx.fresh("iflags")
    state, own = _state_for(ctx, d, v["state"])
    try:
        cfg = {"type": list(v["types"])}
        if state is not None:
            cfg["state"] = state
        odb_path = os.path.join(d, "odb")
        odb = impl.make_odb(v["cls"], odb_path, **cfg)
        if v["root_entry"]:
            # a directory entry at the ROOT key (): the stored object applied as the whole target
            staging, _m, obj = obuild(odb, src, localfs, "md5")
            transfer(staging, odb, {obj.hash_info}, shallow=False)
            idx = DataIndex({(): DataIndexEntry(key=(), meta=Meta(isdir=True), hash_info=obj.hash_info)})
            want_dirs = ancestors(files)
        else:
            idx = md5(build(src, localfs), state=state)
            skw = {k: x for k, x in (("jobs", v["save_jobs"]), ("hardlink", v["save_hardlink"])) if x}
            if v["save_verify"] is not None:
                skw["verify"] = v["save_verify"]
            save(idx, odb=odb, **skw)
            want_dirs = set(dirs)
        idx.storage_map.add_cache(ObjectStorage((), odb))
        out = os.path.join(d, "out")
        fails = []
        akw = {"update_meta": v["update_meta"], "state": state, "onerror": lambda *a: fails.append(a)}
        if v["apply_jobs"]:
            akw["jobs"] = v["apply_jobs"]
        if v["apply_links"]:
            akw["links"] = list(v["apply_links"])
        apply(compare(None, idx, relink=v["cmp_relink"], delete=v["cmp_delete"]), out, localfs, **akw)
        got, got_dirs = impl.walk_files(out), impl.walk_dirs(out)
        if got != files or fails:
            ctx.oracle_fail("C02:flags-idx-roundtrip",
                            f"flags {vec}: index-level round trip differs from the source ({len(fails)} failures)", case)
        if set(got_dirs) != want_dirs:
            ctx.oracle_fail("C02:flags-idx-dirs", f"flags {vec}: directories {got_dirs} != {sorted(want_dirs)}", case)
        for oid, (data, _mode) in impl.walk_store(odb_path).items():
            if impl.md5hex(data) != (oid[:-4] if oid.endswith(".dir") else oid):
                ctx.oracle_fail("C02:flags-idx-store-name", f"flags {vec}: object {oid} is not named by its md5", case)
        if impl.walk_files(src) != files:
            ctx.oracle_fail("C02:flags-source-damaged", f"flags {vec}: the source tree changed", case)
    except Exception as exc:  # noqa: BLE001
        ctx.oracle_fail(f"C02:flags-idx-exception:{type(exc).__name__}",
                        f"index-level round trip with flags {vec} raised {type(exc).__name__}: {exc}", case)
    finally:
        if own:
            state.close()
        impl.rm_rf(d)
    for k, x in v.items():
        if x != IDX_FLAG_DEFAULT[k] or not vec:
            dim(ctx, f"flag(idx): {k}={x}")
    if v["save_hardlink"] and v["save_verify"]:
        dim(ctx, "flag pair(idx): hardlink x verify")
    if v["root_entry"]:
        dim(ctx, "shape: directory entry at the ROOT key () on the index route")
    ctx.case(case, True)


# ------------------------------------------------------------------ COVERAGE_AUDIT section 5: destination
def _w(p, b):
    os.makedirs(os.path.dirname(p), exist_ok=True)
    with open(p, "wb") as f:
        f.write(b)


PREDEST = {
    "the right file, unprotected copy": lambda o, odb: _w(o + "/a", b"x"),
    "a corrupt unprotected copy": lambda o, odb: _w(o + "/d/g", b"HELLO"),
    "a corrupt protected copy": lambda o, odb: (_w(o + "/d/g", b"HELLO"), os.chmod(o + "/d/g", 0o444)),
    "an empty leftover": lambda o, odb: _w(o + "/d/g", b""),
    "a dangling symlink": lambda o, odb: (os.makedirs(o + "/d"), os.symlink("/nonexistent/c02", o + "/d/g")),
    "a live symlink into the cache": lambda o, odb: os.symlink(odb.oid_to_path(impl.md5hex(b"x")), o + "/a"),
    "the right object hardlinked, protected": lambda o, odb: os.link(odb.oid_to_path(impl.md5hex(b"x")), o + "/a"),
    "a file where a directory is wanted": lambda o, odb: _w(o + "/d", b"i am a file"),
    "a directory where a file is wanted": lambda o, odb: _w(o + "/a/inner", b"inner"),
    "an empty directory where a file is wanted": lambda o, odb: os.makedirs(o + "/a"),
    "an untracked file": lambda o, odb: _w(o + "/zz/untracked", b"u"),
    "an untracked empty directory": lambda o, odb: os.makedirs(o + "/emptyd/x"),
}


def predest_case(ctx, what, cfg, src, files):
    """object-level checkout (force=True: the fault-free route) into a destination that already holds
    something; the result must be exactly the stored tree and the store must be untouched"""
    from dvc_objects.fs.local import localfs

    from dvc_data.hashfile import load
    from dvc_data.hashfile.build import build
    from dvc_data.hashfile.checkout import checkout
    from dvc_data.hashfile.transfer import transfer

    case = {"audit": "pre-existing destination", "destination_holds": what, "configs": [list(cfg)]}
    env = Env(ctx, tuple(cfg))
    try:
        odb_path, odb = env.odb()
        staging, _m, obj = build(odb, src, localfs, "md5")
        transfer(staging, odb, {obj.hash_info}, shallow=False)
        out = env.out()
        os.makedirs(out)
        PREDEST[what](out, odb)
        pre_dirs = set(impl.walk_dirs(out))
        store0 = {o: b for o, (b, _m2) in impl.walk_store(odb_path).items()}
        checkout(out, localfs, load(odb, obj.hash_info), odb, force=True, state=env.state)
        got, got_dirs = impl.walk_files(out), set(impl.walk_dirs(out))
        if got != files:
            ctx.oracle_fail("C02:predest-roundtrip",
                            f"{cfg}: checkout (force) into a destination holding {what}: the tree differs "
                            f"(missing={sorted(set(files) - set(got))} extra={sorted(set(got) - set(files))} "
                            f"changed={sorted(r for r in files if r in got and got[r] != files[r])})", case)
        if not (ancestors(files) <= got_dirs <= ancestors(files) | pre_dirs):
            ctx.oracle_fail("C02:predest-dirs", f"{cfg}: destination holding {what}: directories {sorted(got_dirs)}", case)
        if {o: b for o, (b, _m2) in impl.walk_store(odb_path).items()} != store0:
            ctx.oracle_fail("C02:predest-store-changed",
                            f"{cfg}: checkout into a destination holding {what} changed the store", case)
    except Exception as exc:  # noqa: BLE001
        ctx.oracle_fail(f"C02:predest-exception:{type(exc).__name__}",
                        f"{cfg}: checkout (force) into a destination holding {what} raised "
                        f"{type(exc).__name__}: {exc}", case)
    finally:
        env.close()
    dim(ctx, "destination already holds: " + what)
    ctx.case(case, True)


def audit_streams(ctx):
    quick = ctx.tier == "quick"
    base = ctx.fresh("audit")
    src = os.path.join(base, "src")
    make_source(src, AUDIT_TREE, AUDIT_DIRS)
    try:
        vecs = list(OBJ_FLAG_VECTORS)
        ivecs = list(IDX_FLAG_VECTORS)
        for _ in range(ctx.n(0, 40)):      # thorough: sampled combinations on top of the forced ones
            vecs.append({
                "cls": ctx.rng.choice(["local", "base"]), "final_cls": ctx.rng.choice([None, None, "local", "base"]),
                "types": ctx.rng.choice([["copy"], ["hardlink"], ["symlink"], ["reflink", "hardlink", "copy"], ["symlink", "copy"]]),
                "odb_verify": ctx.rng.choice([None, True, False]), "upload": ctx.rng.random() < 0.25,
                "checksum_jobs": ctx.rng.choice([None, 1, 2, 7]), "t_jobs": ctx.rng.choice([None, 1, 2, 5, 6, 7]),
                "t_verify": ctx.rng.random() < 0.4, "t_hardlink": ctx.rng.random() < 0.4,
                "co_force": ctx.rng.random() < 0.4, "co_relink": ctx.rng.random() < 0.4,
                "co_quiet": ctx.rng.random() < 0.3, "state": ctx.rng.choice(["none", "real", "shared"]),
                "callback": ctx.rng.random() < 0.3, "obj_name": ctx.rng.random() < 0.3})
        for _ in range(ctx.n(0, 24)):
            ivecs.append({
                "cls": ctx.rng.choice(["local", "base"]),
                "types": ctx.rng.choice([["copy"], ["hardlink"], ["symlink"], ["reflink", "symlink", "copy"]]),
                "save_jobs": ctx.rng.choice([None, 1, 2, 6]), "save_hardlink": ctx.rng.random() < 0.4,
                "save_verify": ctx.rng.choice([None, True, False]), "cmp_relink": ctx.rng.random() < 0.4,
                "cmp_delete": ctx.rng.random() < 0.4, "update_meta": ctx.rng.random() < 0.7,
                "apply_jobs": ctx.rng.choice([None, 1, 3]),
                "apply_links": ctx.rng.choice([None, None, ["copy"], ["hardlink", "copy"], ["symlink"]]),
                "state": ctx.rng.choice(["none", "real", "shared"]), "root_entry": ctx.rng.random() < 0.2})
        for vec in vecs:
            obj_flag_case(ctx, vec, src, AUDIT_TREE)
            # save(hardlink=True) of an earlier vector write-protects source files it linked: harmless
        for vec in ivecs:
            idx_flag_case(ctx, vec, src, AUDIT_TREE, AUDIT_DIRS)
        links = ["copy", "hardlink", "symlink"]
        for k, what in enumerate(PREDEST):
            for j, link in enumerate(links):
                if quick and j != k % 3:
                    continue
                predest_case(ctx, what, ["local" if (k + j) % 2 == 0 else "base", link, (k + j) % 3 == 0], src, AUDIT_TREE)
    finally:
        if _SharedState.st is not None:
            _SharedState.st.close()
            _SharedState.st = None
        impl.rm_rf(base)


T0 = 1_700_000_000  # a fixed integer second: every mtime of the re-stage history is set explicitly


def set_mtime(path, sec, nsec):
    os.utime(path, ns=(sec * 10**9 + nsec, sec * 10**9 + nsec))


def apply_edit(src, rel, data, variant):
    """rewrite one source file; returns the new bytes. No wall-clock dependence: the new mtime is set."""
    p = os.path.join(src, *rel.split("/"))
    new = bytes(b ^ 0x5A for b in data)
    if variant == "resize":
        new = new + b"+"
    if variant == "replace":           # atomic replace: a new inode, same length
        tmp = p + ".tmp-c02"
        with open(tmp, "wb") as f:
            f.write(new)
        os.replace(tmp, p)
    else:                               # in place: same inode
        with open(p, "r+b") as f:
            f.write(new)
            f.truncate()
    if variant == "plus2":
        set_mtime(p, T0 + 2, 100_000_000)
    else:                               # later, inside the same integer second
        set_mtime(p, T0, 600_000_000)
    return new


def restage_case(ctx, case, items_restage):
    """stage v1 -> rewrite 1-2 files -> stage v2 into the same odb (same State) -> transfer ->
    object-level checkout and index-level round trip must equal v2, the CURRENT source."""
    from dvc_objects.fs.local import localfs

    from dvc_data.hashfile import load
    from dvc_data.hashfile.build import build
    from dvc_data.hashfile.checkout import checkout
    from dvc_data.hashfile.transfer import transfer

    files = case_files(case)
    base = ctx.fresh("restage")
    src = os.path.join(base, "src")
    make_source(src, files, case["dirs"])
    for rel in files:
        set_mtime(os.path.join(src, *rel.split("/")), T0, 100_000_000)
    walk1 = observe_walk(src)
    cfg = tuple(case["restage"]["config"])
    env = Env(ctx, cfg)
    one = case
    try:
        odb_path, odb = env.odb()
        staging, _m1, obj1 = build(odb, src, localfs, "md5")
        transfer(staging, odb, {obj1.hash_info}, shallow=False)
        v1_store = impl.walk_store(odb_path)
        v2 = dict(files)
        nonempty = sorted(r for r, b in files.items() if b)
        moved_oids = set()
        for i, variant in case["restage"]["edits"]:
            rel = nonempty[i % len(nonempty)]
            if v2[rel] != files[rel]:
                continue                 # already rewritten by an earlier edit of this case
            if variant == "move":
                # the content moves: P gets other bytes, a new path Q next to it holds P's former bytes
                q = (rel.rsplit("/", 1)[0] + "/" if "/" in rel else "") + f"moved-{i}"
                if q in v2 or q in case["dirs"]:
                    continue
                v2[rel] = apply_edit(src, rel, files[rel], "plus2")
                qp = os.path.join(src, *q.split("/"))
                with open(qp, "wb") as f:
                    f.write(files[rel])
                set_mtime(qp, T0, 100_000_000)
                v2[q] = files[rel]
                moved_oids.add(impl.md5hex(files[rel]))
            else:
                v2[rel] = apply_edit(src, rel, files[rel], variant)
            ctx.count("restage-edit:" + variant)
        # between the two builds: objects vanish from the store and a new odb object is made on the path
        wipe = case["restage"].get("wipe")
        gone = []
        if wipe == "all":
            gone = sorted(v1_store)
        elif wipe == "moved":
            gone = sorted(moved_oids & set(v1_store))
        for oid in gone:
            op = os.path.join(odb_path, oid[:2], oid[2:])
            os.chmod(op, 0o644)
            os.unlink(op)
        if wipe:
            odb = env.reopen(odb_path)
            ctx.count("restage-wipe:" + wipe)
        walk2 = observe_walk(src)
        assert impl.walk_files(src) == v2
        staging, meta, obj = build(odb, src, localfs, "md5")
        res = transfer(staging, odb, {obj.hash_info}, shallow=False)
        store = impl.walk_store(odb_path)
        out = env.out()
        checkout(out, localfs, load(odb, obj.hash_info), odb, state=env.state)
        out_files, out_dirs = impl.walk_files(out), impl.walk_dirs(out)
        iobs = run_idx(env, src)
    except Exception as exc:  # noqa: BLE001
        ctx.oracle_fail(f"C02:restage-exception:{type(exc).__name__}",
                        f"re-staging round trip raised {type(exc).__name__}: {exc}", one)
        ctx.case(case, True)
        return
    finally:
        env.close()
        impl.rm_rf(base)
    ctx.count(f"restage:{'state' if cfg[2] else 'nostate'}")
    built = {tuple(k): (h[1] if h else None) for k, _m, h in tree_entries(obj)}
    if built != {tuple(r.split("/")): impl.md5hex(b) for r, b in v2.items()}:
        ctx.oracle_fail("C02:restage-stale-listing",
                        "re-staging after a rewrite: the listing is not {relpath: md5(current content)}", one)
    if out_files != v2:
        stale = sorted(r for r in v2 if out_files.get(r) == files.get(r) != v2[r])
        ctx.oracle_fail("C02:restage-roundtrip",
                        f"re-staging after a rewrite: the checkout differs from the current source (old bytes at {stale})", one)
    if iobs["out_files"] != v2 or iobs["failed"]:
        ctx.oracle_fail("C02:restage-idx-roundtrip",
                        "re-staging after a rewrite: the index-level round trip differs from the current source", one)
    md = meta.to_dict()
    if md.get("nfiles") != len(v2) or md.get("size") != sum(len(b) for b in v2.values()):
        ctx.oracle_fail("C02:restage-meta", f"re-staging: Meta {md} does not match the current source", one)
    if res.failed:
        ctx.count("restage:transfer-reported-failure")
    for oid, (data, _mode) in list(store.items()) + list(iobs["store"].items()):
        if impl.md5hex(data) != (oid[:-4] if oid.endswith(".dir") else oid):
            ctx.oracle_fail("C02:restage-store-name",
                            f"re-staging: the store holds under {oid} bytes that do not hash to that name", one)
    exp = vL([vN(1), vB(obj1.hash_info.value), vB(obj.hash_info.value), vN(md.get("nfiles", 0)), vN(md.get("size", 0)),
              v_keyhash([(k, h) for k, _m, h in tree_entries(obj)]), v_store(store),
              vL([vN(1), vL([v_fsmap(out_files), v_dirs(out_dirs)])])])
    items_restage.append((one, cpair(cpair(cpair(cbytes(src), cbytes(src)), clist([cbytes(g) for g in gone])),
                                     cpair(walk_term(walk1), walk_term(walk2))), exp))
    ctx.case(case, True)


def store_bytes(path):
    return {o: b for o, (b, _m) in impl.walk_store(path).items()}


def checkout_both(env, odb, hash_info, links):
    """object-level checkout and index-level apply of a stored directory into fresh locations"""
    from dvc_objects.fs.local import localfs

    from dvc_data.hashfile import load
    from dvc_data.hashfile.checkout import checkout
    from dvc_data.hashfile.meta import Meta
    from dvc_data.index import DataIndex, DataIndexEntry, ObjectStorage
    from dvc_data.index.checkout import apply, compare

    o1 = env.out()
    checkout(o1, localfs, load(odb, hash_info), odb, state=env.state)
    idx = DataIndex({(): DataIndexEntry(key=(), meta=Meta(isdir=True), hash_info=hash_info)})
    idx.storage_map.add_cache(ObjectStorage((), odb))
    o2 = env.out()
    failures = []
    apply(compare(None, idx), o2, localfs, state=env.state, links=list(links),
          onerror=lambda *a: failures.append(a))
    return o1, o2, len(failures)


def relink_case(ctx, case, items_restage):
    """round-trip a tree -> check it out with the store's link type -> add one file to the checkout ->
    stage + transfer the checkout into the SAME store.  After the transfer step: every object that
    was in the store is still there with the same bytes, the workspace is unchanged, the old and the
    new tree both check out byte-identically (object level and index level)."""
    from dvc_objects.fs.local import localfs

    from dvc_data.hashfile.build import build
    from dvc_data.hashfile.transfer import transfer

    files = case_files(case)
    cfg = tuple(case["relink"]["config"])
    base = ctx.fresh("relink")
    src = os.path.join(base, "src")
    make_source(src, files, case["dirs"])
    walk1 = observe_walk(src)
    env = Env(ctx, cfg)
    one = case
    step = "stage+transfer of the source"
    try:
        odb_path, odb = env.odb()
        staging, _m, obj_a = build(odb, src, localfs, "md5")
        res = transfer(staging, odb, {obj_a.hash_info}, shallow=False)
        store1 = store_bytes(odb_path)
        step = "link-type checkout"
        work, _o2, _f = checkout_both(env, odb, obj_a.hash_info, [cfg[1]])
        if impl.walk_files(work) != files or res.failed:
            ctx.oracle_fail("C02:relink-first-roundtrip", "the first round trip of the history already differs", one)
            return
        kinds = sorted({link_kind(os.path.join(work, *r.split("/"))) for r in files})
        for k in kinds:
            ctx.count("relink-checkout-kind:" + k)
        # add one regular file to the checked-out copy
        where = case["relink"]["where"]
        new_rel = (where + "/" if where else "") + case["relink"]["name"]
        new_data = bytes.fromhex(case["relink"]["data"])
        with open(os.path.join(work, *new_rel.split("/")), "wb") as f:
            f.write(new_data)
        want_b = dict(files)
        want_b[new_rel] = new_data
        walk2 = observe_walk(work)
        step = "stage+transfer of the checkout into the same store"
        staging, meta, obj_b = build(odb, work, localfs, "md5")
        res = transfer(staging, odb, {obj_b.hash_info}, shallow=False)
        store2 = store_bytes(odb_path)
    except Exception as exc:  # noqa: BLE001
        ctx.oracle_fail(f"C02:relink-exception:{type(exc).__name__}",
                        f"linked-checkout history, {step}: raised {type(exc).__name__}: {exc}", one)
        env.close()
        impl.rm_rf(base)
        ctx.case(case, True)
        return
    try:
        # ---- judged after the transfer step
        lost = sorted(o for o in store1 if o not in store2)
        changed = sorted(o for o in store1 if o in store2 and store2[o] != store1[o])
        if lost or changed:
            ctx.oracle_fail("C02:transfer-destroyed-stored-objects",
                            f"{cfg}: transferring the re-staged {cfg[1]} checkout into the same store removed "
                            f"{lost} and changed {changed} (objects that were valid before the transfer)", one)
        try:
            now = impl.walk_files(work)
        except OSError as exc:
            now = {"<unreadable>": repr(exc)}
        if now != want_b:
            bad = sorted(r for r in want_b if now.get(r) != want_b[r])
            ctx.oracle_fail("C02:transfer-damaged-workspace",
                            f"{cfg}: the staged checkout itself was damaged by the transfer (paths {bad})", one)
        if res.failed:
            ctx.oracle_fail("C02:relink-transfer-failed",
                            f"{cfg}: transfer of the re-staged checkout reported {len(res.failed)} failed objects", one)
        md = meta.to_dict()
        if md.get("nfiles") != len(want_b) or md.get("size") != sum(len(b) for b in want_b.values()):
            ctx.oracle_fail("C02:relink-meta", f"{cfg}: Meta {md} does not match the staged checkout", one)
        for oid, data in store2.items():
            if impl.md5hex(data) != (oid[:-4] if oid.endswith(".dir") else oid):
                ctx.oracle_fail("C02:relink-store-name", f"{cfg}: object {oid} no longer hashes to its name", one)
        outs = {}
        for name, hi, want in (("new", obj_b.hash_info, want_b), ("old", obj_a.hash_info, files)):
            try:
                o1, o2, nfail = checkout_both(env, odb, hi, [cfg[1]])
            except Exception as exc:  # noqa: BLE001
                ctx.oracle_fail(f"C02:stored-tree-no-longer-checks-out:{name}",
                                f"{cfg}: after the transfer the {name} tree cannot be checked out: "
                                f"{type(exc).__name__}: {exc}", one)
                continue
            got1, got2 = impl.walk_files(o1), impl.walk_files(o2)
            outs[name] = (got1, impl.walk_dirs(o1))
            if got1 != want:
                ctx.oracle_fail(f"C02:stored-tree-checkout-differs:{name}",
                                f"{cfg}: object-level checkout of the {name} tree differs after the transfer", one)
            if got2 != want or nfail:
                ctx.oracle_fail(f"C02:stored-tree-idx-checkout-differs:{name}",
                                f"{cfg}: index-level checkout of the {name} tree differs after the transfer "
                                f"({nfail} failures)", one)
        if "new" in outs and not res.failed:
            exp = vL([vN(1), vB(obj_a.hash_info.value), vB(obj_b.hash_info.value), vN(md.get("nfiles", 0)),
                      vN(md.get("size", 0)), v_keyhash([(k, h) for k, _m, h in tree_entries(obj_b)]),
                      v_store({o: (b, 0) for o, b in store2.items()}),
                      vL([vN(1), vL([v_fsmap(outs["new"][0]), v_dirs(outs["new"][1])])])])
            items_restage.append((one, cpair(cpair(cpair(cbytes(src), cbytes(work)), "[]"),
                                             cpair(walk_term(walk1), walk_term(walk2))), exp))
        ctx.count(f"relink:{cfg[0]}/{cfg[1]}/{'state' if cfg[2] else 'nostate'}")
    finally:
        env.close()
        impl.rm_rf(base)
    ctx.case(case, True)


def run_idx(env, src):
    """index level: build -> md5 -> save -> compare(None, idx) -> apply"""
    from dvc_objects.fs.local import localfs

    from dvc_data.index import ObjectStorage, build, md5, save
    from dvc_data.index.checkout import apply, compare

    odb_path, odb = env.odb()
    idx = build(src, localfs)
    idx = md5(idx, state=env.state)
    save(idx, odb=odb)
    idx.storage_map.add_cache(ObjectStorage((), odb))
    diff = compare(None, idx)
    out = env.out()
    failed = []
    apply(diff, out, localfs, state=env.state, onerror=lambda *a: failed.append(a))
    return {"store": impl.walk_store(odb_path), "out_files": impl.walk_files(out),
            "out_dirs": impl.walk_dirs(out), "failed": len(failed),
            "links": sorted({link_kind(os.path.join(out, *r.split("/"))) for r in impl.walk_files(out)})}


def run_file(env, path, data):
    from dvc_objects.fs.local import localfs

    from dvc_data.hashfile import load
    from dvc_data.hashfile.build import build
    from dvc_data.hashfile.checkout import checkout
    from dvc_data.hashfile.transfer import transfer
    from dvc_data.index import DataIndex, FileStorage, ObjectStorage, save
    from dvc_data.index.build import build_entry
    from dvc_data.index.checkout import apply, compare

    odb_path, odb = env.odb()
    staging, meta, obj = build(odb, path, localfs, "md5")
    transfer(staging, odb, {obj.hash_info}, shallow=False)
    out = env.out()
    checkout(out, localfs, load(odb, obj.hash_info), odb, state=env.state)
    with open(out, "rb") as f:
        got = f.read()
    obs = {"oid": obj.hash_info.value, "meta": meta.to_dict(), "store": impl.walk_store(odb_path),
           "out": got, "out_isfile": os.path.isfile(out)}
    # index level: an index whose root entry is the file
    odb2_path, odb2 = env.odb()
    idx = DataIndex()
    entry = build_entry(path, localfs, compute_hash=True, state=env.state)
    entry.key = ()
    idx.add(entry)
    idx.storage_map.add_data(FileStorage((), localfs, path))
    save(idx, odb=odb2)
    idx.storage_map.add_cache(ObjectStorage((), odb2))
    out2 = env.out()
    apply(compare(None, idx), out2, localfs, state=env.state)
    with open(out2, "rb") as f:
        obs["idx_out"] = f.read()
    obs["idx_store"] = impl.walk_store(odb2_path)
    return obs


# ------------------------------------------------------------------ expected values and oracles

def obj_expected(obs):
    if "err" in obs:
        return vL([vN(0), vN(obs["err"])])
    md = obs["meta"]
    if obs["co_err"] is None:
        co = vL([vN(1), vL([v_fsmap(obs["out_files"]), v_dirs(obs["out_dirs"])])])
        ld = vL([vN(1), v_tree(obs["loaded"])])
    else:
        co = vL([vN(0), vN(obs["co_err"])])
        ld = vL([vN(1), v_tree(obs["loaded"])]) if "loaded" in obs else vL([vN(0), vN(obs["co_err"])])
    return [vN(1), vB(obs["oid"]), vN(md.get("nfiles", 0)), vN(md.get("size", 0)), v_keyhash(obs["built"]),
            v_store(obs["store"])], ld, co


def obj_oracle(files, obs):
    """the property itself, from the generated tree and plain os/hashlib observations"""
    problems = []
    if "err" in obs:
        return [("C02:stage-refused", f"staging a well-formed tree failed with code {obs['err']}")]
    if obs["co_err"] is not None:
        return [("C02:checkout-failed", f"checkout of a complete store failed with code {obs['co_err']}")]
    built_paths = {"/".join(k) for k, _h in obs["built"]}
    if set(obs["out_files"]) != built_paths:
        problems.append(("C02:checkout-paths-differ-from-built-listing",
                         f"the checked-out path set differs from the built one: "
                         f"only built={sorted(built_paths - set(obs['out_files']))} "
                         f"only checked out={sorted(set(obs['out_files']) - built_paths)}"))
    if obs["out_files"] != files:
        missing = sorted(set(files) - set(obs["out_files"]))
        extra = sorted(set(obs["out_files"]) - set(files))
        diff = sorted(r for r in files if r in obs["out_files"] and obs["out_files"][r] != files[r])
        problems.append(("C02:obj-roundtrip", f"checked-out tree differs: missing={missing} extra={extra} changed={diff}"))
    if set(obs["out_dirs"]) != ancestors(files):
        problems.append(("C02:obj-dirs", f"directories after checkout {obs['out_dirs']} != ancestors of the files"))
    if not obs["out_exists"]:
        problems.append(("C02:obj-root", "the checked-out location is not a directory"))
    truth = {r: impl.md5hex(b) for r, b in files.items()}
    built = {tuple(k): (h[1] if h else None) for k, h in obs["built"]}
    loaded = {tuple(k): (h[1] if h else None) for k, _m, h in obs["loaded"]}
    if built != {tuple(r.split("/")): h for r, h in truth.items()} or len(obs["built"]) != len(files):
        problems.append(("C02:listing-built", "the listing that was built is not {relpath: md5(content)}"))
    if loaded != built or len(obs["loaded"]) != len(obs["built"]):
        problems.append(("C02:reload", "the reloaded listing differs from the listing that was built"))
    if any(not h or h[0] != "md5" for _k, _m, h in obs["loaded"]):
        problems.append(("C02:reload-hash-name", "a reloaded entry does not carry an md5 hash"))
    md = obs["meta"]
    if md.get("nfiles") != len(files) or md.get("size") != sum(len(b) for b in files.values()) or not md.get("isdir"):
        problems.append(("C02:meta", f"returned Meta {md} != nfiles={len(files)}, size={sum(len(b) for b in files.values())}"))
    for oid, (data, _mode) in obs["store"].items():
        base = oid[:-4] if oid.endswith(".dir") else oid
        if impl.md5hex(data) != base:
            problems.append(("C02:store-name", f"object {oid} is not named by its md5"))
    if obs["oid"] not in obs["store"]:
        problems.append(("C02:dir-object-absent", "the directory object is not in the store after transfer"))
    return problems


def idx_oracle(files, dirs, obs):
    problems = []
    if obs["out_files"] != files:
        missing = sorted(set(files) - set(obs["out_files"]))
        extra = sorted(set(obs["out_files"]) - set(files))
        problems.append(("C02:idx-roundtrip", f"index-level checkout differs: missing={missing} extra={extra}"))
    if set(obs["out_dirs"]) != set(dirs):
        problems.append(("C02:idx-dirs", f"directories after apply {obs['out_dirs']} != source directories {dirs}"))
    if obs["failed"]:
        problems.append(("C02:idx-onerror", f"apply reported {obs['failed']} failures"))
    return problems


# ------------------------------------------------------------------ run

def case_files(case):
    import random

    files = {r: bytes.fromhex(h) for r, h in case["files"].items()}
    # large files (hashed through the thread pool of _hash_files) are kept out of the case literal
    for r, (seed, size) in case.get("big_files", {}).items():
        files[r] = random.Random(seed).randbytes(size)
    return files


def tree_case(ctx, case, items_obj, items_idx, items_bad, items_hist=None):
    files = case_files(case)
    with_model = not case.get("big_files")
    dirs = case["dirs"]
    base = ctx.fresh("tree")
    src = os.path.join(base, "src")
    make_source(src, files, dirs)
    walk = observe_walk(src)
    # the generated tree really is what is on disk (guards the harness itself)
    assert impl.walk_files(src) == files and impl.walk_dirs(src) == sorted(dirs)
    seen_obj, seen_idx = {}, {}
    for ci, cfg in enumerate(case["configs"]):
        cfg = tuple(cfg)
        env = Env(ctx, cfg)
        try:
            slash = case.get("trailing_slash") and ci % 2 == 0
            stage_path = src + "/" if slash else src
            try:
                obs = run_obj(env, src, stage_path, idem=(ci == 0))
            except Exception as exc:  # noqa: BLE001
                ctx.oracle_fail(f"C02:obj-exception:{type(exc).__name__}",
                                f"object-level round trip raised {type(exc).__name__}: {exc}",
                                {**case, "configs": [list(cfg)]})
                continue
            for sig, what in obj_oracle(files, obs):
                ctx.oracle_fail(sig, what, {**case, "configs": [list(cfg)]})
            if obs.get("idem") is False:
                ctx.oracle_fail("C02:second-roundtrip-differs",
                            "rebuilding from the checked-out location gives another object id / Meta",
                            {**case, "configs": [list(cfg)]})
            if "idem" in obs:
                dim(ctx, "second round trip (checkout -> rebuild -> same id)")
            if with_model:
                head, ld, co = obj_expected(obs)
                seen_obj.setdefault((stage_path, vL(head + [ld, co])), cfg)
            if cfg[1] not in obs.get("links", [cfg[1]]) and files and any(files.values()):
                ctx.count("link-fallback:" + cfg[1])
            try:
                iobs = run_idx(env, src)
            except Exception as exc:  # noqa: BLE001
                ctx.oracle_fail(f"C02:idx-exception:{type(exc).__name__}",
                                f"index-level round trip raised {type(exc).__name__}: {exc}",
                                {**case, "configs": [list(cfg)]})
                continue
            for sig, what in idx_oracle(files, dirs, iobs):
                ctx.oracle_fail(sig, what, {**case, "configs": [list(cfg)]})
            if with_model:
                iexp = vL([vN(1), vL([v_store(iobs["store"]), v_fsmap(iobs["out_files"]), v_dirs(iobs["out_dirs"])])])
                seen_idx.setdefault(iexp, cfg)
            ctx.count(f"config:{cfg[0]}/{cfg[1]}/{'state' if cfg[2] else 'nostate'}")
        finally:
            env.close()
    wt = walk_term(walk) if with_model else ""
    if not with_model:
        seen_obj, seen_idx = {}, {}
        ctx.count("oracle-only:large-files")
    for (stage_path, exp), cfg in seen_obj.items():
        items_obj.append(({**case, "configs": [list(cfg)], "path": "slash" if stage_path.endswith("/") else "plain"},
                          cpair(cbytes(stage_path), wt), exp))
    for iexp, cfg in seen_idx.items():
        items_idx.append(({**case, "configs": [list(cfg)]}, cpair(cbytes(src), wt), iexp))
    if len(seen_obj) > 1 + (1 if case.get("trailing_slash") and len(case["configs"]) > 1 else 0) or len(seen_idx) > 1:
        ctx.count("observables-differ-between-configurations")
    # malformed stream on the same tree: remove objects before checkout (copy link type only)
    if case.get("remove") and files and with_model:
        env = Env(ctx, ("local", "copy", False))
        try:
            pick = case["remove"]

            def remove(o, pick=pick):
                oids = sorted(o["store"])
                file_oids = [x for x in oids if not x.endswith(".dir")]
                if pick == "dir":
                    return [o["oid"]]
                return [file_oids[pick % len(file_oids)]]

            try:
                obs = run_obj(env, src, src, remove=remove)
            except Exception as exc:  # noqa: BLE001
                ctx.oracle_fail(f"C02:incomplete-store-exception:{type(exc).__name__}",
                                f"checkout of an incomplete store raised {type(exc).__name__} instead of "
                                f"CheckoutError / FileNotFoundError: {exc}", case)
                obs = None
            gone = [] if obs is None else sorted(set(obs["store"]) - set(impl.walk_store(os.path.join(env.dir, "odb1"))))
            if obs is None:
                pass
            elif obs["co_err"] is None:
                ctx.oracle_fail("C02:checkout-of-incomplete-store-succeeded",
                                f"checkout succeeded although {gone} was removed from the store", case)
                exp = vL([vN(1), vL([v_fsmap(obs["out_files"])])])
            else:
                exp = vL([vN(0), vN(obs["co_err"])])
            if obs is not None:
                items_bad.append(({**case, "gone": gone},
                                  cpair(cpair(cbytes(src), wt), clist([cbytes(g) for g in gone])), exp))
            ctx.count("malformed:removed-" + ("dir-object" if pick == "dir" else "file-object"))
        finally:
            env.close()
    if case.get("history") and with_model:
        hist_case(ctx, case, files, src, walk, items_hist if items_hist is not None else [])
    impl.rm_rf(base)
    tree_dimensions(ctx, files, dirs, [tuple(c) for c in case["configs"]])
    ctx.count(f"files:{min(len(files), 60) // 5 * 5}+")
    ctx.count(f"depth:{max([r.count('/') + 1 for r in list(files) + dirs] or [0])}")
    ctx.count(f"empty-dirs:{'yes' if set(dirs) - ancestors(files) else 'no'}")
    ctx.count(f"duplicate-contents:{'yes' if len(set(files.values())) < len(files) else 'no'}")
    nontrivial = (len(files) >= 2 and len({r.rsplit('/', 1)[0] if '/' in r else '' for r in files}) >= 2) \
        or bool(case.get("remove")) or bool(case.get("history"))
    ctx.case(case, nontrivial)


def ignore_case(ctx, case, items_obj):
    files = case_files(case)
    base = ctx.fresh("ign")
    src = os.path.join(base, "src")
    make_source(src, files, case["dirs"])
    walk = observe_walk(src)
    env = Env(ctx, tuple(case["configs"][0]))
    try:
        obs = run_obj(env, src, src)
    except Exception as exc:  # noqa: BLE001
        ctx.oracle_fail(f"C02:dvcignore-exception:{type(exc).__name__}",
                        f"staging a tree with a .dvcignore raised {type(exc).__name__}: {exc}", case)
        ctx.case(case, True)
        impl.rm_rf(base)
        return
    finally:
        env.close()
    if "err" not in obs:
        ctx.oracle_fail("C02:dvcignore-collected", "a .dvcignore inside the collected directory was staged", case)
        head, ld, co = obj_expected(obs)
        exp = vL(head + [ld, co])
    else:
        exp = vL([vN(0), vN(obs["err"])])
    items_obj.append((case, cpair(cbytes(src), walk_term(walk)), exp))
    ctx.count("malformed:dvcignore")
    ctx.case(case, True)
    impl.rm_rf(base)


def file_case(ctx, case, items_file):
    data = bytes.fromhex(case["data"])
    base = ctx.fresh("file")
    path = os.path.join(base, case["name"])
    with open(path, "wb") as f:
        f.write(data)
    for cfg in case["configs"]:
        env = Env(ctx, tuple(cfg))
        one = {**case, "configs": [list(cfg)]}
        try:
            obs = run_file(env, path, data)
        except Exception as exc:  # noqa: BLE001
            ctx.oracle_fail(f"C02:file-exception:{type(exc).__name__}",
                            f"single-file round trip raised {type(exc).__name__}: {exc}", one)
            continue
        finally:
            env.close()
        if obs["out"] != data or not obs["out_isfile"]:
            ctx.oracle_fail("C02:file-roundtrip", "single file checked out with different bytes", one)
        if obs["idx_out"] != data:
            ctx.oracle_fail("C02:file-idx-roundtrip", "single file differs after the index-level round trip", one)
        if obs["oid"] != impl.md5hex(data) or obs["meta"].get("size") != len(data):
            ctx.oracle_fail("C02:file-meta", f"single file: oid/size {obs['oid']}/{obs['meta']} wrong", one)
        if obs["idx_store"] != obs["store"]:
            ctx.oracle_fail("C02:file-idx-store", "index-level save of a single file stored something else", one)
        exp = vL([vB(obs["oid"]), vN(obs["meta"].get("size", 0)), v_store(obs["store"]), vL([vN(1), vB(obs["out"])])])
        items_file.append((one, cbytes(data), exp))
        ctx.count("single-file")
        dim(ctx, "shape: single-file (non-Tree) target, object and index (key ()) route")
        if not data:
            dim(ctx, f"shape: zero-length single file under {cfg[1]}")
    ctx.case(case, len(data) > 0)
    impl.rm_rf(base)


def pick_configs(ctx, k):
    if k >= len(CONFIGS):
        return [list(c) for c in CONFIGS]
    return [list(c) for c in ctx.rng.sample(CONFIGS, k)]


CORPUS = [
    # COVERAGE_AUDIT section 1: backslash, space, leading dot, Cyrillic, CJK, emoji, ".dir"-suffixed file and
    # directory, prefix siblings, 1-char and 200-char names, a file and a directory differing only in case
    {"files": {"we\\ird.txt": "01", "with space/.hidden": "02", "\u043f\u0440\u0438\u0432\u0435\u0442.txt": "03",
               "\u6c49\u5b57/\U0001f600.bin": "04", "x.dir": "05", "y.dir/inner": "05", "imgs/a": "06",
               "imgs_raw/a": "06", "imgs.bak": "07", "imgs.bak2/z": "", "q": "08", "L" * 200: "09",
               "M" * 200 + "/" + "N" * 200: "0a", "Readme": "0b", "readme/x": "0c"},
     "dirs": ["with space", "\u6c49\u5b57", "y.dir", "imgs", "imgs_raw", "imgs.bak2", "M" * 200, "readme"],
     "configs": [["local", "hardlink", False], ["base", "symlink", True], ["local", "copy", True]],
     "history": {"kind": "lost", "config": ["local", "symlink", False], "pick": [3, 7]}},
    # section 2: depth >= 4 through directories that hold only sub-directories, a directory holding only empty
    # sub-directories, a one-file directory, identical contents within and across directories, zero-length
    # files under every link type
    {"files": {"p/q/r/s/leaf": "6c", "p/q/r/s/twin": "6c", "one/only": "6c", "z0": "", "p/z1": ""},
     "dirs": ["p", "p/q", "p/q/r", "p/q/r/s", "one", "hollow", "hollow/e1", "hollow/e2", "hollow/e2/e3"],
     "configs": [["local", "hardlink", False], ["base", "hardlink", True], ["local", "symlink", False],
                 ["base", "copy", False]], "trailing_slash": True},
    # both Unicode spellings of one name in one directory (composed / decomposed), and the Angstrom sign
    # next to its NFC form: no normalisation anywhere between the listing and the checked-out paths
    {"files": {"caf\u00e9.txt": "6e6663", "cafe\u0301.txt": "6e6664", "d/\u212b": "01", "d/\u00c5": "02",
               "d/A\u030a": "03"}, "dirs": ["d"],
     "configs": [["local", "copy", False], ["base", "symlink", True]]},
    # keys that differ only by where the separator falls; duplicate contents; an empty nested directory
    {"files": {"a/b c": "78", "a b/c": "78", "d/e/f": "", "q\"\\": "0d0a00"}, "dirs": ["a", "a b", "d", "d/e", "g", "g/h"],
     "configs": [["local", "copy", False], ["base", "symlink", True], ["local", "hardlink", True]],
     "trailing_slash": True, "remove": 0, "history": {"kind": "shallow", "config": ["local", "copy", False]}},
    # no files at all: only empty directories
    {"files": {}, "dirs": ["e", "e/f"], "configs": [["local", "copy", False], ["base", "hardlink", False]]},
    # names that look like listing syntax / object names, non-BMP and combining characters
    {"files": {"relpath": "5b5d", "md5/\U0001f600": "00", "é/é": "610d0a", "x.dir/0123456789abcdef0123456789abcdef.dir": "5b5d"},
     "dirs": ["md5", "é", "x.dir"], "configs": [["base", "copy", True], ["local", "symlink", False]], "remove": "dir",
     "history": {"kind": "lost", "config": ["base", "hardlink", True], "pick": [0, 2]}},
]


def run(ctx):
    quick = ctx.tier == "quick"
    n_trees = ctx.n(14, 45)
    n_cfg = 3 if quick else 12
    max_depth, max_files = (4, 14) if quick else (6, 60)
    cases = [dict(c) for c in CORPUS]
    for i in range(n_trees):
        big = (not quick) and i % 10 == 0
        files, dirs = gen_tree(ctx.rng, max_depth, max_files if (quick or big) else 20, 4)
        case = {"files": {r: b.hex() for r, b in files.items()}, "dirs": dirs,
                "configs": pick_configs(ctx, n_cfg if not big else 4),
                "trailing_slash": ctx.rng.random() < 0.4}
        r = ctx.rng.random()
        if r < 0.2:
            case["remove"] = ctx.rng.randint(0, 30)
        elif r < 0.28:
            case["remove"] = "dir"
        if files and ctx.rng.random() < (0.6 if quick else 1.0):
            kind = ctx.rng.choice(["shallow", "lost"])
            case["history"] = {"kind": kind, "config": list(ctx.rng.choice(CONFIGS)),
                               "pick": [ctx.rng.randint(0, 60) for _ in range(ctx.rng.randint(1, 4))] if kind == "lost" else []}
        cases.append(case)
    for i in range(ctx.n(1, 4)):
        # >= 2 files above the 1 MiB threshold in one directory: the unordered thread-pool path of
        # _hash_files; judged by the oracles only (no Coq literal of that size)
        files, dirs = gen_tree(ctx.rng, 3, 5, 1)
        where = ctx.rng.choice([""] + [d + "/" for d in dirs])
        big = {where + f"big{j}": [ctx.rng.randrange(1 << 30), (1 << 20) + ctx.rng.randint(1, 1 << 18)]
               for j in range(ctx.rng.randint(2, 4))}
        if any(b in files or b in dirs for b in big):
            continue
        cases.append({"files": {r: b.hex() for r, b in files.items()}, "dirs": dirs, "big_files": big,
                      "configs": pick_configs(ctx, 2 if quick else 4)})
    # boundary of the large-file split of _hash_files: EXACTLY ONE file above the threshold (folded back into the
    # inline path) - among small files, and alone in a sub-directory; fixed cases, every run
    cases.append({"files": {"s1": b"small one".hex(), "d/s2": b"small two".hex()}, "dirs": ["d"],
                  "big_files": {"lone-big": [8101, (1 << 20) + 17]}, "configs": pick_configs(ctx, 2)})
    cases.append({"files": {"s1": b"x".hex()}, "dirs": ["only"],
                  "big_files": {"only/big": [8102, (1 << 20) + 1]}, "configs": pick_configs(ctx, 1)})
    dim(ctx, "exactly one file above the large-file threshold (among small files / alone in a directory)")
    items_obj, items_idx, items_bad, items_file, items_hist = [], [], [], [], []
    for case in cases:
        tree_case(ctx, case, items_obj, items_idx, items_bad, items_hist)
    # '.dvcignore' inside the collected directory
    for i in range(ctx.n(3, 12)):
        files, dirs = gen_tree(ctx.rng, 3, 6, 1)
        where = ctx.rng.choice([""] + [d + "/" for d in dirs])
        files[where + ".dvcignore"] = b"*.tmp\n"
        case = {"files": {r: b.hex() for r, b in files.items()}, "dirs": dirs, "configs": pick_configs(ctx, 1),
                "dvcignore": where + ".dvcignore"}
        ignore_case(ctx, case, items_obj)
    # a zero-length single file under every link type, every run
    file_case(ctx, {"name": "empty file", "data": "",
                    "configs": [["local", "hardlink", False], ["base", "symlink", True], ["local", "copy", False],
                                ["base", "hardlink", True]]}, items_file)
    for i in range(ctx.n(7, 30)):
        data = ctx.rng.choice(CONTENT_POOL) if ctx.rng.random() < 0.6 else ctx.rng.randbytes(ctx.rng.randint(1, 200))
        case = {"name": ctx.rng.choice(NAME_POOL), "data": data.hex(), "configs": pick_configs(ctx, 2 if quick else 12)}
        file_case(ctx, case, items_file)
    audit_streams(ctx)
    items_restage = []
    restage_cases = [
        {"files": {"params.txt": b"rate=0.10\n".hex(), "d/x": "00010203", "d/y": "00010203", "e": ""}, "dirs": ["d", "g"],
         "restage": {"config": ["local", "copy", True], "edits": [[2, "same_second"]]}},
        # the content of d/x moves to d/moved-0 while d/x gets other bytes; the store was wiped in between
        {"files": {"a": "6161", "d/x": "00010203", "d/z": "7a"}, "dirs": ["d"],
         "restage": {"config": ["local", "copy", False], "edits": [[1, "move"]], "wipe": "all"}},
        {"files": {"a": "6161", "d/x": "00010203", "d/z": "7a"}, "dirs": ["d"],
         "restage": {"config": ["base", "hardlink", True], "edits": [[1, "move"], [0, "move"]], "wipe": "moved"}},
    ]
    for i in range(ctx.n(10, 36)):
        files, dirs = gen_tree(ctx.rng, 3, 8, 2)
        if not any(files.values()):
            continue
        cfg = list(ctx.rng.choice([c for c in CONFIGS if c[2]] if ctx.rng.random() < 0.8 else CONFIGS))
        if i % 2 == 0:
            edits = [[ctx.rng.randint(0, 30), ctx.rng.choice(["same_second", "same_second", "plus2", "replace", "resize"])]
                     for _ in range(ctx.rng.randint(1, 2))]
            wipe = ctx.rng.choice([None, None, "all"])
        else:
            # contents move between paths; the store lost (at least) the moved objects in between
            edits = [[ctx.rng.randint(0, 30), "move"] for _ in range(ctx.rng.randint(1, 2))]
            if ctx.rng.random() < 0.3:
                edits.append([ctx.rng.randint(0, 30), "same_second"])
            cfg = list(ctx.rng.choice(CONFIGS))
            wipe = ctx.rng.choice(["all", "moved", "moved", None])
        restage_cases.append({"files": {r: b.hex() for r, b in files.items()}, "dirs": dirs,
                              "restage": {"config": cfg, "edits": edits, "wipe": wipe}})
    for case in restage_cases:
        restage_case(ctx, case, items_restage)
    relink_cases = [
        # the demo history: three files, one added to the link-type checkout
        {"files": {"a.txt": b"alpha\n".hex(), "sub/b.bin": (b"beta" * 100).hex(), "sub/c": b"gamma".hex()},
         "dirs": ["sub"], "relink": {"config": [cls, link, False], "where": "sub", "name": "new.dat",
                                     "data": b"brand new data".hex()}}
        for cls, link in (("base", "symlink"), ("base", "hardlink"), ("local", "symlink"), ("local", "hardlink"))
    ]
    for i in range(ctx.n(4, 16)):
        files, dirs = gen_tree(ctx.rng, 3, 6, 1)
        if not any(files.values()):
            continue
        cfg = list(ctx.rng.choice([c for c in CONFIGS if c[1] != "copy"] if ctx.rng.random() < 0.85 else CONFIGS))
        where = ctx.rng.choice([""] + sorted(ancestors(files)))
        name = f"added-{i}"
        relink_cases.append({"files": {r: b.hex() for r, b in files.items()}, "dirs": dirs,
                             "relink": {"config": cfg, "where": where, "name": name,
                                        "data": ctx.rng.randbytes(ctx.rng.randint(1, 40)).hex()}})
    for case in relink_cases:
        relink_case(ctx, case, items_restage)
    ctx.obligation("oracle:roundtrip", not any(v.kind == "oracle" for v in ctx.violations),
                   f"{ctx.evaluations} generated trees/files judged by walk-equals-source, listing, Meta and store-name oracles")
    jobs = [
        ("obj", "list N * walk", "fun i => obj_roundtrip (fst i) (snd i)", items_obj, 12),
        ("idx", "list N * walk", "fun i => idx_roundtrip_val (fst i) (snd i)", items_idx, 12),
        ("incomplete", "(list N * walk) * list (list N)",
         "fun i => checkout_without (fst (fst i)) (snd (fst i)) (snd i)", items_bad, 12),
        ("history", "(list N * walk) * (N * list (list N))",
         "fun i => obj_roundtrip_hist (fst (fst i)) (snd (fst i)) (fst (snd i)) (snd (snd i))", items_hist, 10),
        ("restage", "((list N * list N) * list (list N)) * (walk * walk)",
         "fun i => restage2_val (fst (fst (fst i))) (snd (fst (fst i))) (fst (snd i)) (snd (snd i)) (snd (fst i))",
         items_restage, 10),
        ("file", "list N", "file_roundtrip", items_file, 40),
    ]
    # the six evaluations are independent coqc runs over distinct case files: run them side by side,
    # then put the recorded obligations back into the fixed order above
    from concurrent.futures import ThreadPoolExecutor

    n_before = len(ctx.obligations)
    with ThreadPoolExecutor(max_workers=len(jobs)) as ex:
        futs = [ex.submit(ctx.correspond, name, IMPORTS, ty, fn, items, shard=shard)
                for name, ty, fn, items, shard in jobs]
        for f in futs:
            f.result()
    order = {f"correspondence:{name}": k for k, (name, *_r) in enumerate(jobs)}
    tail = sorted(ctx.obligations[n_before:], key=lambda o: order.get(o[0], len(order)))
    ctx.obligations[n_before:] = tail
    ctx.violations.sort(key=lambda v: (0 if v.kind == "oracle" else 1, order.get(v.signature, -1)
                                       if v.kind != "oracle" else 0))


def replay_audit(ctx, case):
    base = ctx.fresh("audit")
    src = os.path.join(base, "src")
    make_source(src, AUDIT_TREE, AUDIT_DIRS)
    try:
        if case["audit"] == "object-level flags":
            obj_flag_case(ctx, case["flags"], src, AUDIT_TREE)
        elif case["audit"] == "index-level flags":
            idx_flag_case(ctx, case["flags"], src, AUDIT_TREE, AUDIT_DIRS)
        else:
            predest_case(ctx, case["destination_holds"], case["configs"][0], src, AUDIT_TREE)
    finally:
        if _SharedState.st is not None:
            _SharedState.st.close()
            _SharedState.st = None
        impl.rm_rf(base)


def replay_case(ctx, case):
    problems = []
    if "audit" in case:
        replay_audit(ctx, case)
    elif "data" in case:
        items = []
        file_case(ctx, case, items)
    elif case.get("dvcignore"):
        ignore_case(ctx, case, [])
    elif case.get("restage"):
        restage_case(ctx, case, [])
    elif case.get("relink"):
        relink_case(ctx, case, [])
    else:
        tree_case(ctx, case, [], [], [])
    problems = [(v.signature, v.what) for v in ctx.violations if v.kind == "oracle"]
    return {"problems": problems, "violates": bool(problems)}
