"""C07 - corrupted objects are detected and dropped, never served; intact ones unharmed.

Real code driven: HashFileDB/LocalHashFileDB.check, oids_exist, add(verify=...), hashfile.checkout.checkout,
hash_file through a real State (sqlite) or StateNoop; environment steps (tamper, plant, touch, chmod,
delete, foreign state row, wiping the state) are done with plain os calls and an explicit os.utime clock.
The model (Model/Integrity.v, with the decision structure of both check bodies regenerated from the
source into Gen/Check.v) is evaluated inside coqc on the same histories.
"""

import json
import os
import stat as stat_

from lib import impl
from lib.core import cN, cbool, cbytes, clist, copt, ctor, vB, vL, vN, vopt, vset

PROPERTY = "C07"
GEN = ["check", "types", "state"]   # Gen/Check.v (own unit), Gen/PyTypes.v + Gen/State.v (State._get, C13's unit)
RULE = (
    "structured product: tamper pattern {append, truncate, same-length rewrite with new mtime, replace by "
    "another object's bytes (rename, new inode), empty} and intact controls {none, touch, chmod-only} x state "
    "entry {StateNoop, wiped, warm (re-hashed after the change), stale (row from before the change)} x store "
    "class {Local, Base} x query {check, oids_exist, checkout without and with a state, add(verify=True) with an honest and a corrupt "
    "source}; the same product (without checkout) for a .dir-suffixed id whose intact controls are left "
    "unprotected (0o644) so that they are really hashed; the re-checkout product: checkout of the object (file target without/with a state, or a directory "
    "target listing it) while intact, then the change, then the same checkout again on the same store directory - "
    "with the same odb object and with a re-created one; the read-only product: the same queries through a handle opened with read_only=True on the same "
    "directory (add through it must be refused); the tree-check product: dvc_data.hashfile.check(odb, tree) after a change of the tree's OWN .dir object "
    "(or of an entry) x state entry x class; the transfer product: build() of a workspace file, a change of it, "
    "transfer(staging, odb, ids, verify, hardlink) x copy/hardlink x prior object absent/intact/tampered; the fault product: removal of the objects of one shard directory (the target's or the "
    "bystander's) raises PermissionError, x tampers/intact x state entry x class x {check, oids_exist, checkout file "
    "without/with state, checkout dir, add(verify)}; plus seeded random histories (6-14 steps, one in five with such a fault) over add/check/oids_exist/checkout/tamper (also "
    "keeping 0o444, other modes, mtime-restoring)/plant under a wrong name/delete/hash/foreign state row/"
    "wipe, ids with and without the .dir suffix. A case is non-trivial when a query met a mismatching "
    "object or an object with a state row."
)
ASSUMPTIONS = [
    "the state row of an object, when recorded under the object's current (ino, mtime, size), tells the truth "
    "(the `token changed` hypothesis: every listed tamper pattern changes the token; an mtime-restoring "
    "rewrite under a warm row and rows written by add(verify=False) over a mismatching file are outside "
    "the quantifier and are not judged by the oracle)",
    "a Local object whose mode is exactly 0o444 is trusted (the property's `not write-protected`)",
    "object ids of one add call are pairwise distinct; sources exist; copies do not fail",
    "the order in which diff() checks the entries of a directory target (iteration of a Python set) is observed "
    "and passed to the model; the theorems hold for every order",
    "_checksum (fsspec tokenize of [ino, mtime, size]) is injective on the tokens in play",
    "files created by the implementation get an mtime strictly above every earlier one (the harness spins "
    "on the kernel's coarse clock before each add)",
]

IMPORTS = "From Coq Require Import NArith List.\nFrom DvcData Require Import Model.Integrity Model.IntegrityFault."

POOL = [b"alpha-1", b"beta-22", b"", b"gamma gamma gamma", b"d", b"ALPHA-1"]
MODES = [0o644, 0o444, 0o600, 0o664, 0o400]
ABSENT = "0" * 32


def tree_listing(ents):
    """[(name, md5 of POOL[k])] of a tree reference ["tree", [[name, k], ...]]"""
    return [(nm, impl.md5hex(POOL[k])) for nm, k in ents]


def oid_of(ref):
    k, suf = ref
    if k == "tree":   # the .dir object of the directory listing suf (independent canonical encoder)
        return impl.dir_oid(tree_listing(suf))
    return (ABSENT if k < 0 else impl.md5hex(POOL[k])) + suf


def src_bytes(ref, sk):
    """source contents of an add/plant item: POOL[sk], or the tree's own serialisation for sk == "self" """
    if sk == "self":
        return impl.canon_listing(tree_listing(ref[1]))
    return POOL[sk]


SHARED: dict = {}


class Clock:
    def __init__(self):
        self.t = 1_000_000_000

    def tick(self):
        self.t += 1
        return self.t * 1_000_000_000


class Real:
    """one store + state in a scratch dir"""

    def __init__(self, ctx, case):
        from dvc_data.hashfile.state import State, StateNoop

        self.case = case
        self.ctx = ctx
        self.root = ctx.fresh("c07")
        self.cls = case["cls"]
        self.store = os.path.join(self.root, "store")
        self.src = os.path.join(self.root, "src")
        self.ws = os.path.join(self.root, "ws")
        os.makedirs(self.src)
        os.makedirs(self.ws)
        self.tmpn = 0
        self.wsn = 0
        self.clock = Clock()
        self.last_wall = 0
        self.syn = 0
        self.state_on = case["state"]
        self._State, self._StateNoop = State, StateNoop
        self.state = self._mkstate()
        self.fault = case.get("fault")  # 2-character shard whose objects cannot be removed, or None
        self.fs = self._mkfs()
        self.ro = False  # the current handle was opened with read_only=True
        self.odb = self.mk_odb()
        os.makedirs(self.store, exist_ok=True)
        self.known = set()  # oids ever touched

    def _mkfs(self):
        """the store's own file system object; with a fault, removing anything below the chosen shard
        directory raises PermissionError (read-only / foreign-owned shard of a shared cache)"""
        from dvc_objects.fs.local import LocalFileSystem

        fs = LocalFileSystem()
        if self.fault:
            shard = os.path.join(os.path.abspath(self.store), self.fault) + os.sep
            real_remove = fs.remove

            def remove(path, *a, **kw):
                for q in ([path] if isinstance(path, str) else list(path)):
                    if os.path.abspath(q).startswith(shard):
                        raise PermissionError(13, "Permission denied", q)
                return real_remove(path, *a, **kw)

            fs.remove = remove
            fs.rm = remove
        return fs

    def mk_odb(self):
        from dvc_data.hashfile.db import HashFileDB
        from dvc_data.hashfile.db.local import LocalHashFileDB

        k = LocalHashFileDB if self.cls == "local" else HashFileDB
        return k(self.fs, os.path.abspath(self.store), state=self.state, verify=self.case.get("verify", False),
                 read_only=self.ro)

    def faulty(self, oid):
        return bool(self.fault) and oid[:2] == self.fault

    def _mkstate(self):
        """one real State (sqlite) is shared by all cases of a run: rows are keyed by absolute path and
        every case has its own store directory; it is emptied at the end of each case"""
        if not self.state_on:
            return self._StateNoop()
        if SHARED.get("state") is None or SHARED.get("owner") is not self.ctx:
            SHARED["owner"] = self.ctx
            SHARED["state"] = self._State(root_dir=self.ctx.tmpdir(), tmp_dir=os.path.join(self.ctx.tmpdir(), "state-tmp"))
        return SHARED["state"]

    def wipe_state(self):
        if self.state_on:
            self.state.hashes.clear()

    def close(self):
        self.wipe_state()
        impl.rm_rf(self.root)

    def path(self, oid):
        return os.path.join(self.store, oid[:2], oid[2:])

    def stat(self, oid):
        try:
            s = os.stat(self.path(oid))
        except FileNotFoundError:
            return None
        return {"ino": s.st_ino, "mtime": s.st_mtime, "mtime_ns": s.st_mtime_ns, "size": s.st_size,
                "mode": stat_.S_IMODE(s.st_mode)}

    def read(self, oid):
        try:
            with open(self.path(oid), "rb") as f:
                return f.read()
        except FileNotFoundError:
            return None

    def row(self, oid):
        """(alg, value, checksum) of the state row of the object's path, read back from sqlite"""
        if not self.state_on:
            return None
        raw = self.state.hashes.get(self.path(oid))
        if not raw:
            return None
        e = json.loads(raw)
        (alg, val), = e["hash_info"].items()
        return alg, val, e["checksum"]

    @staticmethod
    def checksum(st):
        from fsspec.utils import tokenize

        return str(int(tokenize([st["ino"], st["mtime"], st["size"]]), 16))

    def snap(self):
        """independent ground truth about every object in play"""
        out = {}
        for o in self.known:
            st = self.stat(o)
            if st is None:
                out[o] = {"exists": False}
                continue
            b = self.read(o)
            r = self.row(o)
            honest = True
            if r is not None and r[2] == self.checksum(st) and r[0] == "md5":
                honest = r[1].split(".")[0] == impl.md5hex(b)
            out[o] = {"exists": True, "bytes": b, "mode": st["mode"], "intact": impl.md5hex(b) == o.split(".")[0],
                      "honest": honest, "row": r is not None, "tok": (st["ino"], st["mtime_ns"], st["size"])}
        return out

    def advance_wall_clock(self):
        """spin until files created now get an mtime above every mtime the implementation produced"""
        probe = os.path.join(self.root, "probe")
        while True:
            with open(probe, "wb"):
                pass
            os.utime(probe)
            if os.stat(probe).st_mtime_ns > self.last_wall:
                return

    def note_wall(self, oid):
        st = self.stat(oid)
        if st is not None and st["mtime_ns"] > 1_500_000_000 * 10**9:
            self.last_wall = max(self.last_wall, st["mtime_ns"])


def tok_term(st):
    return ctor("T", cN(st["ino"]), cN(st["mtime_ns"]), cN(st["size"]))


def exc_code(exc):
    n = type(exc).__name__
    return {"ObjectDBPermissionError": 1, "FileNotFoundError": 2, "ObjectFormatError": 3, "CheckoutError": 5,
            "PermissionError": 98}.get(n, 99)


def tamper_bytes(pattern, old, other):
    if pattern == "append":
        return old + b"X"
    if pattern == "truncate":
        return old[:-1]
    if pattern in ("rewrite", "restore"):
        return (bytes([old[0] ^ 0x20]) + old[1:]) if old else old
    if pattern == "replace":
        return other
    if pattern == "empty":
        return b""
    return old  # touch / chmod


def run_case(ctx, case):
    """returns (input_term, expected_val, problems, nontrivial, tags)"""
    from dvc_objects.fs.local import localfs

    from dvc_data.hashfile.checkout import checkout
    from dvc_data.hashfile.hash import hash_file
    from dvc_data.hashfile.hash_info import HashInfo
    from dvc_data.hashfile.obj import HashFile

    R = Real(ctx, case)
    ops_t, outs, problems, tags = [], [], [], set()
    nontrivial = False
    table = {}

    def H(b):
        table[bytes(b)] = impl.md5hex(b)
        return table[bytes(b)]

    def fail(sig, what):
        problems.append((sig, what))

    def judge_unharmed(pre, post, where):
        for o, p in pre.items():
            if p["exists"] and p["intact"] and p["honest"]:
                q = post[o]
                if not q["exists"] or q["bytes"] != p["bytes"]:
                    fail("C07:intact-lost:" + where, f"intact object {o} was deleted or altered by {where}")

    def tampered(p, local_only_mode=True):
        return p["exists"] and not p["intact"] and p["mode"] != 0o444 and p["honest"]

    try:
        for op in case["ops"]:
            kind = op[0]
            if kind in ("check", "exist", "checkout", "add"):
                pre = R.snap()
            if kind == "add":
                _, verify, items = op
                eff = R.odb.verify if verify is None else verify
                oids = [oid_of(r) for r, _ in items]
                for o in oids:
                    R.known.add(o)
                pre = R.snap()
                paths = []
                for i, (r_, sk) in enumerate(items):
                    p = os.path.join(R.src, f"s{len(ops_t)}_{i}")
                    with open(p, "wb") as f:
                        f.write(src_bytes(r_, sk))
                    H(src_bytes(r_, sk))
                    paths.append(p)
                R.advance_wall_clock()
                errs = []
                kw = {} if verify is None else {"verify": verify}
                try:
                    n = R.odb.add(paths, localfs, oids, on_error=lambda o, e: errs.append((o, exc_code(e))), **kw)
                    res = ("ok", n)
                except Exception as exc:  # noqa: BLE001
                    res = ("abort", 98) if (R.fault and exc_code(exc) == 98) else ("exc", type(exc).__name__)
                post = R.snap()
                its = []
                for o, (r_, sk) in zip(oids, items):
                    st = R.stat(o)
                    if st is None:
                        R.syn += 1
                        st = {"ino": 0, "mtime_ns": R.syn, "size": len(src_bytes(r_, sk))}
                    else:
                        R.note_wall(o)
                    its.append("(%s, %s, %s)" % (cbytes(o), cbytes(src_bytes(r_, sk)), tok_term(st)))
                ops_t.append(ctor("OAdd", copt(verify, cbool), clist(its)))
                if R.ro:
                    # add through a read_only=True handle: refused (after the pre-verification)
                    ops_t[-1] = ctor("OAddRO", copt(verify, cbool), clist(its))
                    tags.add("ro:add")
                    if res == ("exc", "ObjectDBPermissionError"):
                        outs.append(vL([vN(1), vN(1)]))
                    elif res[0] == "abort":
                        outs.append(ABORT)
                    else:
                        outs.append(vL([vN(99)]))
                        fail("C07:readonly-add-accepted", f"add through a read-only handle returned {res}")
                    if any(q["exists"] and not pre[o]["exists"] for o, q in post.items()):
                        fail("C07:readonly-add-modified", "add through a read-only handle created an object")
                    judge_unharmed(pre, post, "add")
                    continue
                if res[0] == "ok":
                    outs.append(vL([vN(2), vN(res[1]), vL([vB(o) for o, _ in errs])]))
                    if any(c != 3 for _, c in errs):
                        fail("C07:add-unexpected-error", f"add reported {errs}")
                elif res[0] == "abort":
                    outs.append(ABORT)
                    tags.add("fault:add-aborted")
                else:
                    outs.append(vL([vN(99)]))
                    fail("C07:add-raised:" + res[1], f"add raised {res[1]}")
                tags.add("add:verify" if eff else "add:plain")
                # oracle
                judge_unharmed(pre, post, "add")
                if eff and res[0] == "ok":
                    for o, (r_, sk) in zip(oids, items):
                        p = pre[o]
                        if p["exists"] and (not p["honest"] or (R.cls == "local" and p["mode"] == 0o444 and not p["intact"])):
                            continue
                        nontrivial = True
                        q = post[o]
                        if q["exists"] and not q["intact"]:
                            fail("C07:verify-retained-mismatch", f"store with verify retained mismatching object {o} after add")
                        src_ok = impl.md5hex(src_bytes(r_, sk)) == o.split(".")[0]
                        kept_old = p["exists"] and p["intact"]
                        if not src_ok and not kept_old and (o, 3) not in errs:
                            fail("C07:verify-drop-not-reported", f"object {o} dropped by verification was not reported through on_error")
            elif kind == "check":
                o = oid_of(op[1])
                R.known.add(o)
                pre = R.snap()
                try:
                    R.odb.check(o)
                    code = 0
                except Exception as exc:  # noqa: BLE001
                    code = exc_code(exc)
                post = R.snap()
                ops_t.append(ctor("OCheck", cbytes(o)))
                outs.append(vL([vN(1), vN(code)]))
                p, q = pre[o], post[o]
                judge_unharmed(pre, post, "check")
                if code == 98:
                    tags.add("fault:check-aborted")
                if p["exists"] and (not p["intact"] or p["row"]):
                    nontrivial = True
                if tampered(p):
                    tags.add("check:tampered")
                    if code != 3 and not (code == 98 and R.faulty(o)):
                        fail("C07:corrupt-accepted:check", f"check({o}) returned code {code} for a mismatching, unprotected object")
                    if q["exists"] and not R.faulty(o):
                        fail("C07:corrupt-not-deleted:check", f"check({o}) left the mismatching object in the store")
                elif p["exists"] and p["intact"] and p["honest"]:
                    tags.add("check:intact")
                    if code != 0:
                        fail("C07:intact-rejected:check", f"check({o}) failed with code {code} on an intact object")
                    if R.cls == "local" and q["exists"] and q["mode"] != 0o444:
                        fail("C07:intact-not-protected", f"successful check left local object {o} with mode {oct(q['mode'])}")
            elif kind == "exist":
                oids = [oid_of(r) for r in op[1]]
                for o in oids:
                    R.known.add(o)
                pre = R.snap()
                try:
                    got = list(R.odb.oids_exist(oids))
                    if R.cls == "base":  # dvc_objects answers with a set: compared canonically
                        got = sorted(set(got))
                    ok = True
                except Exception as exc:  # noqa: BLE001
                    got, ok = [], False
                    if R.fault and exc_code(exc) == 98:
                        ok = None  # the failed removal left the query: an error, nothing reported
                        tags.add("fault:exist-aborted")
                    else:
                        fail("C07:oids_exist-raised:" + type(exc).__name__, "oids_exist raised")
                post = R.snap()
                ops_t.append(ctor("OExist", clist([cbytes(o) for o in oids])))
                outs.append(vL([vN(3), vL([vB(o) for o in got])]) if ok else (ABORT if ok is None else vL([vN(99)])))
                judge_unharmed(pre, post, "oids_exist")
                for o in oids:
                    p, q = pre[o], post[o]
                    if p["exists"] and (not p["intact"] or p["row"]):
                        nontrivial = True
                    if R.cls == "local" and tampered(p):
                        tags.add("exist:tampered")
                        if o in got:
                            fail("C07:corrupt-accepted:oids_exist", f"oids_exist reported mismatching object {o}")
                        if q["exists"] and not R.fault:
                            fail("C07:corrupt-not-deleted:oids_exist", f"oids_exist left mismatching object {o}")
                    elif p["exists"] and p["intact"] and p["honest"]:
                        tags.add("exist:intact")
                        if o not in got and ok is not None:
                            fail("C07:intact-rejected:oids_exist", f"oids_exist dropped intact object {o}")
            elif kind == "checkout":
                o = oid_of(op[1])
                with_state = len(op) > 2 and bool(op[2])
                R.known.add(o)
                pre = R.snap()
                R.wsn += 1
                dest = os.path.join(R.ws, f"out{R.wsn}")
                obj = HashFile(None, None, HashInfo("md5", o))
                try:
                    checkout(dest, localfs, obj, R.odb, state=R.state if with_state else None, quiet=True)
                    code = 0
                except Exception as exc:  # noqa: BLE001
                    code = exc_code(exc)
                    if with_state and code == 2:
                        # with a state, a single-file target whose source is gone fails in _save_link
                        # (stat of the never-created path) before CheckoutError is raised: a refusal
                        # with another exception class; nothing is materialised (checked below)
                        tags.add("checkout:refused-as-FileNotFoundError")
                        code = 5
                post = R.snap()
                got = None
                if os.path.lexists(dest):
                    with open(dest, "rb") as f:
                        got = f.read()
                ops_t.append(ctor("OCheckout", cbytes(o)))
                aborted = bool(R.fault) and code == 98
                if aborted:
                    tags.add("fault:checkout-aborted")
                outs.append(ABORT if aborted else vL([vN(4), vN(code), vopt(got, vB)]))
                p = pre[o]
                judge_unharmed(pre, post, "checkout")
                if p["exists"] and (not p["intact"] or p["row"]):
                    nontrivial = True
                if tampered(p):
                    tags.add("checkout:tampered")
                    if (code != 5 and not aborted) or got is not None:
                        fail("C07:corrupt-materialised", f"checkout of mismatching object {o}: code {code}, workspace file {'present' if got is not None else 'absent'}")
                    if post[o]["exists"] and not R.faulty(o):
                        fail("C07:corrupt-not-deleted:checkout", f"checkout left mismatching object {o} in the cache")
                elif p["exists"] and p["intact"] and p["honest"]:
                    tags.add("checkout:intact")
                    if code != 0 or got != p["bytes"]:
                        fail("C07:intact-not-materialised", f"checkout of intact object {o}: code {code}")
            elif kind == "checkoutdir":
                from dvc_data.hashfile.meta import Meta
                from dvc_data.hashfile.tree import Tree

                ents = [(nm, oid_of(r)) for nm, r in op[1]]
                tree = Tree()
                for nm, o in ents:
                    tree.add((nm,), Meta(), HashInfo("md5", o))
                    R.known.add(o)
                tree.digest()
                d = tree.hash_info.value
                R.known.add(d)
                pre = R.snap()
                R.wsn += 1
                dest = os.path.join(R.ws, f"dir{R.wsn}")
                # diff() walks a SET of keys: the order in which the entries are checked is the
                # implementation's internal choice; it is observed and handed to the model (it only
                # matters when a failing removal leaves the operation half-way)
                order = []
                orig_check = R.odb.check

                def rec_check(oid_, *a_, **kw_):
                    order.append(oid_)
                    return orig_check(oid_, *a_, **kw_)

                R.odb.check = rec_check
                try:
                    checkout(dest, localfs, tree, R.odb, state=None, quiet=True)
                    code = 0
                except Exception as exc:  # noqa: BLE001
                    code = exc_code(exc)
                finally:
                    del R.odb.check
                ents_m = sorted(ents, key=lambda e: order.index(e[1]) if e[1] in order else len(order))
                post = R.snap()
                got = impl.walk_files(dest) if os.path.isdir(dest) else {}
                ops_t.append(ctor("OCheckoutDir", cbytes(d),
                                  clist(["(%s, %s)" % (cbytes(nm), cbytes(o)) for nm, o in ents_m])))
                aborted = bool(R.fault) and code == 98
                if aborted:
                    tags.add("fault:checkoutdir-aborted")
                outs.append(ABORT if aborted else
                            vL([vN(6), vN(code), vL([vL([vB(nm), vB(b)]) for nm, b in sorted(got.items())])]))
                judge_unharmed(pre, post, "checkout")
                for nm, o in ents:
                    p = pre[o]
                    if p["exists"] and (not p["intact"] or p["row"]):
                        nontrivial = True
                    if tampered(p):
                        tags.add("checkoutdir:tampered")
                        if (code != 5 and not aborted) or nm in got:
                            fail("C07:corrupt-materialised", f"directory checkout with mismatching object {o} at {nm}: code {code}, workspace file {'present' if nm in got else 'absent'}")
                        if post[o]["exists"] and not R.fault:
                            fail("C07:corrupt-not-deleted:checkout", f"directory checkout left mismatching object {o} in the cache")
                    elif p["exists"] and p["intact"] and p["honest"]:
                        tags.add("checkoutdir:intact")
                        if got.get(nm) != p["bytes"] and not aborted:
                            fail("C07:intact-not-materialised", f"directory checkout did not materialise intact object {o} at {nm}")
            elif kind == "handle":
                # switch to a handle opened with read_only=True / False on the same directory: no model
                # step (check / oids_exist / checkout ignore the option; add becomes OAddRO)
                R.ro = op[1] == "ro"
                R.odb = R.mk_odb()
                tags.add("env:handle:" + op[1])
            elif kind == "reopen":
                # a new odb object on the same store directory (same state): no model step
                R.odb = R.mk_odb()
                tags.add("env:reopen")
            elif kind in ("tamper", "plant"):
                if kind == "tamper":
                    _, ref, pattern, mode, other = op
                    o = oid_of(ref)
                    old = R.read(o)
                    if old is None:
                        continue  # nothing to tamper with; the step is dropped from the history
                    new = tamper_bytes(pattern, old, POOL[other])
                    old_st = R.stat(o)
                else:
                    _, ref, sk, mode = op
                    o = oid_of(ref)
                    pattern, new, old = "replace", src_bytes(ref, sk), None
                R.known.add(o)
                p = R.path(o)
                os.makedirs(os.path.dirname(p), exist_ok=True)
                if pattern == "replace":
                    tmp = p + ".tmp-replace"
                    with open(tmp, "wb") as f:
                        f.write(new)
                    os.replace(tmp, p)
                elif pattern in ("touch", "chmod"):
                    pass
                else:
                    os.chmod(p, 0o644)
                    with open(p, "r+b") as f:
                        f.truncate(0)
                        f.write(new)
                if mode is not None:
                    os.chmod(p, mode)
                if pattern == "restore":
                    os.utime(p, ns=(old_st["mtime_ns"], old_st["mtime_ns"]))
                elif pattern != "chmod":
                    t = R.clock.tick()
                    os.utime(p, ns=(t, t))
                st = R.stat(o)
                H(new)
                ops_t.append(ctor("OSet", cbytes(o), cbytes(new), cN(st["mode"]), tok_term(st)))
                outs.append(vL([]))
                tags.add(f"env:{kind}:{pattern}")
            elif kind == "del":
                o = oid_of(op[1])
                R.known.add(o)
                p = R.path(o)
                if os.path.lexists(p):
                    os.unlink(p)
                ops_t.append(ctor("ODel", cbytes(o)))
                outs.append(vL([]))
            elif kind == "checktree":
                # dvc_data.hashfile.check(odb, tree): every entry, then the tree's own .dir object
                from dvc_data.hashfile import check as tree_check
                from dvc_data.hashfile.meta import Meta
                from dvc_data.hashfile.tree import Tree

                ents = op[1]
                tree = Tree()
                for nm, k in ents:
                    tree.add((nm,), Meta(), HashInfo("md5", impl.md5hex(POOL[k])))
                tree.digest()
                d = oid_of(["tree", ents])
                if tree.hash_info.value != d or tree.as_bytes() != impl.canon_listing(tree_listing(ents)):
                    fail("C07:harness:tree-encoding", "independent directory encoder disagrees with Tree")
                seq = [impl.md5hex(POOL[k]) for _, k in ents] + [d]
                for o in seq:
                    R.known.add(o)
                pre = R.snap()
                order = []
                orig_check = R.odb.check

                def rec_check2(oid_, *a_, **kw_):
                    order.append(oid_)
                    return orig_check(oid_, *a_, **kw_)

                R.odb.check = rec_check2
                try:
                    tree_check(R.odb, tree)
                    code = 0
                except Exception as exc:  # noqa: BLE001
                    code = exc_code(exc)
                finally:
                    del R.odb.check
                post = R.snap()
                # the model gets the observed sequence, then what was not reached (entries, then the tree)
                rest = [o for o in seq if o not in order]
                ops_t.append(ctor("OCheckSeq", clist([cbytes(o) for o in order + rest])))
                outs.append(vL([vN(1), vN(code)]))
                judge_unharmed(pre, post, "checktree")
                nontrivial = True
                if code == 98:
                    tags.add("fault:check-aborted")
                bad = [o for o in seq if tampered(pre[o])]
                good = [o for o in seq if pre[o]["exists"] and pre[o]["intact"] and pre[o]["honest"]]
                if bad:
                    tags.add("checktree:tampered" + (":own" if d in bad else ""))
                    if code == 0:
                        fail("C07:corrupt-accepted:checktree", f"check(odb, tree) passed although {bad} mismatch their names")
                    if bad == [d] and len(good) == len(seq) - 1 and not R.faulty(d):
                        if code != 3:
                            fail("C07:corrupt-accepted:checktree", f"check(odb, tree) returned code {code} for a mismatching .dir object")
                        if post[d]["exists"]:
                            fail("C07:corrupt-not-deleted:checktree", f"check(odb, tree) left the mismatching .dir object {d}")
                elif len(good) == len(seq):
                    tags.add("checktree:intact")
                    if code != 0:
                        fail("C07:intact-rejected:checktree", f"check(odb, tree) failed with code {code} on intact objects")
                    if R.cls == "local":
                        for o in seq:
                            if post[o]["exists"] and post[o]["mode"] != 0o444:
                                fail("C07:intact-not-protected", f"successful check(odb, tree) left local object {o} with mode {oct(post[o]['mode'])}")
            elif kind == "xfer":
                # build() stages a workspace file; the file is changed; transfer(staging, odb, {id}, verify, hardlink)
                from dvc_data.hashfile.build import build
                from dvc_data.hashfile.transfer import transfer

                _, ref, change, verify, hardlink = op
                o = oid_of(ref)
                R.known.add(o)
                R.wsn += 1
                wsf = os.path.join(R.ws, f"src{R.wsn}")
                orig = POOL[ref[0]]
                with open(wsf, "wb") as f:
                    f.write(orig)
                t = R.clock.tick()
                os.utime(wsf, ns=(t, t))
                staging, _, sobj = build(R.odb, wsf, localfs, "md5")
                if sobj.hash_info.value != o:
                    fail("C07:harness:build-oid", "build() named the staged file differently")
                new = tamper_bytes(change, orig, POOL[(ref[0] + 1) % len(POOL)])
                if change != "none":
                    if change == "replace":
                        with open(wsf + ".new", "wb") as f:
                            f.write(new)
                        os.replace(wsf + ".new", wsf)
                    else:
                        with open(wsf, "r+b") as f:
                            f.truncate(0)
                            f.write(new)
                    t = R.clock.tick()
                    os.utime(wsf, ns=(t, t))
                H(new)
                pre = R.snap()
                R.advance_wall_clock()
                dest = R.odb
                if R.ro:  # a transfer needs a writable handle on the directory
                    R.ro = False
                    dest = R.mk_odb()
                    R.ro = True
                try:
                    res = transfer(staging, dest, {sobj.hash_info}, verify=verify, hardlink=hardlink)
                    tr, fl = sorted(h.value for h in res.transferred), sorted(h.value for h in res.failed)
                    code = 0
                except Exception as exc:  # noqa: BLE001
                    code, tr, fl = exc_code(exc), [], []
                post = R.snap()
                st = R.stat(o)
                if st is None:
                    if hardlink:
                        s_ = os.stat(wsf)
                        st = {"ino": s_.st_ino, "mtime_ns": s_.st_mtime_ns, "size": s_.st_size}
                    else:
                        R.syn += 1
                        st = {"ino": 0, "mtime_ns": R.syn, "size": len(new)}
                else:
                    R.note_wall(o)
                ops_t.append(ctor("OXfer", cbool(verify), clist(["(%s, %s, %s)" % (cbytes(o), cbytes(new), tok_term(st))])))
                if code == 0:
                    outs.append(vL([vN(7), vset(tr), vset(fl)]))
                elif R.fault and code == 98:
                    outs.append(ABORT)
                    tags.add("fault:xfer-aborted")
                else:
                    outs.append(vL([vN(99)]))
                    fail("C07:transfer-raised", f"transfer raised (code {code})")
                tags.add("xfer:" + ("verify" if verify else "plain") + ("/hardlink" if hardlink else "/copy"))
                judge_unharmed(pre, post, "transfer")
                p = pre[o]
                if verify and code == 0 and not (p["exists"] and (not p["honest"] or (R.cls == "local" and p["mode"] == 0o444 and not p["intact"]))) \
                        and not (R.cls == "base" and p["exists"]):
                    nontrivial = True
                    q = post[o]
                    if q["exists"] and not q["intact"]:
                        fail("C07:verify-retained-mismatch:transfer", f"verifying transfer (hardlink={hardlink}) retained mismatching object {o}")
                    src_ok = impl.md5hex(new) == o.split(".")[0]
                    if not src_ok and not (p["exists"] and p["intact"]):
                        tags.add("xfer:corrupt-source")
                        if o not in fl or o in tr:
                            fail("C07:verify-drop-not-reported:transfer", f"corrupt source {o}: transferred={tr} failed={fl}")
            elif kind == "hash":
                o = oid_of(op[1])
                R.known.add(o)
                try:
                    _, hi = hash_file(R.path(o), localfs, "md5", R.state)
                    v = hi.value
                except FileNotFoundError:
                    v = None
                ops_t.append(ctor("OHash", cbytes(o)))
                outs.append(vL([vN(5), vopt(v, vB)]))
            elif kind == "saverow":
                _, ref, alg, vref = op
                o = oid_of(ref)
                R.known.add(o)
                v = oid_of(vref)
                try:
                    R.state.save(R.path(o), localfs, HashInfo(alg, v))
                    outs.append(vL([]))
                except FileNotFoundError:
                    outs.append(vL([vN(1), vN(2)]))
                ops_t.append(ctor("OSaveRow", cbytes(o), cbytes(alg), cbytes(v)))
            elif kind == "dropstate":
                R.wipe_state()
                ops_t.append("ODropState")
                outs.append(vL([]))
            else:
                raise ValueError(kind)
        # final world
        final = R.snap()
        listing = impl.walk_store(R.store)
        for o, (b, _) in listing.items():
            H(b)
        objs_v = vL([vL([vB(o), vB(b), vN(m)]) for o, (b, m) in sorted(listing.items())])
        rows = []
        for o in sorted(R.known):
            r = R.row(o)
            if r is None:
                continue
            st = R.stat(o)
            flag = 2 if st is None else (1 if r[2] == R.checksum(st) else 0)
            rows.append(vL([vB(o), vB(r[0]), vB(r[1]), vN(flag)]))
        exp = vL([vL(outs), vL([objs_v, vL(rows)])])
        del final
    finally:
        R.close()
    tbl = clist(["(%s, %s)" % (cbytes(b), cbytes(h)) for b, h in sorted(table.items())])
    inp = ctor("Case", "Local" if case["cls"] == "local" else "Base", cbool(case["state"]),
               cbool(case.get("verify", False)), cN(0o666 & ~UMASK), tbl, clist(ops_t))
    inp = ctor("FCase", inp, copt(case.get("fault"), cbytes))
    return inp, exp, problems, nontrivial, tags


ABORT = vL([vN(1), vN(98)])   # the operation was left by the OSError of a failed removal
UMASK = os.umask(0)
os.umask(UMASK)

# ---------------------------------------------------------------------------------------------
# generators

T, B, O = [0, ""], [1, ""], [3, ""]     # target, bystander, third object


def product_cases(full=True):
    out = []
    changes = [("append", 0o644), ("truncate", 0o644), ("rewrite", 0o644), ("replace", 0o644), ("empty", 0o644),
               ("none", None), ("touch", None), ("chmod", 0o644)]
    for cls in ("local", "base"):
        for pattern, mode in changes:
            for entry in (("noop", "wiped", "warm", "stale") if full else ("noop", "warm", "stale")):
                for query in ("check", "exist", "checkout", "checkoutst", "addverify"):
                    ops = [["add", None, [[T, 0], [B, 1]]]]
                    if pattern != "none":
                        ops.append(["tamper", T, pattern, mode, 3])
                    if entry == "wiped":
                        ops.append(["dropstate"])
                    elif entry == "warm":
                        ops.append(["hash", T])
                    if query == "check":
                        ops += [["check", T], ["check", B], ["check", T]]
                    elif query == "exist":
                        ops += [["exist", [B, T, [-1, ""]]], ["exist", [T]]]
                    elif query == "checkout":
                        ops += [["checkout", T], ["checkout", B]]
                    elif query == "checkoutst":
                        ops += [["checkout", T, True], ["checkout", B, True], ["check", B]]
                    else:
                        ops += [["add", True, [[T, 0], [O, 4]]], ["check", T]]
                    out.append({"cls": cls, "state": entry != "noop", "verify": False, "ops": ops,
                                "tag": f"{pattern}/{entry}/{query}"})
    # directory objects (.dir-suffixed ids: the name carries a suffix the digest does not): intact
    # controls and tampers x state regimes x classes x {check, oids_exist, add(verify)}; the controls
    # leave the object NOT write-protected so that it really gets hashed in the cold/stale regimes
    TD = [0, ".dir"]
    dchanges = [("none", None), ("touch", 0o644), ("chmod", 0o644), ("append", 0o644), ("replace", 0o644),
                ("truncate", 0o644), ("rewrite", 0o644), ("empty", 0o644)]
    for cls in ("local", "base"):
        for pattern, mode in (dchanges if full else dchanges[:5]):
            for entry in (("noop", "wiped", "warm", "stale") if full else ("noop", "wiped", "stale")):
                for query in ("check", "exist", "addverify"):
                    ops = [["add", None, [[TD, 0], [B, 1]]]]
                    if pattern != "none":
                        ops.append(["tamper", TD, pattern, mode, 3])
                    if entry == "wiped":
                        ops.append(["dropstate"])
                    elif entry == "warm":
                        ops.append(["hash", TD])
                    if query == "check":
                        ops += [["check", TD], ["check", B], ["check", TD]]
                    elif query == "exist":
                        ops += [["exist", [B, TD, [-1, ".dir"]]], ["exist", [TD]]]
                    else:
                        ops += [["add", True, [[TD, 0], [[3, ".dir"], 3], [[4, ".dir"], 1]]], ["check", TD],
                                ["exist", [TD, [3, ".dir"], [4, ".dir"]]]]
                    out.append({"cls": cls, "state": entry != "noop", "verify": False, "ops": ops,
                                "tag": f"dir:{pattern}/{entry}/{query}"})
    # queries through a handle opened with read_only=True (objects were added through a writable one)
    rchanges = [("append", 0o644), ("replace", 0o644), ("rewrite", 0o644), ("none", None), ("chmod", 0o644),
                ("truncate", 0o644), ("empty", 0o644), ("touch", None)]
    for cls in ("local", "base"):
        for pattern, mode in (rchanges if full else rchanges[:5]):
            for entry in (("noop", "wiped", "warm", "stale") if full else ("noop", "stale")):
                for query in ("check", "exist", "checkout", "checkoutdir", "addro"):
                    ops = [["add", None, [[T, 0], [B, 1]]]]
                    if pattern != "none":
                        ops.append(["tamper", T, pattern, mode, 3])
                    if entry == "wiped":
                        ops.append(["dropstate"])
                    elif entry == "warm":
                        ops.append(["hash", T])
                    ops.append(["handle", "ro"])
                    if query == "check":
                        ops += [["check", T], ["check", B], ["check", T]]
                    elif query == "exist":
                        ops += [["exist", [B, T, [-1, ""]]], ["exist", [T]]]
                    elif query == "checkout":
                        ops += [["checkout", T], ["checkout", B, True]]
                    elif query == "checkoutdir":
                        ops += [["checkoutdir", [["t", T], ["b", B]]], ["checkout", T]]
                    else:
                        ops += [["add", True, [[T, 0], [O, 4]]], ["add", False, [[O, 3]]], ["handle", "rw"],
                                ["check", T], ["add", True, [[T, 0], [O, 4]]]]
                    out.append({"cls": cls, "state": entry != "noop", "verify": False, "ops": ops,
                                "tag": f"ro:{pattern}/{entry}/{query}"})
    # the integrity check of a directory object: dvc_data.hashfile.check(odb, tree); the changed object
    # is the tree's OWN .dir object (plus controls where it is an entry)
    TE = [["t", 0], ["b", 1]]
    D = ["tree", TE]
    tchanges = [("append", 0o644), ("truncate", 0o644), ("rewrite", 0o644), ("replace", 0o644), ("empty", 0o644),
                ("none", None), ("touch", 0o644), ("chmod", 0o644)]
    for cls in ("local", "base"):
        for pattern, mode in tchanges:
            for entry in (("noop", "wiped", "warm", "stale") if full else ("noop", "warm")):
                for victim in ((D, T) if (full or pattern in ("append", "none")) else (D,)):
                    ops = [["add", None, [[T, 0], [B, 1], [D, "self"]]]]
                    if pattern != "none":
                        ops.append(["tamper", victim, pattern, mode, 3])
                    if entry == "wiped":
                        ops.append(["dropstate"])
                    elif entry == "warm":
                        ops.append(["hash", victim])
                    ops += [["checktree", TE], ["check", D], ["checktree", TE]]
                    out.append({"cls": cls, "state": entry != "noop", "verify": False, "ops": ops,
                                "tag": f"tree:{pattern}/{entry}/{'own' if victim is D else 'entry'}"})
    # transfer(staging, odb, ids, verify, hardlink) of a workspace file changed after build()
    for cls in ("local", "base"):
        for change in ("none", "append", "truncate", "rewrite", "replace", "empty"):
            for hardlink in (False, True):
                for verify in ((True, False) if (full or change in ("none", "append")) else (True,)):
                    for prior in (("absent", "intact", "tampered") if full else ("absent", "tampered")):
                        if not full and prior == "tampered" and (change not in ("none", "append") or not verify):
                            continue
                        for st_on in ((True, False) if full else (True,)):
                            ops = [["add", None, [[B, 1]]]]
                            if prior != "absent":
                                ops.append(["add", None, [[T, 0]]])
                            if prior == "tampered":
                                ops.append(["tamper", T, "append", 0o644, 3])
                            ops += [["xfer", T, change, verify, hardlink], ["check", T], ["exist", [T, B]],
                                    ["checkout", T]]
                            out.append({"cls": cls, "state": st_on, "verify": False, "ops": ops,
                                        "tag": f"xfer:{change}/{'hl' if hardlink else 'cp'}/{'V' if verify else '-'}/{prior}"})
    # one verifying add with several problematic sources in one batch, in every position
    c1, c2, h1, h2 = [[3, ""], 4], [[2, ""], 5], [[4, ""], 4], [[0, ""], 0]
    for cls in ("local", "base"):
        for st_on in (False, True):
            for batch in ([c1, c2], [c1, h1, c2], [c1, c2, h1], [h1, c1, c2], [h1, c1, h2, c2], [c2, c1, h1, h2]):
                oidrefs = [it[0] for it in batch]
                out.append({"cls": cls, "state": st_on, "verify": False,
                            "ops": [["add", None, [[B, 1]]], ["add", True, batch], ["exist", oidrefs + [B]],
                                    ["check", oidrefs[0]], ["check", oidrefs[-1]]],
                            "tag": "batch:" + "".join("c" if it in (c1, c2) else "h" for it in batch)})
    # fault stream: removing the objects of one shard directory fails with PermissionError; a query
    # on a tampered object of that shard must still not serve it (any error is an acceptable refusal)
    DIRQ = [["t", T], ["b", B]]
    fchanges = [("append", 0o644), ("replace", 0o644), ("none", None), ("rewrite", 0o644), ("truncate", 0o644), ("empty", 0o644)]
    for cls in ("local", "base"):
        for pattern, mode in (fchanges if full else fchanges[:3]):
            for entry in (("noop", "warm", "stale") if full else ("noop", "stale")):
                for query in ("check", "exist", "checkout", "checkoutst", "checkoutdir", "addverify"):
                    for shard_of in ((T, B) if (full or (pattern == "append" and entry == "stale")) else (T,)):
                        ops = [["add", None, [[T, 0], [B, 1]]]]
                        if pattern != "none":
                            ops.append(["tamper", T, pattern, mode, 3])
                        if entry == "warm":
                            ops.append(["hash", T])
                        if query == "check":
                            ops += [["check", T], ["check", B], ["check", T]]
                        elif query == "exist":
                            ops += [["exist", [B, T, [-1, ""]]], ["exist", [T, B]]]
                        elif query == "checkout":
                            ops += [["checkout", T], ["checkout", B], ["checkout", T]]
                        elif query == "checkoutst":
                            ops += [["checkout", T, True], ["checkout", B, True]]
                        elif query == "checkoutdir":
                            ops += [["checkoutdir", DIRQ], ["checkoutdir", [["b", B]]], ["checkout", T]]
                        else:
                            ops += [["add", True, [[B, 1], [T, 0], [O, 4]]], ["check", T], ["add", True, [[O, 4]]]]
                        out.append({"cls": cls, "state": entry != "noop", "verify": False, "ops": ops,
                                    "fault": oid_of(shard_of)[:2],
                                    "tag": f"fault:{pattern}/{entry}/{query}/{'target' if shard_of is T else 'bystander'}"})
    # checkout while intact, then the change, then checkout again: same oid, same store directory,
    # with the same odb object and with a re-created one; file targets and directory targets
    DIR = [["t", T], ["b", B]]
    for cls in ("local", "base"):
        for pattern, mode in (changes if full else [c for c in changes if c[0] in ("append", "rewrite", "replace", "none", "chmod")]):
            for entry in (("noop", "wiped", "warm", "stale") if full else ("noop", "stale")):
                for target in ("file", "filest", "dir"):
                    for reopen in (False, True):
                        if not full and target == "filest" and not reopen:
                            continue
                        first = {"file": ["checkout", T], "filest": ["checkout", T, True],
                                 "dir": ["checkoutdir", DIR]}[target]
                        ops = [["add", None, [[T, 0], [B, 1]]], first]
                        if pattern != "none":
                            ops.append(["tamper", T, pattern, mode, 3])
                        if entry == "wiped":
                            ops.append(["dropstate"])
                        elif entry == "warm":
                            ops.append(["hash", T])
                        if reopen:
                            ops.append(["reopen"])
                        ops.append(first)
                        if target == "dir":
                            ops.append(["checkout", T])
                        else:
                            ops.append(["checkoutdir", DIR])
                        out.append({"cls": cls, "state": entry != "noop", "verify": False, "ops": ops,
                                    "tag": f"{pattern}/{entry}/re-{target}{'/reopen' if reopen else ''}"})
    return out


def random_case(rng):
    cls = rng.choice(["local", "base"])
    refs = [[k, suf] for k in range(5) for suf in ("", "")] + [[0, ".dir"], [3, ".dir"]]
    ops = []
    n = rng.randint(6, 14)
    first = rng.sample(range(5), rng.randint(1, 3))
    ops.append(["add", None, [[[k, ""], k] for k in first]])
    for _ in range(n):
        r = rng.random()
        ref = rng.choice(refs)
        if r < 0.16:
            ks = rng.sample(refs, rng.randint(1, 3))
            seen, items = set(), []
            for kr in ks:
                if oid_of(kr) in seen:
                    continue
                seen.add(oid_of(kr))
                items.append([kr, kr[0] if rng.random() < 0.7 else rng.randrange(len(POOL))])
            ops.append(["add", rng.choice([None, True, True, False]), items])
        elif r < 0.32:
            ops.append(["check", ref])
        elif r < 0.42:
            ops.append(["exist", [rng.choice(refs + [[-1, ""]]) for _ in range(rng.randint(1, 4))]])
        elif r < 0.47:
            ops.append(["checkout", [ref[0], ""], rng.random() < 0.5])
        elif r < 0.50:
            ks = rng.sample(range(5), rng.randint(1, 3))
            ops.append(["checkoutdir", [[f"f{k}", [k, ""]] for k in ks]])
        elif r < 0.505:
            ops.append(["reopen"])
        elif r < 0.51:
            ops.append(["xfer", [rng.randrange(5), ""], rng.choice(["none", "append", "truncate", "rewrite", "replace", "empty"]),
                        rng.random() < 0.7, rng.random() < 0.5])
        elif r < 0.52:
            ops.append(["handle", rng.choice(["ro", "ro", "rw"])])
        elif r < 0.74:
            pat = rng.choice(["append", "truncate", "rewrite", "replace", "empty", "touch", "chmod", "rewrite", "restore"])
            mode = rng.choice([0o644, 0o644, 0o644, None, 0o444, 0o600, 0o664, 0o400])
            if pat == "chmod" and mode is None:
                mode = 0o644
            ops.append(["tamper", ref, pat, mode, rng.randrange(len(POOL))])
        elif r < 0.80:
            ops.append(["plant", ref, rng.randrange(len(POOL)), rng.choice(MODES)])
        elif r < 0.84:
            ops.append(["del", ref])
        elif r < 0.92:
            ops.append(["hash", ref])
        elif r < 0.96:
            ops.append(["saverow", ref, rng.choice(["md5", "md5", "md5-dos2unix"]),
                        rng.choice([ref, ref, [rng.randrange(5), ""]])])
        else:
            ops.append(["dropstate"])
    # the motif "seen intact by a checkout, changed, checked out again" on one store directory
    for _ in range(rng.randint(1, 2)):
        k = rng.randrange(5)
        tgt = [k, ""]
        dirents = [[f"f{j}", [j, ""]] for j in sorted({k, rng.randrange(5)})]
        look = lambda: (["checkoutdir", dirents] if rng.random() < 0.4 else ["checkout", tgt, rng.random() < 0.5])  # noqa: E731
        motif = [["add", rng.choice([None, True]), [[tgt, k]]], look(),
                 ["tamper", tgt, rng.choice(["append", "truncate", "rewrite", "replace", "empty", "touch", "chmod"]),
                  rng.choice([0o644, 0o644, 0o600, 0o444]), rng.randrange(len(POOL))]]
        if rng.random() < 0.4:
            motif.append(["reopen"])
        elif rng.random() < 0.3:
            motif.append(["handle", "ro"])
        if rng.random() < 0.3:
            motif.append(rng.choice([["hash", tgt], ["dropstate"]]))
        motif.append(look())
        at = rng.randint(1, len(ops))
        ops[at:at] = motif
    if rng.random() < 0.3:
        ks = sorted(rng.sample(range(5), rng.randint(1, 2)))
        te = [[f"e{k}", k] for k in ks]
        dref = ["tree", te]
        motif = [["add", rng.choice([None, True]), [[[k, ""], k] for k in ks] + [[dref, "self"]]]]
        if rng.random() < 0.7:
            motif.append(["tamper", rng.choice([dref, dref, [ks[0], ""]]),
                          rng.choice(["append", "truncate", "rewrite", "replace", "empty", "touch", "chmod"]),
                          rng.choice([0o644, 0o644, 0o600, 0o444]), rng.randrange(len(POOL))])
        if rng.random() < 0.3:
            motif.append(rng.choice([["hash", dref], ["dropstate"], ["handle", "ro"]]))
        motif.append(["checktree", te])
        at = rng.randint(1, len(ops))
        ops[at:at] = motif
    c = {"cls": cls, "state": rng.random() < 0.85, "verify": rng.random() < 0.3, "ops": ops, "tag": "random"}
    if rng.random() < 0.2:
        c["fault"] = oid_of([rng.randrange(5), ""])[:2]
    return c


def load_corpus():
    from lib.core import VERIF

    d = os.path.join(VERIF, "corpus", "C07")
    out = []
    if os.path.isdir(d):
        for n in sorted(os.listdir(d)):
            if n.endswith(".json"):
                with open(os.path.join(d, n)) as f:
                    out.append(json.load(f))
    return out


def run(ctx):
    cases = load_corpus() + product_cases(full=ctx.tier != "quick" or bool(ctx.changed_anchors))
    for _ in range(ctx.n(90, 1500)):
        cases.append(random_case(ctx.rng))
    items = []
    seen_tags = set()
    for c in cases:
        inp, exp, problems, nontrivial, tags = run_case(ctx, c)
        ctx.case(c, nontrivial)
        ctx.count("class:" + c["cls"])
        ctx.count("state:" + ("State" if c["state"] else "StateNoop"))
        ctx.count("kind:" + ("product" if c.get("tag") != "random" else "random"))
        for t in tags:
            ctx.count("branch:" + t)
            seen_tags.add(t)
        for sig, what in problems:
            ctx.oracle_fail(sig, what, c)
        items.append((c, inp, exp))
    if SHARED.get("state") is not None:
        SHARED["state"].close()
        SHARED.clear()
    ctx.obligation("oracle:integrity", not any(v.kind == "oracle" for v in ctx.violations),
                   f"{len(items)} histories on the real store judged step by step against independent ground truth")
    need = {"check:tampered", "check:intact", "exist:tampered", "exist:intact", "checkout:tampered",
            "checkout:intact", "checkoutdir:tampered", "checkoutdir:intact", "env:reopen", "add:verify",
            "fault:check-aborted", "fault:exist-aborted", "fault:checkout-aborted", "fault:checkoutdir-aborted",
            "fault:add-aborted", "env:handle:ro", "ro:add", "checktree:tampered:own", "checktree:intact",
            "xfer:verify/hardlink", "xfer:verify/copy", "xfer:corrupt-source"}
    ctx.obligation("generator:coverage", need <= seen_tags, "missing: " + ", ".join(sorted(need - seen_tags)))
    if not need <= seen_tags:
        ctx.broken("correspondence", "generator:coverage", "the generators no longer reach " + ", ".join(sorted(need - seen_tags)))
    ctx.correspond("integrity", IMPORTS, "fcase", "fenc_run", items, shard=64)


def replay_case(ctx, case):
    inp, exp, problems, nontrivial, tags = run_case(ctx, case)
    return {"problems": problems, "violates": bool(problems), "tags": sorted(tags)}
