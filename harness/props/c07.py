"""C07 - corrupted objects are detected and dropped, never served; intact ones unharmed.

Real code driven: HashFileDB/LocalHashFileDB.check, oids_exist, add(verify=...), hashfile.checkout.checkout,
hash_file through a real State (sqlite) or StateNoop; environment steps (tamper, plant, touch, chmod,
delete, foreign state row, wiping the state) are done with plain os calls and an explicit os.utime clock.
The model (Model/Integrity.v, with the decision structure of both check bodies regenerated from the
source into Gen/Check.v) is evaluated inside coqc on the same histories.
"""

import json
import os
import stat as stat_

from lib import impl
from lib.core import cN, cbool, cbytes, clist, copt, ctor, vB, vL, vN, vopt, vset

PROPERTY = "C07"
GEN = ["check", "types", "state"]   # Gen/Check.v (own unit), Gen/PyTypes.v + Gen/State.v (State._get, C13's unit)
RULE = (
    "structured product: tamper pattern {append, truncate, same-length rewrite with new mtime, replace by "
    "another object's bytes (rename, new inode), empty} and intact controls {none, touch, chmod-only} x state "
    "entry {StateNoop, wiped, warm (re-hashed after the change), stale (row from before the change)} x store "
    "class {Local, Base} x query {check, oids_exist, checkout without and with a state, add(verify=True) with an honest and a corrupt "
    "source}; the same product (without checkout) for a .dir-suffixed id whose intact controls are left "
    "unprotected (0o644) so that they are really hashed; the re-checkout product: checkout of the object (file target without/with a state, or a directory "
    "target listing it) while intact, then the change, then the same checkout again on the same store directory - "
    "with the same odb object and with a re-created one; the read-only product: the same queries through a handle opened with read_only=True on the same "
    "directory (add through it must be refused); the tree-check product: dvc_data.hashfile.check(odb, tree) after a change of the tree's OWN .dir object "
    "(or of an entry) x state entry x class; the transfer product: build() of a workspace file, a change of it, "
    "transfer(staging, odb, ids, verify, hardlink) x copy/hardlink x prior object absent/intact/tampered; the fault product: removal of the objects of one shard directory (the target's or the "
    "bystander's) raises PermissionError, x tampers/intact x state entry x class x {check, oids_exist, checkout file "
    "without/with state, checkout dir, add(verify)}; plus seeded random histories (6-14 steps, one in five with such a fault) over add/check/oids_exist/checkout/tamper (also "
    "keeping 0o444, other modes, mtime-restoring)/plant under a wrong name/delete/hash/foreign state row/"
    "wipe, ids with and without the .dir suffix. A case is non-trivial when a query met a mismatching "
    "object or an object with a state row."
)
ASSUMPTIONS = [
    "the state row of an object, when recorded under the object's current (ino, mtime, size), tells the truth "
    "(the `token changed` hypothesis: every listed tamper pattern changes the token; an mtime-restoring "
    "rewrite under a warm row and rows written by add(verify=False) over a mismatching file are outside "
    "the quantifier and are not judged by the oracle)",
    "a Local object whose mode is exactly 0o444 is trusted (the property's `not write-protected`)",
    "object ids of one add call are pairwise distinct; sources exist; copies do not fail",
    "the verification that counts is the EFFECTIVE one of the call: the per-call flag when it is False/True, the store "
    "default when it is absent or None; transfer()/index push pass verify=False explicitly, so a store configured "
    "verify=True does not verify what is pushed into it (by design of HashFileDB.add; model and oracle follow the "
    "effective flag)",
    "index checkout (index/checkout.py apply) has no integrity step by design and is outside C07's anchors "
    "(hashfile/checkout.py is the checkout the statement means): it serves a corrupt unprotected cache object; this is "
    "measured on every run (coverage.probes) and not judged",
    "the order in which diff() checks the entries of a directory target (iteration of a Python set) is observed "
    "and passed to the model; the theorems hold for every order",
    "_checksum (fsspec tokenize of [ino, mtime, size]) is injective on the tokens in play",
    "files created by the implementation get an mtime strictly above every earlier one (the harness spins "
    "on the kernel's coarse clock before each add)",
]

IMPORTS = "From Coq Require Import NArith List.\nFrom DvcData Require Import Model.Integrity Model.IntegrityFault."

POOL = [b"alpha-1", b"beta-22", b"", b"gamma gamma gamma", b"d", b"ALPHA-1",
        b"obj-179",                    # md5 ...4fdd: an id ending in "dd" (rstrip(".dir") pitfall)
        b"line one\r\nline two\r\n"]  # CRLF text: md5 and md5-dos2unix differ
ALG = ["md5"]   # the algorithm of the store of the case being run (set by run_case)


def hx(b):
    """independent digest of an object's bytes under the store's algorithm; the contents in play are
    short text without NUL, for which md5-dos2unix = md5 of the bytes with CRLF -> LF"""
    import hashlib

    if ALG[0] == "md5-dos2unix":
        b = bytes(b).replace(b"\r\n", b"\n")
    return hashlib.md5(b).hexdigest()  # noqa: S324

MODES = [0o644, 0o444, 0o600, 0o664, 0o400]
ABSENT = "0" * 32


def _names():
    """Coq abbreviations for the byte strings that recur in every case (pool contents, their ids with
    and without the .dir suffix, the absent id): the case terms refer to them by name, which cuts the
    time coqc spends on elaborating list literals by an order of magnitude"""
    import hashlib

    out = {}
    for k, b in enumerate(POOL):
        h = hashlib.md5(b).hexdigest()  # noqa: S324
        if b:
            out[cbytes(b)] = f"pb{k}"
        out[cbytes(h)] = f"ph{k}"
        out[cbytes(h + ".dir")] = f"pd{k}"
    out[cbytes(ABSENT)] = "pabs"
    out[cbytes(ABSENT + ".dir")] = "pabsd"
    out[cbytes("md5")] = "pmd5"
    return out


def shrink(term):
    for lit, name in NAMES:
        term = term.replace(lit, name)
    return term


def tree_listing(ents):
    """[(name, md5 of POOL[k])] of a tree reference ["tree", [[name, k], ...]]"""
    return [(nm, hx(POOL[k])) for nm, k in ents]


def oid_of(ref):
    k, suf = ref
    if k == "tree":   # the .dir object of the directory listing suf (independent canonical encoder)
        return impl.dir_oid(tree_listing(suf))
    return (ABSENT if k < 0 else hx(POOL[k])) + suf


def src_bytes(ref, sk):
    """source contents of an add/plant item: POOL[sk], or the tree's own serialisation for sk == "self" """
    if sk == "self":
        return impl.canon_listing(tree_listing(ref[1]))
    return POOL[sk]


SHARED: dict = {}


NAMES = sorted(_names().items(), key=lambda kv: -len(kv[0]))
IMPORTS += "\nImport ListNotations.\nOpen Scope N_scope.\n" + "\n".join(
    f"Definition {name} : list N := {lit}." for lit, name in NAMES)


class Clock:
    def __init__(self):
        self.t = 1_000_000_000

    def tick(self):
        self.t += 1
        return self.t * 1_000_000_000


class Real:
    """one store + state in a scratch dir"""

    def __init__(self, ctx, case):
        from dvc_data.hashfile.state import State, StateNoop

        self.case = case
        self.ctx = ctx
        self.root = ctx.fresh("c07")
        self.cls = case["cls"]
        self.store = os.path.join(self.root, "store")
        self.src = os.path.join(self.root, "src")
        self.ws = os.path.join(self.root, "ws")
        os.makedirs(self.src)
        os.makedirs(self.ws)
        self.tmpn = 0
        self.wsn = 0
        self.clock = Clock()
        self.last_wall = 0
        self.syn = 0
        self.state_on = case["state"]
        self._State, self._StateNoop = State, StateNoop
        self.state = self._mkstate()
        self.fault = case.get("fault")  # 2-character shard whose objects cannot be removed, or None
        self.fs = self._mkfs()
        self.ro = False  # the current handle was opened with read_only=True
        self.odb = self.mk_odb()
        os.makedirs(self.store, exist_ok=True)
        self.known = set()  # oids ever touched

    def _mkfs(self):
        """the store's own file system object; with a fault, removing anything below the chosen shard
        directory raises PermissionError (read-only / foreign-owned shard of a shared cache)"""
        from dvc_objects.fs.local import LocalFileSystem

        fs = LocalFileSystem()
        if self.fault:
            shard = os.path.join(os.path.abspath(self.store), self.fault) + os.sep
            real_remove = fs.remove

            def remove(path, *a, **kw):
                for q in ([path] if isinstance(path, str) else list(path)):
                    if os.path.abspath(q).startswith(shard):
                        if self.case.get("fault_errno") == "EIO":
                            raise OSError(5, "Input/output error", q)
                        raise PermissionError(13, "Permission denied", q)
                return real_remove(path, *a, **kw)

            fs.remove = remove
            fs.rm = remove
        return fs

    def mk_odb(self):
        from dvc_data.hashfile.db import HashFileDB
        from dvc_data.hashfile.db.local import LocalHashFileDB

        k = LocalHashFileDB if self.cls == "local" else HashFileDB
        cfg = {}
        if self.case.get("links"):
            cfg["type"] = list(self.case["links"])
        return k(self.fs, os.path.abspath(self.store), state=self.state, verify=self.case.get("verify", False),
                 read_only=self.ro, hash_name=self.case.get("alg", "md5"), **cfg)

    def faulty(self, oid):
        return bool(self.fault) and oid[:2] == self.fault

    def _mkstate(self):
        """one real State (sqlite) is shared by all cases of a run: rows are keyed by absolute path and
        every case has its own store directory; it is emptied at the end of each case"""
        if not self.state_on:
            return self._StateNoop()
        if SHARED.get("state") is None or SHARED.get("owner") is not self.ctx:
            SHARED["owner"] = self.ctx
            SHARED["state"] = self._State(root_dir=self.ctx.tmpdir(), tmp_dir=os.path.join(self.ctx.tmpdir(), "state-tmp"))
        return SHARED["state"]

    def wipe_state(self):
        if self.state_on:
            self.state.hashes.clear()

    def close(self):
        self.wipe_state()
        impl.rm_rf(self.root)

    def path(self, oid):
        return os.path.join(self.store, oid[:2], oid[2:])

    def stat(self, oid):
        try:
            s = os.stat(self.path(oid))
        except FileNotFoundError:
            return None
        return {"ino": s.st_ino, "mtime": s.st_mtime, "mtime_ns": s.st_mtime_ns, "size": s.st_size,
                "mode": stat_.S_IMODE(s.st_mode)}

    def read(self, oid):
        try:
            with open(self.path(oid), "rb") as f:
                return f.read()
        except FileNotFoundError:
            return None

    def row(self, oid):
        """(alg, value, checksum) of the state row of the object's path, read back from sqlite"""
        if not self.state_on:
            return None
        raw = self.state.hashes.get(self.path(oid))
        if not raw:
            return None
        e = json.loads(raw)
        (alg, val), = e["hash_info"].items()
        return alg, val, e["checksum"]

    @staticmethod
    def checksum(st):
        from fsspec.utils import tokenize

        return str(int(tokenize([st["ino"], st["mtime"], st["size"]]), 16))

    def snap(self):
        """independent ground truth about every object in play"""
        out = {}
        for o in self.known:
            st = self.stat(o)
            if st is None:
                out[o] = {"exists": False}
                continue
            b = self.read(o)
            r = self.row(o)
            honest = True
            if r is not None and r[2] == self.checksum(st) and r[0] == ALG[0]:
                honest = r[1].split(".")[0] == hx(b)
            out[o] = {"exists": True, "bytes": b, "mode": st["mode"], "intact": hx(b) == o.split(".")[0],
                      "honest": honest, "row": r is not None, "tok": (st["ino"], st["mtime_ns"], st["size"])}
        return out

    def advance_wall_clock(self):
        """spin until files created now get an mtime above every mtime the implementation produced"""
        probe = os.path.join(self.root, "probe")
        while True:
            with open(probe, "wb"):
                pass
            os.utime(probe)
            if os.stat(probe).st_mtime_ns > self.last_wall:
                return

    def note_wall(self, oid):
        st = self.stat(oid)
        if st is not None and st["mtime_ns"] > 1_500_000_000 * 10**9:
            self.last_wall = max(self.last_wall, st["mtime_ns"])


def tok_term(st):
    return ctor("T", cN(st["ino"]), cN(st["mtime_ns"]), cN(st["size"]))


def exc_code(exc):
    n = type(exc).__name__
    if type(exc) is OSError and exc.errno == 5:
        return 98
    return {"ObjectDBPermissionError": 1, "FileNotFoundError": 2, "ObjectFormatError": 3, "CheckoutError": 5,
            "PermissionError": 98}.get(n, 99)


def tamper_bytes(pattern, old, other):
    if pattern == "append":
        return old + b"X"
    if pattern == "truncate":
        return old[:-1]
    if pattern in ("rewrite", "restore"):
        return (bytes([old[0] ^ 0x20]) + old[1:]) if old else old
    if pattern == "replace":
        return other
    if pattern == "empty":
        return b""
    return old  # touch / chmod


def run_case(ctx, case):
    """returns (input_term, expected_val, problems, nontrivial, tags)"""
    from dvc_objects.fs.local import localfs

    from dvc_data.hashfile.checkout import checkout
    from dvc_data.hashfile.hash import hash_file
    from dvc_data.hashfile.hash_info import HashInfo
    from dvc_data.hashfile.obj import HashFile

    ALG[0] = case.get("alg", "md5")
    R = Real(ctx, case)
    ops_t, outs, problems, tags = [], [], [], set()
    nontrivial = False
    table = {}

    def H(b):
        table[bytes(b)] = hx(b)
        return table[bytes(b)]

    def fail(sig, what):
        problems.append((sig, what))

    def judge_unharmed(pre, post, where):
        for o, p in pre.items():
            if p["exists"] and p["intact"] and p["honest"]:
                q = post[o]
                if not q["exists"] or q["bytes"] != p["bytes"]:
                    fail("C07:intact-lost:" + where, f"intact object {o} was deleted or altered by {where}")

    def tampered(p, local_only_mode=True):
        return p["exists"] and not p["intact"] and p["mode"] != 0o444 and p["honest"]

    try:
        for op in case["ops"]:
            kind = op[0]
            if kind in ("check", "exist", "checkout", "add"):
                pre = R.snap()
            if kind == "add":
                _, verify, items = op
                # the per-call flag: None = absent, "none" = passed explicitly as verify=None (both mean: the
                # store default), False, True
                vflag = None if verify in (None, "none") else verify
                eff = R.odb.verify if vflag is None else vflag
                oids = [oid_of(r) for r, _ in items]
                for o in oids:
                    R.known.add(o)
                pre = R.snap()
                paths = []
                for i, (r_, sk) in enumerate(items):
                    p = os.path.join(R.src, f"s{len(ops_t)}_{i}")
                    with open(p, "wb") as f:
                        f.write(src_bytes(r_, sk))
                    H(src_bytes(r_, sk))
                    paths.append(p)
                R.advance_wall_clock()
                errs = []
                kw = {} if verify is None else {"verify": vflag}
                if verify == "none":
                    tags.add("add:verify=None-explicit")
                try:
                    n = R.odb.add(paths, localfs, oids, on_error=lambda o, e: errs.append((o, exc_code(e))), **kw)
                    res = ("ok", n)
                except Exception as exc:  # noqa: BLE001
                    res = ("abort", 98) if (R.fault and exc_code(exc) == 98) else ("exc", type(exc).__name__)
                post = R.snap()
                its = []
                for o, (r_, sk) in zip(oids, items):
                    st = R.stat(o)
                    if st is None:
                        R.syn += 1
                        st = {"ino": 0, "mtime_ns": R.syn, "size": len(src_bytes(r_, sk))}
                    else:
                        R.note_wall(o)
                    its.append("(%s, %s, %s)" % (cbytes(o), cbytes(src_bytes(r_, sk)), tok_term(st)))
                ops_t.append(ctor("OAdd", copt(vflag, cbool), clist(its)))
                if R.ro:
                    # add through a read_only=True handle: refused (after the pre-verification)
                    ops_t[-1] = ctor("OAddRO", copt(vflag, cbool), clist(its))
                    tags.add("ro:add")
                    if res == ("exc", "ObjectDBPermissionError"):
                        outs.append(vL([vN(1), vN(1)]))
                    elif res[0] == "abort":
                        outs.append(ABORT)
                    else:
                        outs.append(vL([vN(99)]))
                        fail("C07:readonly-add-accepted", f"add through a read-only handle returned {res}")
                    if any(q["exists"] and not pre[o]["exists"] for o, q in post.items()):
                        fail("C07:readonly-add-modified", "add through a read-only handle created an object")
                    judge_unharmed(pre, post, "add")
                    continue
                if res[0] == "ok":
                    outs.append(vL([vN(2), vN(res[1]), vL([vB(o) for o, _ in errs])]))
                    if any(c != 3 for _, c in errs):
                        fail("C07:add-unexpected-error", f"add reported {errs}")
                elif res[0] == "abort":
                    outs.append(ABORT)
                    tags.add("fault:add-aborted")
                else:
                    outs.append(vL([vN(99)]))
                    fail("C07:add-raised:" + res[1], f"add raised {res[1]}")
                tags.add("add:verify" if eff else "add:plain")
                # oracle
                judge_unharmed(pre, post, "add")
                if eff and res[0] == "ok":
                    for o, (r_, sk) in zip(oids, items):
                        p = pre[o]
                        if p["exists"] and (not p["honest"] or (R.cls == "local" and p["mode"] == 0o444 and not p["intact"])):
                            continue
                        nontrivial = True
                        q = post[o]
                        if q["exists"] and not q["intact"]:
                            fail("C07:verify-retained-mismatch", f"store with verify retained mismatching object {o} after add")
                        src_ok = hx(src_bytes(r_, sk)) == o.split(".")[0]
                        kept_old = p["exists"] and p["intact"]
                        if not src_ok and not kept_old and (o, 3) not in errs:
                            fail("C07:verify-drop-not-reported", f"object {o} dropped by verification was not reported through on_error")
            elif kind == "check":
                o = oid_of(op[1])
                R.known.add(o)
                pre = R.snap()
                try:
                    R.odb.check(o)
                    code = 0
                except Exception as exc:  # noqa: BLE001
                    code = exc_code(exc)
                post = R.snap()
                ops_t.append(ctor("OCheck", cbytes(o)))
                outs.append(vL([vN(1), vN(code)]))
                p, q = pre[o], post[o]
                judge_unharmed(pre, post, "check")
                if code == 98:
                    tags.add("fault:check-aborted")
                if p["exists"] and (not p["intact"] or p["row"]):
                    nontrivial = True
                if tampered(p):
                    tags.add("check:tampered")
                    if code != 3 and not (code == 98 and R.faulty(o)):
                        fail("C07:corrupt-accepted:check", f"check({o}) returned code {code} for a mismatching, unprotected object")
                    if q["exists"] and not R.faulty(o):
                        fail("C07:corrupt-not-deleted:check", f"check({o}) left the mismatching object in the store")
                elif p["exists"] and p["intact"] and p["honest"]:
                    tags.add("check:intact")
                    if code != 0:
                        fail("C07:intact-rejected:check", f"check({o}) failed with code {code} on an intact object")
                    if R.cls == "local" and q["exists"] and q["mode"] != 0o444:
                        fail("C07:intact-not-protected", f"successful check left local object {o} with mode {oct(q['mode'])}")
            elif kind == "exist":
                oids = [oid_of(r) for r in op[1]]
                for o in oids:
                    R.known.add(o)
                pre = R.snap()
                try:
                    got = list(R.odb.oids_exist(oids))
                    if R.cls == "base":  # dvc_objects answers with a set: compared canonically
                        got = sorted(set(got))
                    ok = True
                except Exception as exc:  # noqa: BLE001
                    got, ok = [], False
                    if R.fault and exc_code(exc) == 98:
                        ok = None  # the failed removal left the query: an error, nothing reported
                        tags.add("fault:exist-aborted")
                    else:
                        fail("C07:oids_exist-raised:" + type(exc).__name__, "oids_exist raised")
                post = R.snap()
                ops_t.append(ctor("OExist", clist([cbytes(o) for o in oids])))
                outs.append(vL([vN(3), vL([vB(o) for o in got])]) if ok else (ABORT if ok is None else vL([vN(99)])))
                judge_unharmed(pre, post, "oids_exist")
                for o in oids:
                    p, q = pre[o], post[o]
                    if p["exists"] and (not p["intact"] or p["row"]):
                        nontrivial = True
                    if R.cls == "local" and tampered(p):
                        tags.add("exist:tampered")
                        if o in got:
                            fail("C07:corrupt-accepted:oids_exist", f"oids_exist reported mismatching object {o}")
                        if q["exists"] and not R.fault:
                            fail("C07:corrupt-not-deleted:oids_exist", f"oids_exist left mismatching object {o}")
                    elif p["exists"] and p["intact"] and p["honest"]:
                        tags.add("exist:intact")
                        if o not in got and ok is not None:
                            fail("C07:intact-rejected:oids_exist", f"oids_exist dropped intact object {o}")
            elif kind == "checkout":
                o = oid_of(op[1])
                with_state = len(op) > 2 and bool(op[2])
                R.known.add(o)
                pre = R.snap()
                R.wsn += 1
                dest = os.path.join(R.ws, f"out{R.wsn}")
                obj = HashFile(None, None, HashInfo(ALG[0], o, obj_name=("labelled/obj" if R.wsn % 2 else None)))
                try:
                    checkout(dest, localfs, obj, R.odb, state=R.state if with_state else None, quiet=True)
                    code = 0
                except Exception as exc:  # noqa: BLE001
                    code = exc_code(exc)
                    if code == 2 and "symlink" in (case.get("links") or []):
                        # symlink link type: the link to the (deleted) object is created, then the stat of
                        # the new workspace path fails: a refusal with another exception class that
                        # leaves a DANGLING symlink; no bytes are materialised (checked below)
                        tags.add("checkout:symlink-refused-as-FileNotFoundError")
                        code = 5
                    if with_state and code == 2:
                        # with a state, a single-file target whose source is gone fails in _save_link
                        # (stat of the never-created path) before CheckoutError is raised: a refusal
                        # with another exception class; nothing is materialised (checked below)
                        tags.add("checkout:refused-as-FileNotFoundError")
                        code = 5
                post = R.snap()
                got = None
                if os.path.exists(dest):
                    with open(dest, "rb") as f:
                        got = f.read()
                elif os.path.lexists(dest):
                    tags.add("checkout:dangling-symlink-left")
                ops_t.append(ctor("OCheckout", cbytes(o)))
                aborted = bool(R.fault) and code == 98
                if aborted:
                    tags.add("fault:checkout-aborted")
                outs.append(ABORT if aborted else vL([vN(4), vN(code), vopt(got, vB)]))
                p = pre[o]
                judge_unharmed(pre, post, "checkout")
                if p["exists"] and (not p["intact"] or p["row"]):
                    nontrivial = True
                if tampered(p):
                    tags.add("checkout:tampered")
                    if (code != 5 and not aborted) or got is not None:
                        fail("C07:corrupt-materialised", f"checkout of mismatching object {o}: code {code}, workspace file {'present' if got is not None else 'absent'}")
                    if post[o]["exists"] and not R.faulty(o):
                        fail("C07:corrupt-not-deleted:checkout", f"checkout left mismatching object {o} in the cache")
                elif p["exists"] and p["intact"] and p["honest"]:
                    tags.add("checkout:intact")
                    if code != 0 or got != p["bytes"]:
                        fail("C07:intact-not-materialised", f"checkout of intact object {o}: code {code}")
            elif kind == "checkoutdir":
                from dvc_data.hashfile.meta import Meta
                from dvc_data.hashfile.tree import Tree

                ents = [(nm, oid_of(r)) for nm, r in op[1]]
                tree = Tree()
                for nm, o in ents:
                    tree.add(tuple(nm.split("/")), Meta(), HashInfo("md5", o, obj_name=("dir/" + nm if R.wsn % 2 else None)))
                    R.known.add(o)
                tree.digest()
                d = tree.hash_info.value
                R.known.add(d)
                pre = R.snap()
                R.wsn += 1
                dest = os.path.join(R.ws, f"dir{R.wsn}")
                # diff() walks a SET of keys: the order in which the entries are checked is the
                # implementation's internal choice; it is observed and handed to the model (it only
                # matters when a failing removal leaves the operation half-way)
                order = []
                orig_check = R.odb.check

                def rec_check(oid_, *a_, **kw_):
                    order.append(oid_)
                    return orig_check(oid_, *a_, **kw_)

                R.odb.check = rec_check
                try:
                    checkout(dest, localfs, tree, R.odb, state=None, quiet=True)
                    code = 0
                except Exception as exc:  # noqa: BLE001
                    code = exc_code(exc)
                finally:
                    del R.odb.check
                ents_m = sorted(ents, key=lambda e: order.index(e[1]) if e[1] in order else len(order))
                post = R.snap()
                got = impl.walk_files(dest) if os.path.isdir(dest) else {}
                ops_t.append(ctor("OCheckoutDir", cbytes(d),
                                  clist(["(%s, %s)" % (cbytes(nm), cbytes(o)) for nm, o in ents_m])))
                aborted = bool(R.fault) and code == 98
                if aborted:
                    tags.add("fault:checkoutdir-aborted")
                outs.append(ABORT if aborted else
                            vL([vN(6), vN(code), vL([vL([vB(nm), vB(b)]) for nm, b in sorted(got.items())])]))
                judge_unharmed(pre, post, "checkout")
                for nm, o in ents:
                    p = pre[o]
                    if p["exists"] and (not p["intact"] or p["row"]):
                        nontrivial = True
                    if tampered(p):
                        tags.add("checkoutdir:tampered")
                        if (code != 5 and not aborted) or nm in got:
                            fail("C07:corrupt-materialised", f"directory checkout with mismatching object {o} at {nm}: code {code}, workspace file {'present' if nm in got else 'absent'}")
                        if post[o]["exists"] and not R.fault:
                            fail("C07:corrupt-not-deleted:checkout", f"directory checkout left mismatching object {o} in the cache")
                    elif p["exists"] and p["intact"] and p["honest"]:
                        tags.add("checkoutdir:intact")
                        if got.get(nm) != p["bytes"] and not aborted:
                            fail("C07:intact-not-materialised", f"directory checkout did not materialise intact object {o} at {nm}")
            elif kind == "handle":
                # switch to a handle opened with read_only=True / False on the same directory: no model
                # step (check / oids_exist / checkout ignore the option; add becomes OAddRO)
                R.ro = op[1] == "ro"
                R.odb = R.mk_odb()
                tags.add("env:handle:" + op[1])
            elif kind == "reopen":
                # a new odb object on the same store directory (same state): no model step
                R.odb = R.mk_odb()
                tags.add("env:reopen")
            elif kind in ("tamper", "plant"):
                if kind == "tamper":
                    _, ref, pattern, mode, other = op
                    o = oid_of(ref)
                    old = R.read(o)
                    if old is None:
                        continue  # nothing to tamper with; the step is dropped from the history
                    new = tamper_bytes(pattern, old, POOL[other])
                    old_st = R.stat(o)
                else:
                    _, ref, sk, mode = op
                    o = oid_of(ref)
                    pattern, new, old = "replace", src_bytes(ref, sk), None
                R.known.add(o)
                p = R.path(o)
                os.makedirs(os.path.dirname(p), exist_ok=True)
                if pattern == "replace":
                    tmp = p + ".tmp-replace"
                    with open(tmp, "wb") as f:
                        f.write(new)
                    os.replace(tmp, p)
                elif pattern in ("touch", "chmod"):
                    pass
                else:
                    os.chmod(p, 0o644)
                    with open(p, "r+b") as f:
                        f.truncate(0)
                        f.write(new)
                if mode is not None:
                    os.chmod(p, mode)
                if pattern == "restore":
                    os.utime(p, ns=(old_st["mtime_ns"], old_st["mtime_ns"]))
                elif pattern != "chmod":
                    t = R.clock.tick()
                    os.utime(p, ns=(t, t))
                st = R.stat(o)
                H(new)
                ops_t.append(ctor("OSet", cbytes(o), cbytes(new), cN(st["mode"]), tok_term(st)))
                outs.append(vL([]))
                tags.add(f"env:{kind}:{pattern}")
            elif kind == "del":
                o = oid_of(op[1])
                R.known.add(o)
                p = R.path(o)
                if os.path.lexists(p):
                    os.unlink(p)
                ops_t.append(ctor("ODel", cbytes(o)))
                outs.append(vL([]))
            elif kind == "checknh":
                o = oid_of(op[1])
                R.known.add(o)
                pre = R.snap()
                try:
                    R.odb.check(o, check_hash=False)
                    code = 0
                except Exception as exc:  # noqa: BLE001
                    code = exc_code(exc)
                post = R.snap()
                ops_t.append(ctor("OCheckNoHash", cbytes(o)))
                outs.append(vL([vN(1), vN(code)]))
                tags.add("check:nohash")
                judge_unharmed(pre, post, "check(check_hash=False)")
                if any(post[x] != pre[x] for x in pre):
                    fail("C07:nohash-check-modified", "check(check_hash=False) changed the store")
            elif kind == "addbytes":
                # ObjectDB.add_bytes(oid, data): no verification, no protection, no state row
                _, ref, sk = op
                o = oid_of(ref)
                R.known.add(o)
                new = src_bytes(ref, sk)
                R.advance_wall_clock()
                if R.ro:
                    continue
                R.odb.add_bytes(o, new)
                R.note_wall(o)
                st = R.stat(o)
                H(new)
                ops_t.append(ctor("OSet", cbytes(o), cbytes(new), cN(st["mode"]), tok_term(st)))
                outs.append(vL([]))
                tags.add("route:add_bytes")
            elif kind == "checktree":
                # dvc_data.hashfile.check(odb, tree): every entry, then the tree's own .dir object
                from dvc_data.hashfile import check as tree_check
                from dvc_data.hashfile.meta import Meta
                from dvc_data.hashfile.tree import Tree

                ents = op[1]
                tree = Tree()
                for nm, k in ents:
                    tree.add(tuple(nm.split("/")), Meta(), HashInfo("md5", hx(POOL[k]), obj_name=(nm if len(ops_t) % 2 else None)))
                tree.digest()
                d = oid_of(["tree", ents])
                if tree.hash_info.value != d or tree.as_bytes() != impl.canon_listing(tree_listing(ents)):
                    fail("C07:harness:tree-encoding", "independent directory encoder disagrees with Tree")
                seq = [hx(POOL[k]) for _, k in ents] + [d]
                for o in seq:
                    R.known.add(o)
                pre = R.snap()
                order = []
                orig_check = R.odb.check

                def rec_check2(oid_, *a_, **kw_):
                    order.append(oid_)
                    return orig_check(oid_, *a_, **kw_)

                R.odb.check = rec_check2
                try:
                    tree_check(R.odb, tree)
                    code = 0
                except Exception as exc:  # noqa: BLE001
                    code = exc_code(exc)
                finally:
                    del R.odb.check
                post = R.snap()
                # the model gets the observed sequence, then what was not reached (entries, then the tree)
                rest = [o for o in seq if o not in order]
                ops_t.append(ctor("OCheckSeq", clist([cbytes(o) for o in order + rest])))
                outs.append(vL([vN(1), vN(code)]))
                judge_unharmed(pre, post, "checktree")
                nontrivial = True
                if code == 98:
                    tags.add("fault:check-aborted")
                bad = [o for o in seq if tampered(pre[o])]
                good = [o for o in seq if pre[o]["exists"] and pre[o]["intact"] and pre[o]["honest"]]
                if bad:
                    tags.add("checktree:tampered" + (":own" if d in bad else ""))
                    if code == 0:
                        fail("C07:corrupt-accepted:checktree", f"check(odb, tree) passed although {bad} mismatch their names")
                    if bad == [d] and len(good) == len(seq) - 1 and not R.faulty(d):
                        if code != 3:
                            fail("C07:corrupt-accepted:checktree", f"check(odb, tree) returned code {code} for a mismatching .dir object")
                        if post[d]["exists"]:
                            fail("C07:corrupt-not-deleted:checktree", f"check(odb, tree) left the mismatching .dir object {d}")
                elif len(good) == len(seq):
                    tags.add("checktree:intact")
                    if code != 0:
                        fail("C07:intact-rejected:checktree", f"check(odb, tree) failed with code {code} on intact objects")
                    if R.cls == "local":
                        for o in seq:
                            if post[o]["exists"] and post[o]["mode"] != 0o444:
                                fail("C07:intact-not-protected", f"successful check(odb, tree) left local object {o} with mode {oct(post[o]['mode'])}")
            elif kind == "xfer":
                # build() stages a workspace file; the file is changed; transfer(staging, odb, {id}, verify, hardlink)
                from dvc_data.hashfile.build import build
                from dvc_data.hashfile.transfer import transfer

                _, ref, change, verify, hardlink = op[:5]
                vflag = None if verify == "none" else bool(verify)   # transfer(verify=None) reaches add as None
                verify = R.case.get("verify", False) if vflag is None else vflag   # the effective flag
                from_odb = len(op) > 5 and op[5] == "odb"   # the source is another object store (fetch)
                o = oid_of(ref)
                R.known.add(o)
                R.wsn += 1
                wsf = os.path.join(R.ws, f"src{R.wsn}")
                orig = POOL[ref[0]]
                with open(wsf, "wb") as f:
                    f.write(orig)
                t = R.clock.tick()
                os.utime(wsf, ns=(t, t))
                staging, _, sobj = build(R.odb, wsf, localfs, ALG[0])
                if sobj.hash_info.value != o:
                    fail("C07:harness:build-oid", "build() named the staged file differently")
                new = tamper_bytes(change, orig, POOL[(ref[0] + 1) % len(POOL)])
                if change != "none":
                    if change == "replace":
                        with open(wsf + ".new", "wb") as f:
                            f.write(new)
                        os.replace(wsf + ".new", wsf)
                    else:
                        with open(wsf, "r+b") as f:
                            f.truncate(0)
                            f.write(new)
                    t = R.clock.tick()
                    os.utime(wsf, ns=(t, t))
                H(new)
                if from_odb:
                    from dvc_data.hashfile.db import HashFileDB as _HDB

                    rdir = os.path.join(R.root, f"remote{R.wsn}")
                    impl.plant(rdir, o, new, mode=0o444)
                    staging = _HDB(R.fs, rdir, hash_name=ALG[0], verify=vflag)
                    tags.add("xfer:from-odb")
                pre = R.snap()
                R.advance_wall_clock()
                dest = R.odb
                if R.ro:  # a transfer needs a writable handle on the directory
                    R.ro = False
                    dest = R.mk_odb()
                    R.ro = True
                try:
                    res = transfer(staging, dest, {HashInfo(ALG[0], o, obj_name="ws/label")}, verify=vflag,
                                   hardlink=hardlink and not from_odb)
                    tr, fl = sorted(h.value for h in res.transferred), sorted(h.value for h in res.failed)
                    code = 0
                except Exception as exc:  # noqa: BLE001
                    code, tr, fl = exc_code(exc), [], []
                post = R.snap()
                st = R.stat(o)
                if st is None:
                    if hardlink and not from_odb:
                        s_ = os.stat(wsf)
                        st = {"ino": s_.st_ino, "mtime_ns": s_.st_mtime_ns, "size": s_.st_size}
                    else:
                        R.syn += 1
                        st = {"ino": 0, "mtime_ns": R.syn, "size": len(new)}
                else:
                    R.note_wall(o)
                ops_t.append(ctor("OXfer", copt(vflag, cbool), clist(["(%s, %s, %s)" % (cbytes(o), cbytes(new), tok_term(st))])))
                if code == 0:
                    outs.append(vL([vN(7), vset(tr), vset(fl)]))
                elif R.fault and code == 98:
                    outs.append(ABORT)
                    tags.add("fault:xfer-aborted")
                else:
                    outs.append(vL([vN(99)]))
                    fail("C07:transfer-raised", f"transfer raised (code {code})")
                tags.add("xfer:" + ("verify" if verify else "plain") + ("/hardlink" if hardlink else "/copy"))
                if vflag is None:
                    tags.add("xfer:verify=None-explicit")
                judge_unharmed(pre, post, "transfer")
                p = pre[o]
                if verify and code == 0 and not (p["exists"] and (not p["honest"] or (R.cls == "local" and p["mode"] == 0o444 and not p["intact"]))) \
                        and not (R.cls == "base" and p["exists"]):
                    nontrivial = True
                    q = post[o]
                    if q["exists"] and not q["intact"]:
                        fail("C07:verify-retained-mismatch:transfer", f"verifying transfer (hardlink={hardlink}) retained mismatching object {o}")
                    src_ok = hx(new) == o.split(".")[0]
                    if not src_ok and not (p["exists"] and p["intact"]):
                        tags.add("xfer:corrupt-source")
                        if o not in fl or o in tr:
                            fail("C07:verify-drop-not-reported:transfer", f"corrupt source {o}: transferred={tr} failed={fl}")
            elif kind == "hash":
                o = oid_of(op[1])
                R.known.add(o)
                try:
                    _, hi = hash_file(R.path(o), localfs, ALG[0], R.state)
                    v = hi.value
                except FileNotFoundError:
                    v = None
                ops_t.append(ctor("OHash", cbytes(o)))
                outs.append(vL([vN(5), vopt(v, vB)]))
            elif kind == "saverow":
                _, ref, alg, vref = op
                o = oid_of(ref)
                R.known.add(o)
                v = oid_of(vref)
                try:
                    R.state.save(R.path(o), localfs, HashInfo(alg, v))
                    outs.append(vL([]))
                except FileNotFoundError:
                    outs.append(vL([vN(1), vN(2)]))
                ops_t.append(ctor("OSaveRow", cbytes(o), cbytes(alg), cbytes(v)))
            elif kind == "dropstate":
                R.wipe_state()
                ops_t.append("ODropState")
                outs.append(vL([]))
            else:
                raise ValueError(kind)
        # final world
        final = R.snap()
        listing = impl.walk_store(R.store)
        for o, (b, _) in listing.items():
            H(b)
        objs_v = vL([vL([vB(o), vB(b), vN(m)]) for o, (b, m) in sorted(listing.items())])
        rows = []
        for o in sorted(R.known):
            r = R.row(o)
            if r is None:
                continue
            st = R.stat(o)
            flag = 2 if st is None else (1 if r[2] == R.checksum(st) else 0)
            rows.append(vL([vB(o), vB(r[0]), vB(r[1]), vN(flag)]))
        exp = vL([vL(outs), vL([objs_v, vL(rows)])])
        del final
    finally:
        R.close()
    tbl = clist(["(%s, %s)" % (cbytes(b), cbytes(h)) for b, h in sorted(table.items())])
    inp = ctor("Case", "Local" if case["cls"] == "local" else "Base", cbytes(ALG[0]), cbool(case["state"]),
               cbool(case.get("verify", False)), cN(0o666 & ~UMASK), tbl, clist(ops_t))
    inp = ctor("FCase", inp, copt(case.get("fault"), cbytes))
    return shrink(inp), shrink(exp), problems, nontrivial, tags


ABORT = vL([vN(1), vN(98)])   # the operation was left by the OSError of a failed removal
UMASK = os.umask(0)
os.umask(UMASK)

# ---------------------------------------------------------------------------------------------
# generators

T, B, O = [0, ""], [1, ""], [3, ""]     # target, bystander, third object


def product_cases(full=True):
    full = True   # the quick tier selects from the full product (quick_selection)
    out = []
    changes = [("append", 0o644), ("truncate", 0o644), ("rewrite", 0o644), ("replace", 0o644), ("empty", 0o644),
               ("none", None), ("touch", None), ("chmod", 0o644)]
    for cls in ("local", "base"):
        for pattern, mode in changes:
            for entry in (("noop", "wiped", "warm", "stale") if full else ("noop", "warm", "stale")):
                for query in ("check", "exist", "checkout", "checkoutst", "addverify"):
                    ops = [["add", None, [[T, 0], [B, 1]]]]
                    if pattern != "none":
                        ops.append(["tamper", T, pattern, mode, 3])
                    if entry == "wiped":
                        ops.append(["dropstate"])
                    elif entry == "warm":
                        ops.append(["hash", T])
                    if query == "check":
                        ops += [["check", T], ["check", B], ["check", T]]
                    elif query == "exist":
                        ops += [["exist", [B, T, [-1, ""]]], ["exist", [T]]]
                    elif query == "checkout":
                        ops += [["checkout", T], ["checkout", B]]
                    elif query == "checkoutst":
                        ops += [["checkout", T, True], ["checkout", B, True], ["check", B]]
                    else:
                        ops += [["add", True, [[T, 0], [O, 4]]], ["check", T]]
                    out.append({"cls": cls, "state": entry != "noop", "verify": False, "ops": ops,
                                "tag": f"{pattern}/{entry}/{query}"})
    # directory objects (.dir-suffixed ids: the name carries a suffix the digest does not): intact
    # controls and tampers x state regimes x classes x {check, oids_exist, add(verify)}; the controls
    # leave the object NOT write-protected so that it really gets hashed in the cold/stale regimes
    TD = [0, ".dir"]
    dchanges = [("none", None), ("touch", 0o644), ("chmod", 0o644), ("append", 0o644), ("replace", 0o644),
                ("truncate", 0o644), ("rewrite", 0o644), ("empty", 0o644)]
    for cls in ("local", "base"):
        for pattern, mode in (dchanges if full else dchanges[:5]):
            for entry in (("noop", "wiped", "warm", "stale") if full else ("noop", "wiped", "stale")):
                for query in ("check", "exist", "addverify"):
                    ops = [["add", None, [[TD, 0], [B, 1]]]]
                    if pattern != "none":
                        ops.append(["tamper", TD, pattern, mode, 3])
                    if entry == "wiped":
                        ops.append(["dropstate"])
                    elif entry == "warm":
                        ops.append(["hash", TD])
                    if query == "check":
                        ops += [["check", TD], ["check", B], ["check", TD]]
                    elif query == "exist":
                        ops += [["exist", [B, TD, [-1, ".dir"]]], ["exist", [TD]]]
                    else:
                        ops += [["add", True, [[TD, 0], [[3, ".dir"], 3], [[4, ".dir"], 1]]], ["check", TD],
                                ["exist", [TD, [3, ".dir"], [4, ".dir"]]]]
                    out.append({"cls": cls, "state": entry != "noop", "verify": False, "ops": ops,
                                "tag": f"dir:{pattern}/{entry}/{query}"})
    # queries through a handle opened with read_only=True (objects were added through a writable one)
    rchanges = [("append", 0o644), ("replace", 0o644), ("rewrite", 0o644), ("none", None), ("chmod", 0o644),
                ("truncate", 0o644), ("empty", 0o644), ("touch", None)]
    for cls in ("local", "base"):
        for pattern, mode in (rchanges if full else rchanges[:5]):
            for entry in (("noop", "wiped", "warm", "stale") if full else ("noop", "stale")):
                for query in ("check", "exist", "checkout", "checkoutdir", "addro"):
                    ops = [["add", None, [[T, 0], [B, 1]]]]
                    if pattern != "none":
                        ops.append(["tamper", T, pattern, mode, 3])
                    if entry == "wiped":
                        ops.append(["dropstate"])
                    elif entry == "warm":
                        ops.append(["hash", T])
                    ops.append(["handle", "ro"])
                    if query == "check":
                        ops += [["check", T], ["check", B], ["check", T]]
                    elif query == "exist":
                        ops += [["exist", [B, T, [-1, ""]]], ["exist", [T]]]
                    elif query == "checkout":
                        ops += [["checkout", T], ["checkout", B, True]]
                    elif query == "checkoutdir":
                        ops += [["checkoutdir", [["t", T], ["b", B]]], ["checkout", T]]
                    else:
                        ops += [["add", True, [[T, 0], [O, 4]]], ["add", False, [[O, 3]]], ["handle", "rw"],
                                ["check", T], ["add", True, [[T, 0], [O, 4]]]]
                    out.append({"cls": cls, "state": entry != "noop", "verify": False, "ops": ops,
                                "tag": f"ro:{pattern}/{entry}/{query}"})
    # the integrity check of a directory object: dvc_data.hashfile.check(odb, tree); the changed object
    # is the tree's OWN .dir object (plus controls where it is an entry)
    TE = [["t", 0], ["b", 1]]
    D = ["tree", TE]
    tchanges = [("append", 0o644), ("truncate", 0o644), ("rewrite", 0o644), ("replace", 0o644), ("empty", 0o644),
                ("none", None), ("touch", 0o644), ("chmod", 0o644)]
    for cls in ("local", "base"):
        for pattern, mode in tchanges:
            for entry in (("noop", "wiped", "warm", "stale") if full else ("noop", "warm")):
                for victim in ((D, T) if (full or pattern in ("append", "none")) else (D,)):
                    ops = [["add", None, [[T, 0], [B, 1], [D, "self"]]]]
                    if pattern != "none":
                        ops.append(["tamper", victim, pattern, mode, 3])
                    if entry == "wiped":
                        ops.append(["dropstate"])
                    elif entry == "warm":
                        ops.append(["hash", victim])
                    ops += [["checktree", TE], ["check", D], ["checktree", TE]]
                    out.append({"cls": cls, "state": entry != "noop", "verify": False, "ops": ops,
                                "tag": f"tree:{pattern}/{entry}/{'own' if victim is D else 'entry'}"})
    # transfer(staging, odb, ids, verify, hardlink) of a workspace file changed after build()
    for cls in ("local", "base"):
        for change in ("none", "append", "truncate", "rewrite", "replace", "empty"):
            for hardlink in (False, True):
                for verify in ((True, False) if (full or change in ("none", "append")) else (True,)):
                    for prior in (("absent", "intact", "tampered") if full else ("absent", "tampered")):
                        if not full and prior == "tampered" and (change not in ("none", "append") or not verify):
                            continue
                        for st_on in ((True, False) if full else (True,)):
                            ops = [["add", None, [[B, 1]]]]
                            if prior != "absent":
                                ops.append(["add", None, [[T, 0]]])
                            if prior == "tampered":
                                ops.append(["tamper", T, "append", 0o644, 3])
                            ops += [["xfer", T, change, verify, hardlink], ["check", T], ["exist", [T, B]],
                                    ["checkout", T]]
                            out.append({"cls": cls, "state": st_on, "verify": False, "ops": ops,
                                        "tag": f"xfer:{change}/{'hl' if hardlink else 'cp'}/{'V' if verify else '-'}/{prior}"})
    # one verifying add with several problematic sources in one batch, in every position
    c1, c2, h1, h2 = [[3, ""], 4], [[2, ""], 5], [[4, ""], 4], [[0, ""], 0]
    for cls in ("local", "base"):
        for st_on in (False, True):
            for batch in ([c1, c2], [c1, h1, c2], [c1, c2, h1], [h1, c1, c2], [h1, c1, h2, c2], [c2, c1, h1, h2]):
                oidrefs = [it[0] for it in batch]
                out.append({"cls": cls, "state": st_on, "verify": False,
                            "ops": [["add", None, [[B, 1]]], ["add", True, batch], ["exist", oidrefs + [B]],
                                    ["check", oidrefs[0]], ["check", oidrefs[-1]]],
                            "tag": "batch:" + "".join("c" if it in (c1, c2) else "h" for it in batch)})
    # fault stream: removing the objects of one shard directory fails with PermissionError; a query
    # on a tampered object of that shard must still not serve it (any error is an acceptable refusal)
    DIRQ = [["t", T], ["b", B]]
    fchanges = [("append", 0o644), ("replace", 0o644), ("none", None), ("rewrite", 0o644), ("truncate", 0o644), ("empty", 0o644)]
    for cls in ("local", "base"):
        for pattern, mode in (fchanges if full else fchanges[:3]):
            for entry in (("noop", "warm", "stale") if full else ("noop", "stale")):
                for query in ("check", "exist", "checkout", "checkoutst", "checkoutdir", "addverify"):
                    for shard_of in ((T, B) if (full or (pattern == "append" and entry == "stale")) else (T,)):
                        ops = [["add", None, [[T, 0], [B, 1]]]]
                        if pattern != "none":
                            ops.append(["tamper", T, pattern, mode, 3])
                        if entry == "warm":
                            ops.append(["hash", T])
                        if query == "check":
                            ops += [["check", T], ["check", B], ["check", T]]
                        elif query == "exist":
                            ops += [["exist", [B, T, [-1, ""]]], ["exist", [T, B]]]
                        elif query == "checkout":
                            ops += [["checkout", T], ["checkout", B], ["checkout", T]]
                        elif query == "checkoutst":
                            ops += [["checkout", T, True], ["checkout", B, True]]
                        elif query == "checkoutdir":
                            ops += [["checkoutdir", DIRQ], ["checkoutdir", [["b", B]]], ["checkout", T]]
                        else:
                            ops += [["add", True, [[B, 1], [T, 0], [O, 4]]], ["check", T], ["add", True, [[O, 4]]]]
                        out.append({"cls": cls, "state": entry != "noop", "verify": False, "ops": ops,
                                    "fault": oid_of(shard_of)[:2],
                                    "tag": f"fault:{pattern}/{entry}/{query}/{'target' if shard_of is T else 'bystander'}"})
    # checkout while intact, then the change, then checkout again: same oid, same store directory,
    # with the same odb object and with a re-created one; file targets and directory targets
    DIR = [["t", T], ["b", B]]
    for cls in ("local", "base"):
        for pattern, mode in (changes if full else [c for c in changes if c[0] in ("append", "rewrite", "replace", "none", "chmod")]):
            for entry in (("noop", "wiped", "warm", "stale") if full else ("noop", "stale")):
                for target in ("file", "filest", "dir"):
                    for reopen in (False, True):
                        if not full and target == "filest" and not reopen:
                            continue
                        first = {"file": ["checkout", T], "filest": ["checkout", T, True],
                                 "dir": ["checkoutdir", DIR]}[target]
                        ops = [["add", None, [[T, 0], [B, 1]]], first]
                        if pattern != "none":
                            ops.append(["tamper", T, pattern, mode, 3])
                        if entry == "wiped":
                            ops.append(["dropstate"])
                        elif entry == "warm":
                            ops.append(["hash", T])
                        if reopen:
                            ops.append(["reopen"])
                        ops.append(first)
                        if target == "dir":
                            ops.append(["checkout", T])
                        else:
                            ops.append(["checkoutdir", DIR])
                        out.append({"cls": cls, "state": entry != "noop", "verify": False, "ops": ops,
                                    "tag": f"{pattern}/{entry}/re-{target}{'/reopen' if reopen else ''}"})
    out += audit_cases()
    return out


def audit_cases():
    """fixed corpus for the input dimensions of tools/COVERAGE_AUDIT.md that matter for C07; every
    quick run includes all of them (family "audit:*")"""
    out = []

    def case(cls, tag, ops, state=True, **kw):
        out.append({"cls": cls, "state": state, "verify": False, "ops": ops, "tag": "audit:" + tag, **kw})

    Z, DD, DDD, CR = [2, ""], [6, ""], [6, ".dir"], [7, ""]
    for cls in ("local", "base"):
        # link types of the cache: the corrupt bytes must not be materialised through any of them
        for links in (["hardlink"], ["symlink"], ["reflink", "copy"], ["symlink", "copy"]):
            for pattern, mode in (("append", 0o644), ("none", None), ("append", 0o444)):
                ops = [["add", None, [[T, 0], [B, 1]]]]
                if pattern != "none":
                    ops.append(["tamper", T, pattern, mode, 3])
                ops += [["checkout", T], ["checkout", B, True], ["checkout", T, True]]
                if "symlink" not in links:
                    ops.append(["checkoutdir", [["t", T], ["b", B]]])
                case(cls, f"links:{'+'.join(links)}/{pattern}/{mode}", ops, links=links)
        # md5-dos2unix store, CRLF content
        for pattern in ("append", "none", "touch"):
            for query in ("check", "exist", "checkout", "addverify", "xfer"):
                ops = [["add", None, [[CR, 7], [B, 1]]]]
                if pattern != "none":
                    ops.append(["tamper", CR, pattern, 0o644, 3])
                ops += {"check": [["check", CR], ["check", B]], "exist": [["exist", [B, CR]]],
                        "checkout": [["checkout", CR], ["checkout", B, True]],
                        "addverify": [["add", True, [[CR, 7], [O, 4]]], ["check", CR]],
                        "xfer": [["xfer", [3, ""], "append", True, True], ["xfer", [4, ""], "none", True, False],
                                 ["check", CR]]}[query]
                case(cls, f"alg:md5-dos2unix/{pattern}/{query}", ops, alg="md5-dos2unix",
                     state=(pattern != "rewrite"))
        # ids ending in "d" (and the same with the .dir suffix), the zero-length object
        for name, tgt, k in (("idd", DD, 6), ("idd.dir", DDD, 6), ("zero", Z, 2)):
            for pattern, mode in (("append", 0o644), ("none", None), ("chmod", 0o644)):
                for query in ("check", "exist", "checkout", "addverify"):
                    if query == "checkout" and tgt is DDD:
                        continue
                    ops = [["add", None, [[tgt, k], [B, 1]]]]
                    if pattern != "none":
                        ops.append(["tamper", tgt, pattern, mode, 3])
                    ops += {"check": [["check", tgt], ["check", B], ["check", tgt]],
                            "exist": [["exist", [B, tgt]], ["exist", [tgt]]],
                            "checkout": [["checkout", tgt], ["checkoutdir", [["z", tgt], ["b", B]]]],
                            "addverify": [["add", True, [[tgt, k], [O, 4]]], ["check", tgt]]}[query]
                    case(cls, f"{name}/{pattern}/{query}", ops, state=(query != "exist"))
        # corrupt PROTECTED objects (mode 0o444 after the change): the Local mode shortcut trusts them - the
        # property speaks of objects that are NOT write-protected; exercised and counted, not judged
        for pattern in ("append", "replace"):
            for query in ("check", "exist", "checkout", "checkoutdir", "checktree", "addverify"):
                TEp = [["t", 0], ["b", 1]]
                ops = [["add", None, [[T, 0], [B, 1], [["tree", TEp], "self"]]],
                       ["tamper", T, pattern, 0o444, 3]]
                ops += {"check": [["check", T]], "exist": [["exist", [T, B]]], "checkout": [["checkout", T]],
                        "checkoutdir": [["checkoutdir", [["t", T], ["b", B]]]], "checktree": [["checktree", TEp]],
                        "addverify": [["add", True, [[T, 0]]], ["check", T]]}[query]
                case(cls, f"protected-corrupt/{pattern}/{query}", ops)
        # modes other than 0o644 / 0o444: the library trusts EXACTLY 0o444 (is_protected); a damaged object at
        # 0o400 / 0o544 / 0o555 / 0o600 is not write-protected in the property's sense and must be rejected and
        # dropped; an intact one passes and ends at 0o444 on a Local store
        for mode in (0o400, 0o544, 0o555, 0o600):
            pats = ("replace", "chmod", "append") if (cls == "local" and mode == 0o555) else \
                ("replace", "chmod") if cls == "local" else ("replace",)
            for pattern in pats:
                for query in (("check", "exist", "checkout", "addverify") if cls == "local" else ("check", "checkout")):
                    ops = [["add", None, [[T, 0], [B, 1]]], ["tamper", T, pattern, mode, 3]]
                    ops += {"check": [["check", T], ["check", B], ["check", T]],
                            "exist": [["exist", [B, T]], ["exist", [T]]],
                            "checkout": [["checkout", T], ["checkoutdir", [["t", T], ["b", B]]]],
                            "addverify": [["add", True, [[T, 0], [O, 4]]], ["check", T]]}[query]
                    case(cls, f"mode={oct(mode)}/{pattern}/{query}", ops, state=(query != "exist"))
        # check_hash=False
        for pattern in ("append", "none"):
            ops = [["add", None, [[T, 0]]]]
            if pattern != "none":
                ops.append(["tamper", T, pattern, 0o644, 3])
            ops += [["checknh", T], ["checknh", [-1, ""]], ["check", T], ["checknh", T]]
            case(cls, f"check_hash=False/{pattern}", ops)
        # construction routes: add_bytes (no verification, no protection), plant under a wrong name, empty leftover
        for route in ("addbytes-honest", "addbytes-corrupt", "plant-wrong", "empty-leftover"):
            first = {"addbytes-honest": ["addbytes", T, 0], "addbytes-corrupt": ["addbytes", T, 5],
                     "plant-wrong": ["plant", T, 1, 0o644], "empty-leftover": ["plant", T, 2, 0o644]}[route]
            for query in ("check", "exist", "checkout", "addverify" if "corrupt" in route or "wrong" in route else "addplain"):
                ops = [["add", None, [[B, 1]]], first]
                ops += {"check": [["check", T]], "exist": [["exist", [T, B]]], "checkout": [["checkout", T, True]],
                        "addverify": [["add", True, [[T, 0]]], ["check", T]],
                        "addplain": [["add", False, [[T, 0]]], ["check", T]]}[query]
                case(cls, f"route:{route}/{query}", ops, state=(query != "check"))
        # delete fault with EIO instead of EPERM
        for query in ("check", "exist", "checkout", "checkoutdir", "checktree", "addverify", "xfer"):
            TEp = [["t", 0], ["b", 1]]
            ops = [["add", None, [[T, 0], [B, 1]]], ["tamper", T, "append", 0o644, 3]]
            ops += {"check": [["check", T], ["check", B]], "exist": [["exist", [B, T]]],
                    "checkout": [["checkout", T], ["checkout", T, True]],
                    "checkoutdir": [["checkoutdir", [["t", T], ["b", B]]]], "checktree": [["checktree", TEp]],
                    "addverify": [["add", True, [[B, 1], [T, 0]]]],
                    "xfer": [["xfer", T, "none", True, False]]}[query]
            case(cls, f"fault:EIO/{query}", ops, fault=oid_of(T)[:2], fault_errno="EIO")
        # the source is another object store (what index fetch does): verify per call
        for change in ("none", "append", "replace"):
            for verify in (True, False):
                case(cls, f"xfer-from-odb/{change}/{verify}",
                     [["add", None, [[B, 1]]], ["xfer", T, change, verify, False, "odb"], ["check", T],
                      ["exist", [T]], ["checkout", T]])
        # store default verify=True with the per-call flag absent / overriding
        # the per-call flag absent / None passed explicitly / False / True, for both store defaults, through
        # add and through transfer (copy and hard link), every source change
        for sv in (True, False):
            for v in (None, "none", False, True):
                for n_, change in enumerate(("append", "truncate", "rewrite", "empty", "none")):
                    out.append({"cls": cls, "state": n_ % 2 == 0, "verify": sv,
                                "tag": f"audit:store-verify={sv}/call={v}/{change}",
                                "ops": [["add", v, [[T, 5 if change != "none" else 0], [B, 1]]], ["check", T],
                                        ["exist", [T, B]],
                                        ["xfer", O, change, "none" if v in (None, "none") else v, n_ % 2 == 1],
                                        ["check", O], ["add", v, [[T, 0], [O, 3]]], ["check", T], ["check", O]]})
        # directory listings: odd and nested names, two names for one object, the empty listing
        names = [["we\\ird name.txt", 0], [".hidden", 1], ["sub/deep/\u0444\u0430\u0439\u043b.dir", 3], ["imgs", 4], ["imgs_raw", 6]]
        for pattern in ("append", "none"):
            ops = [["add", None, [[[k, ""], k] for _, k in names] + [[["tree", names], "self"]]]]
            if pattern != "none":
                ops.append(["tamper", [3, ""], pattern, 0o644, 1])
            ops += [["checkoutdir", [[nm, [k, ""]] for nm, k in names]], ["checktree", names],
                    ["check", ["tree", names]]]
            case(cls, f"names/{pattern}", ops)
        dup = [["a", 0], ["copy-of-a", 0], ["b", 1]]
        for pattern in ("append", "none"):
            ops = [["add", None, [[T, 0], [B, 1], [["tree", dup], "self"]]]]
            if pattern != "none":
                ops.append(["tamper", T, pattern, 0o644, 3])
            ops += [["checktree", dup], ["checkoutdir", [[nm, [k, ""]] for nm, k in dup]]]
            case(cls, f"duplicate-ids/{pattern}", ops)
        for pattern in ("append", "none", "chmod"):
            ops = [["add", None, [[["tree", []], "self"]]]]
            if pattern != "none":
                ops.append(["tamper", ["tree", []], pattern, 0o644, 3])
            ops += [["checktree", []], ["check", ["tree", []]], ["checkoutdir", []]]
            case(cls, f"empty-listing/{pattern}", ops, state=(pattern != "chmod"))
    return out


def fam_grp(c):
    """(family, group) of a product case: the quick tier keeps one representative per group"""
    tag = c["tag"]
    if tag.startswith("audit:"):
        return "audit", tag
    for pre in ("dir:", "ro:", "tree:", "xfer:", "batch:", "fault:"):
        if tag.startswith(pre):
            parts = tag[len(pre):].split("/")
            fam = pre[:-1]
            if fam == "dir":
                return fam, (parts[0],)
            if fam == "fault":
                return fam, (parts[2],)
            if fam == "ro":
                return fam, (parts[2],)
            if fam == "tree":
                return fam, (parts[0], parts[2])
            if fam == "xfer":
                return fam, (parts[0], parts[1], parts[2])
            return fam, (parts[0],)
    parts = tag.split("/")
    if "/re-" in tag:
        return "re", (parts[0],)
    return "main", (parts[0], parts[2])


def quick_selection(ctx, cases):
    """the whole audit corpus, one representative per (family, class, group) - the member changes
    with the group's rank so that every state entry / prior / shard variant is reached - and a
    seeded sample of the rest"""
    groups = {}
    for c in cases:
        fam, grp = fam_grp(c)
        groups.setdefault((fam, c["cls"], grp), []).append(c)
    fixed, rest = [], []
    for n, (key, members) in enumerate(sorted(groups.items(), key=lambda kv: repr(kv[0]))):
        if key[0] == "audit":
            fixed += members
            continue
        if (key[0] == "main" and key[2][1] == "checkoutst" and key[2][0] not in ("none", "append", "replace")) or \
                (key[0] == "xfer" and key[2][2] == "-" and key[2][0] not in ("none", "append")) or \
                (key[0] == "tree" and key[2][1] == "entry" and key[2][0] not in ("none", "append")):
            rest += members
            continue
        pick = n % len(members)
        fixed.append(members[pick])
        rest += members[:pick] + members[pick + 1:]
    return fixed + ctx.rng.sample(rest, min(20, len(rest)))

def random_case(rng):
    cls = rng.choice(["local", "base"])
    refs = [[k, suf] for k in range(5) for suf in ("", "")] + [[0, ".dir"], [3, ".dir"]]
    ops = []
    n = rng.randint(6, 14)
    first = rng.sample(range(5), rng.randint(1, 3))
    ops.append(["add", None, [[[k, ""], k] for k in first]])
    for _ in range(n):
        r = rng.random()
        ref = rng.choice(refs)
        if r < 0.16:
            ks = rng.sample(refs, rng.randint(1, 3))
            seen, items = set(), []
            for kr in ks:
                if oid_of(kr) in seen:
                    continue
                seen.add(oid_of(kr))
                items.append([kr, kr[0] if rng.random() < 0.7 else rng.randrange(len(POOL))])
            ops.append(["add", rng.choice([None, "none", True, True, False]), items])
        elif r < 0.32:
            ops.append(["check", ref])
        elif r < 0.42:
            ops.append(["exist", [rng.choice(refs + [[-1, ""]]) for _ in range(rng.randint(1, 4))]])
        elif r < 0.47:
            ops.append(["checkout", [ref[0], ""], rng.random() < 0.5])
        elif r < 0.50:
            ks = rng.sample(range(5), rng.randint(1, 3))
            ops.append(["checkoutdir", [[f"f{k}", [k, ""]] for k in ks]])
        elif r < 0.505:
            ops.append(["reopen"])
        elif r < 0.51:
            ops.append(["xfer", [rng.randrange(5), ""], rng.choice(["none", "append", "truncate", "rewrite", "replace", "empty"]),
                        rng.choice([True, True, False, "none"]), rng.random() < 0.5])
        elif r < 0.52:
            ops.append(["handle", rng.choice(["ro", "ro", "rw"])])
        elif r < 0.74:
            pat = rng.choice(["append", "truncate", "rewrite", "replace", "empty", "touch", "chmod", "rewrite", "restore"])
            mode = rng.choice([0o644, 0o644, 0o644, None, 0o444, 0o600, 0o664, 0o400])
            if pat == "chmod" and mode is None:
                mode = 0o644
            ops.append(["tamper", ref, pat, mode, rng.randrange(len(POOL))])
        elif r < 0.80:
            ops.append(["plant", ref, rng.randrange(len(POOL)), rng.choice(MODES)])
        elif r < 0.84:
            ops.append(["del", ref])
        elif r < 0.92:
            ops.append(["hash", ref])
        elif r < 0.96:
            ops.append(["saverow", ref, rng.choice(["md5", "md5", "md5-dos2unix"]),
                        rng.choice([ref, ref, [rng.randrange(5), ""]])])
        else:
            ops.append(["dropstate"])
    # the motif "seen intact by a checkout, changed, checked out again" on one store directory
    for _ in range(rng.randint(1, 2)):
        k = rng.randrange(5)
        tgt = [k, ""]
        dirents = [[f"f{j}", [j, ""]] for j in sorted({k, rng.randrange(5)})]
        look = lambda: (["checkoutdir", dirents] if rng.random() < 0.4 else ["checkout", tgt, rng.random() < 0.5])  # noqa: E731
        motif = [["add", rng.choice([None, True]), [[tgt, k]]], look(),
                 ["tamper", tgt, rng.choice(["append", "truncate", "rewrite", "replace", "empty", "touch", "chmod"]),
                  rng.choice([0o644, 0o644, 0o600, 0o444]), rng.randrange(len(POOL))]]
        if rng.random() < 0.4:
            motif.append(["reopen"])
        elif rng.random() < 0.3:
            motif.append(["handle", "ro"])
        if rng.random() < 0.3:
            motif.append(rng.choice([["hash", tgt], ["dropstate"]]))
        motif.append(look())
        at = rng.randint(1, len(ops))
        ops[at:at] = motif
    if rng.random() < 0.3:
        ks = sorted(rng.sample(range(5), rng.randint(1, 2)))
        te = [[f"e{k}", k] for k in ks]
        dref = ["tree", te]
        motif = [["add", rng.choice([None, True]), [[[k, ""], k] for k in ks] + [[dref, "self"]]]]
        if rng.random() < 0.7:
            motif.append(["tamper", rng.choice([dref, dref, [ks[0], ""]]),
                          rng.choice(["append", "truncate", "rewrite", "replace", "empty", "touch", "chmod"]),
                          rng.choice([0o644, 0o644, 0o600, 0o444]), rng.randrange(len(POOL))])
        if rng.random() < 0.3:
            motif.append(rng.choice([["hash", dref], ["dropstate"], ["handle", "ro"]]))
        motif.append(["checktree", te])
        at = rng.randint(1, len(ops))
        ops[at:at] = motif
    c = {"cls": cls, "state": rng.random() < 0.85, "verify": rng.random() < 0.3, "ops": ops, "tag": "random"}
    if rng.random() < 0.2:
        c["fault"] = oid_of([rng.randrange(5), ""])[:2]
    return c


def load_corpus():
    from lib.core import VERIF

    d = os.path.join(VERIF, "corpus", "C07")
    out = []
    if os.path.isdir(d):
        for n in sorted(os.listdir(d)):
            if n.endswith(".json"):
                with open(os.path.join(d, n)) as f:
                    out.append(json.load(f))
    return out


def run(ctx):
    cases = product_cases()
    if ctx.tier == "quick" and not ctx.changed_anchors:
        cases = quick_selection(ctx, cases)
    cases = load_corpus() + cases
    for _ in range(ctx.n(40, 1500)):
        cases.append(random_case(ctx.rng))
    dims = {}
    items = []
    seen_tags = set()
    for c in cases:
        inp, exp, problems, nontrivial, tags = run_case(ctx, c)
        ctx.case(c, nontrivial)
        ctx.count("class:" + c["cls"])
        ctx.count("state:" + ("State" if c["state"] else "StateNoop"))
        ctx.count("kind:" + ("product" if c.get("tag") != "random" else "random"))
        for t in tags:
            ctx.count("branch:" + t)
            seen_tags.add(t)
        for sig, what in problems:
            ctx.oracle_fail(sig, what, c)
        items.append((c, inp, exp))
        for d_ in case_dimensions(c, tags):
            dims[d_] = dims.get(d_, 0) + 1
    probes(ctx, dims)
    ctx.extra["input_dimensions"] = dict(sorted(dims.items()))
    ctx.extra["observations"] = OBSERVATIONS
    if SHARED.get("state") is not None:
        SHARED["state"].close()
        SHARED.clear()
    ctx.obligation("oracle:integrity", not any(v.kind == "oracle" for v in ctx.violations),
                   f"{len(items)} histories on the real store judged step by step against independent ground truth")
    need = {"check:tampered", "check:intact", "exist:tampered", "exist:intact", "checkout:tampered",
            "checkout:intact", "checkoutdir:tampered", "checkoutdir:intact", "env:reopen", "add:verify",
            "fault:check-aborted", "fault:exist-aborted", "fault:checkout-aborted", "fault:checkoutdir-aborted",
            "fault:add-aborted", "env:handle:ro", "ro:add", "checktree:tampered:own", "checktree:intact",
            "xfer:verify/hardlink", "xfer:verify/copy", "xfer:corrupt-source", "add:verify=None-explicit",
            "xfer:verify=None-explicit"}
    ctx.obligation("generator:coverage", need <= seen_tags, "missing: " + ", ".join(sorted(need - seen_tags)))
    if not need <= seen_tags:
        ctx.broken("correspondence", "generator:coverage", "the generators no longer reach " + ", ".join(sorted(need - seen_tags)))
    ctx.correspond("integrity", IMPORTS, "fcase", "fenc_run", items, shard=64)


def probes(ctx, dims):
    """oracle-only scenarios outside the model: anomalies at an object's path, index-level fetch with
    the remote's verify flag, index-level checkout (observed, not judged: it is not among C07's
    anchored functions and performs no integrity check at all)"""
    import hashlib

    from dvc_objects.fs.local import LocalFileSystem

    from dvc_data.hashfile.checkout import checkout
    from dvc_data.hashfile.db import HashFileDB
    from dvc_data.hashfile.db.local import LocalHashFileDB
    from dvc_data.hashfile.hash_info import HashInfo
    from dvc_data.hashfile.meta import Meta
    from dvc_data.hashfile.obj import HashFile

    fs = LocalFileSystem()
    good = b"probe-object"
    oid = hashlib.md5(good).hexdigest()  # noqa: S324
    measured = {}

    def mk(cls, name, **cfg):
        r = ctx.fresh("c07p")
        odb = (LocalHashFileDB if cls == "local" else HashFileDB)(fs, os.path.join(r, "store"), **cfg)
        src = os.path.join(r, "src")
        with open(src, "wb") as f:
            f.write(good)
        odb.add([src], fs, [oid])
        return r, odb

    def attempt(f):
        try:
            return 0, f()
        except Exception as exc:  # noqa: BLE001
            return type(exc).__name__, None

    for cls in ("local", "base"):
        for anomaly in ("directory", "dangling-symlink", "symlink-to-other-bytes"):
            r, odb = mk(cls, anomaly)
            p = odb.oid_to_path(oid)
            os.chmod(p, 0o644)
            os.unlink(p)
            if anomaly == "directory":
                os.mkdir(p)
            elif anomaly == "dangling-symlink":
                os.symlink(os.path.join(r, "nowhere"), p)
            else:
                with open(os.path.join(r, "other"), "wb") as f:
                    f.write(b"OTHER BYTES")
                os.symlink(os.path.join(r, "other"), p)
            case = {"probe": "object-path-anomaly", "cls": cls, "anomaly": anomaly}
            c1, _ = attempt(lambda: odb.check(oid))
            if c1 == 0:
                ctx.oracle_fail("C07:anomaly-accepted:check", f"check accepted a {anomaly} at the object's path", case)
            c2, lst = attempt(lambda: list(odb.oids_exist([oid])))
            if cls == "local" and c2 == 0 and oid in lst:
                ctx.oracle_fail("C07:anomaly-accepted:oids_exist", f"oids_exist listed a {anomaly} at the object's path", case)
            dest = os.path.join(r, "ws-out")
            c3, _ = attempt(lambda: checkout(dest, fs, HashFile(None, None, HashInfo("md5", oid)), odb, quiet=True))
            served = None
            if os.path.isfile(dest):
                with open(dest, "rb") as f:
                    served = f.read()
            if served is not None and served != good:
                ctx.oracle_fail("C07:corrupt-materialised:anomaly", f"checkout served {served!r} from a {anomaly}", case)
            measured[f"anomaly:{cls}:{anomaly}"] = [str(c1), str(c2), str(c3)]
            dims["anomaly-at-object-path:" + anomaly] = dims.get("anomaly-at-object-path:" + anomaly, 0) + 1
            ctx.evaluations += 1
            impl.rm_rf(r)
    # index fetch: transfer(remote.odb, cache.odb, verify=remote.odb.verify)
    try:
        from dvc_data.index import DataIndex, DataIndexEntry, ObjectStorage
        from dvc_data.index.checkout import apply, compare
        from dvc_data.index.fetch import fetch

        for cls in ("local", "base"):
            for rverify in (True, False):
                r, remote = mk(cls, "fetch", verify=rverify)
                cache = (LocalHashFileDB if cls == "local" else HashFileDB)(fs, os.path.join(r, "cache"))
                p = remote.oid_to_path(oid)
                os.chmod(p, 0o644)
                with open(p, "ab") as f:
                    f.write(b"X")
                os.chmod(p, 0o444)
                idx = DataIndex({("f",): DataIndexEntry(key=("f",), meta=Meta(size=len(good)), hash_info=HashInfo("md5", oid))})
                idx.storage_map.add_cache(ObjectStorage((), cache))
                idx.storage_map.add_data(ObjectStorage((), remote))
                code, res = attempt(lambda: fetch([idx]))
                q = cache.oid_to_path(oid)
                kept = os.path.exists(q)
                if rverify and kept:
                    ctx.oracle_fail("C07:verify-retained-mismatch:fetch",
                                    "index fetch from a remote configured verify=True left the mismatching object in the cache",
                                    {"probe": "index-fetch", "cls": cls, "remote_verify": True})
                if rverify and code == 0 and res and res[1] < 1:
                    ctx.oracle_fail("C07:verify-drop-not-reported:fetch", f"index fetch reported {res} for a corrupt remote object",
                                    {"probe": "index-fetch", "cls": cls, "remote_verify": True})
                measured[f"index-fetch:{cls}:remote.verify={rverify}"] = [str(code), str(res), "retained" if kept else "dropped"]
                dims[f"route:index-fetch/verify={rverify}"] = dims.get(f"route:index-fetch/verify={rverify}", 0) + 1
                ctx.evaluations += 1
                impl.rm_rf(r)
        # index checkout from a cache holding a corrupt unprotected object: OBSERVED only
        for links in (["copy"], ["symlink"], ["hardlink"]):
            r, cache = mk("local", "idx-checkout", type=links)
            p = cache.oid_to_path(oid)
            os.chmod(p, 0o644)
            with open(p, "ab") as f:
                f.write(b"X")
            idx = DataIndex({("f",): DataIndexEntry(key=("f",), meta=Meta(size=len(good)), hash_info=HashInfo("md5", oid))})
            idx.storage_map.add_cache(ObjectStorage((), cache))
            errs = []
            code, _ = attempt(lambda: apply(compare(None, idx), os.path.join(r, "ws"), fs, storage="cache", links=links,
                                            onerror=lambda *a: errs.append(type(a[-1]).__name__)))
            dest = os.path.join(r, "ws", "f")
            served = None
            if os.path.exists(dest):
                with open(dest, "rb") as f:
                    served = f.read()
            measured[f"index-checkout:{'+'.join(links)}"] = [str(code), ",".join(errs),
                                                             "SERVED CORRUPT BYTES" if served not in (None, good) else "not served"]
            dims["route:index-checkout(observed)"] = dims.get("route:index-checkout(observed)", 0) + 1
            ctx.evaluations += 1
            impl.rm_rf(r)
    except ImportError as exc:
        measured["index-probes"] = ["skipped: " + repr(exc)]
    ctx.extra["probes"] = measured


OBSERVATIONS = [
    "corrupt PROTECTED objects (mode 0o444) on a Local store are trusted by mode: check / oids_exist accept them and "
    "checkout materialises them through every link type (by design of the mode shortcut; the property text excludes "
    "write-protected objects); a Base store ignores the mode and rejects them",
    "link type symlink: checkout of a corrupt/missing object creates the link to the (deleted) object first, then "
    "fails with FileNotFoundError on the stat of the new path - no bytes are served, but a DANGLING symlink is left in "
    "the workspace and the exception is not CheckoutError",
    "transfer(src, dest) passes its own verify argument (default False) down to dest.add, overriding the store "
    "default: push into a store configured verify=True retains a mismatching object (index push never verifies; "
    "index fetch passes the REMOTE's verify flag)",
    "index checkout (index/checkout.py apply) performs no integrity check of the cache: a corrupt UNPROTECTED object is "
    "materialised silently through copy, symlink and hardlink (measured on every run under coverage.probes; not judged: "
    "the function is not among C07's anchors - reported to the lead)",
    "a directory at an object's path makes check / Local oids_exist / checkout raise IsADirectoryError (a refusal by "
    "error, nothing deleted); a Base oids_exist reports a directory or a dangling symlink at the path as existing",
]


def case_dimensions(c, tags):
    """input dimensions of tools/COVERAGE_AUDIT.md reached by this case"""
    d = ["class:" + c["cls"], "state:" + ("real" if c["state"] else "noop"), "family:" + fam_grp(c)[0] if c.get("tag") != "random" else "family:random"]
    if c.get("links"):
        d.append("links:" + "+".join(c["links"]))
    if c.get("alg"):
        d.append("algorithm:" + c["alg"])
    if c.get("fault"):
        d.append("delete-fault:" + c.get("fault_errno", "EPERM"))
    if c.get("verify"):
        d.append("store-default-verify")
    flat = repr(c["ops"])
    for key, dim in (("'.dir'", "id:.dir-suffix"), ("'tree'", "id:tree-own-object"), ("'handle', 'ro'", "handle:read_only"),
                     ("'reopen'", "handle:re-created"), ("'dropstate'", "state:wiped"), ("'hash'", "state:warm"),
                     ("'saverow'", "state:foreign-row"), ("'checknh'", "flag:check_hash=False"),
                     ("'addbytes'", "route:add_bytes"), ("'plant'", "route:planted-file"), ("'xfer'", "route:transfer"),
                     ("'checktree'", "route:tree-check"), ("'checkoutdir'", "route:checkout-dir"),
                     ("'checkout'", "route:checkout-file"), ("'exist'", "route:oids_exist"), ("'odb'", "route:transfer-from-odb"),
                     ("'restore'", "tamper:mtime-restoring"), ("'del'", "env:object-deleted"),
                     ("[2, '']", "id:zero-length-object"), ("[6, ", "id:ends-in-dd"), ("[4, '']", "id:ends-in-d")):
        if key in flat:
            d.append(dim)
    for op in c["ops"]:
        if op[0] == "tamper":
            d.append("tamper:" + op[2] + ("/kept-protected" if op[3] == 0o444 else ""))
            if op[3] not in (None, 0o644, 0o444):
                d.append("mode-after-change:" + oct(op[3]))
        if op[0] == "add":
            d.append("add:verify=" + str(op[1]))
        if op[0] == "xfer":
            d.append(f"transfer:verify={op[3]}/hardlink={op[4]}")
    for t in tags:
        if t.startswith(("fault:", "checkout:dangling", "checkout:symlink", "checkout:refused", "xfer:corrupt")):
            d.append("outcome:" + t)
    return sorted(set(d))


def replay_case(ctx, case):
    inp, exp, problems, nontrivial, tags = run_case(ctx, case)
    return {"problems": problems, "violates": bool(problems), "tags": sorted(tags)}
