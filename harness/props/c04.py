"""C04 - a transfer keeps the destination closed: a directory object implies its files."""

import copy

from props import _transfer_common as TC
from props import _transfer_flags as TF
from props import _transfer_push as TP

PROPERTY = "C04"
GEN: list = ["transfer"]
RULE = (
    "scenario = universe (3-6 file contents incl. the empty one, 1-4 flat listings sharing files and repeating a "
    "file under several paths, per-scenario salt) x source (complete / a listed file missing / a corrupt file object) "
    "(a source index, real or no-op, when a listed file is lost = fetch direction: the source-side status then counts "
    "it present and its upload raises FileNotFoundError) x closed initial destination (empty / some files / whole directories) x closed request (all directories with all "
    "their files, shallow; or directories (+files) expanded) x verify x cache_odb x source class; the would-be uploads "
    "are observed by a fault-free run, then for a fail set F (thorough: every subset when <=5 uploads, else singles of "
    "shared files + random subsets; quick: a seeded sample that always contains a shared-file single) and a "
    "configuration (destination class x destination index): fault-free round, faulty round, fault-free retry on the "
    "result, and one crash round per abort point n=1..attempts of the faulty round, each on a fresh copy of the "
    "initial destination; plus scenarios where listed source files vanish between the status phase and the uploads; the closure audit runs after every upload attempt and at the end of every round. Sharing chains A-f-B-g-C(-h-D) (consecutive directories share one file): salts are drawn until "
    "the observed directory-loop order A,B,C (<=30 draws) and >=3 (thorough: 6) distinct orders were seen, then every "
    "single-file failure (thorough: + pairs) with retry and a crash round per abort point. ~20% of the listings "
    "carry special relpaths (backslash, leading dots, spaces, unicode, json-escaped characters), ~8% twins "
    "`x/y` vs `x\\y`; listings are read back from the real bytes with json.loads only. Separate oracle-only stream: index-level pushes of a DataIndex (a file entry + 1-2 directory entries sharing "
    "a file, lazily loaded or with explicit children) from a cache lacking 0-2 listed files to an empty / closed "
    "remote through the fault-injecting file system, then a retry after the cache was restored. A "
    "scenario is non-trivial when an upload happened and a failure, crash, verification drop, file missing on both "
    "sides or pre-populated destination is involved."
)
ASSUMPTIONS = [
    "coverage audit: dimensions Model/Transfer.v does not cover run as ORACLE-ONLY scenarios (case key oracle_only; "
    "no correspondence item), judged by the same oracles: a contract-honouring FileExistsError (the object is placed, "
    "then the exception raised: an id reported failed while present is allowed), faults in the destination's "
    "existence query, a raising validate_status, read-only destination, real hard links on a plain LocalFileSystem "
    "(source BYTES must stay; mode changes of a hard-linked source are not judged), the memfs staging source of "
    "hashfile.build",
] + TF.OBSERVATION_ASSUMPTIONS + [
    "non-flat listings (a listing naming another directory object's id) are run for the correspondence but are "
    "outside C04's quantifier: excluded from the closure audit and counted",
    "index-level push: oracle-only stream in C04 (dvc_data.index.push.push over collect(..., push=True) with a cache "
    "that lacks 0-2 listed files, then restored and pushed again); the designated (closed) request is modelled and "
    "proved in C18 (Model/PushFetch.v)",
    "an upload is atomic (LocalFileSystem.put_file: temporary name + os.replace); the process can be killed between "
    "uploads, not inside one; the abort is imposed right after an upload attempt (BaseException out of put_file)",
    "uploads are sequential (jobs=1; dvc_objects uses batch_size=1 for local->local copies); the orders of the "
    "directory loop and of the uploads are observed and passed to the model as oracle arguments",
    "source, cache_odb and base-class stores: objects (corrupt ones included) are planted write-protected (0o444; a "
    "LocalHashFileDB trusts them by mode, a base-class store only looks at existence). Local-class DESTINATION: an "
    "unprotected copy (mode != 0o444) whose bytes do not hash to its id is not vouched for and counts as ABSENT at "
    "the start of a round, because status() re-hashes and removes it (one rule, os.stat + hashlib: "
    "_transfer_common.effective_store); such copies are only pre-seeded without a destination index and for ids "
    "the status query covers",
    "requested HashInfos may carry a descriptive label (obj_name); the harness compares ids by .value only",
    "directory objects in play are genuine (bytes hash to the id) and flat; the request is closed and the "
    "destination is closed at the start of the round (the property's quantifier); with a destination index the round "
    "is audited when the index is sound (every key present) or stale in the way the real validation detects (a "
    "directory is requested and an indexed directory object is gone) - the Coq hypothesis ix_sound; other rounds "
    "are counted under excluded:*",
    "30% of the destinations carry a real hash State (sqlite)",
    "closure is judged on a plain os.listdir/json view of the destination (lib.impl.walk_store), not through dvc_data",
]


def _configs(ctx):
    # destination class x destination index (none / real; a quarter of the indexed ones use the no-op class)
    allc = [(cls, ("noop" if dix and ctx.rng.random() < 0.25 else dix))
            for cls in ("local", "base") for dix in (False, True)]
    if ctx.tier == "thorough":
        return allc
    return [ctx.rng.choice(allc)]


def _judge_and_register(ctx, S, notes, items):
    case = S.case
    problems = TC.judge_c04(S)
    feats, nontrivial = TC.features(S)
    ctx.case(case, nontrivial)
    for n in notes:
        ctx.count(n)
    for f in feats:
        ctx.count("feature:" + f)
    ctx.count("class:" + case["dst_cls"] + ("+index" + ("(noop)" if case["dix"] == "noop" else "") if case["dix"] else "")
              + ("+srcindex" + ("(noop)" if case["six"] == "noop" else "") if case["six"] else ""))
    ctx.count("mode:" + ("shallow" if case["shallow"] else "expand") + ("/verify" if case["verify"] else ""))
    for k, v in S.excluded.items():
        ctx.count(k if k.startswith("judged:") else "excluded:" + k, v)
    if case.get("dst_state"):
        ctx.count("dst-state")
    if case.get("labels"):
        ctx.count("labelled-request")
    ctx.count("status-phase-removals", sum(len(ob.get("status_drops") or []) for ob in S.rounds))
    ctx.count("rounds", len(S.rounds))
    ctx.count("crash-rounds", sum(1 for ob in S.rounds if ob["crash"] is not None))
    ctx.count("audited-rounds", sum(1 for ob in S.rounds if TC.c04_preconditions(S, ob) is None))
    ctx.count("audit-points", sum(len(ob["snaps"]) + 1 for ob in S.rounds if TC.c04_preconditions(S, ob) is None))
    problems = TC.report(ctx, problems, case)
    TC.count_dims(ctx, TC.dimensions(S) | set(n for n in notes if n.startswith(("stream:", "shape:", "name:", "audit:")) or n in TC.NOTE_DIMS))
    if case.get("oracle_only"):
        ctx.count("oracle-only-scenarios")
    else:
        inp, exp = S.terms()
        items.append((case, inp, exp))
    return problems


def _history(ctx, case, notes, items):
    """run a multi-round history, then replay it with the second round aborted at (quick: one,
    thorough: every) upload attempt"""
    S = TC.run_scenario(ctx, case)
    try:
        n = len(_judge_and_register(ctx, S, notes, items))
        k = 1 if len(S.rounds) > 1 else 0
        m = len(S.rounds[k]["putorder"])
    finally:
        S.close()
    points = list(range(1, m + 1))
    if ctx.tier != "thorough" and len(points) > 1:
        points = [ctx.rng.choice(points)]
    for cv in TC.crash_variants(case, k, m, points):
        S = TC.run_scenario(ctx, cv)
        try:
            n += len(_judge_and_register(ctx, S, notes + ["history:crash-variant"], items))
        finally:
            S.close()
    return n


def _chain_rounds(ctx, case, F, cls, dix, items, notes):
    case = copy.deepcopy(case)
    case["dst_cls"] = cls
    case["dix"] = dix
    case["rounds"] = [{"fails": list(F), "crash": None, "reset": True}, {"fails": [], "crash": None, "reset": False}]
    S = TC.run_scenario(ctx, case, crash_all=True)
    try:
        ctx.count("chain-order:" + TC.chain_order([S.tok[o] for o in S.rounds[0]["dirorder"]]))
        return len(_judge_and_register(ctx, S, notes, items))
    finally:
        S.close()


def _chains(ctx, items):
    import itertools

    n = 0
    allc = [(cls, dix) for cls in ("local", "base") for dix in (False, True)]
    # corpus: the 3-chain that runs A, B, C; the shared file f fails; both destination classes
    for shallow in (True, False):
        case, salt = TC.corpus_chain(ctx, shallow)
        if case is None:
            ctx.count("chain:corpus-order-not-found")
            continue
        ctx.count("chain:corpus-salt=" + salt)
        for cls in ("local", "base"):
            n += _chain_rounds(ctx, case, ["f1"], cls, shallow and cls == "base", items, ["corpus", "chain"])
        if shallow:
            # the same chain with every requested id labelled (HashInfo.obj_name)
            lab = copy.deepcopy(case)
            lab["labels"] = {t: ("chain/" + t) for t in lab["req"]}
            for cls in ("local", "base"):
                n += _chain_rounds(ctx, lab, ["f1"], cls, False, items, ["corpus", "chain", "labels:all"])
    want = 3 if ctx.tier != "thorough" else 6
    for _ in range(ctx.n(2, 3)):
        shallow = ctx.rng.random() < 0.5
        size = 4 if ctx.rng.random() < 0.3 else 3
        seen = {}
        for _draw in range(30):
            case = TC.chain_case("%08x" % ctx.rng.getrandbits(32), shallow, size)
            if ctx.rng.random() < 0.4:
                case["labels"] = TC.make_labels(ctx.rng, case, list(case["req"]))
            _ups, order = TC.probe_round(ctx, case)
            seen.setdefault(TC.chain_order(order), case)
            if "ABC" in seen and len(seen) >= want:
                break
        ctx.count("chain:bases")
        ctx.count("chain:orders-seen=%d" % len(seen))
        if "ABC" not in seen:
            ctx.count("chain:no-ABC-in-30-draws")
        keys = (["ABC"] if "ABC" in seen else []) + [k for k in seen if k != "ABC"]
        for key in keys[:want]:
            case = seen[key]
            ftoks = list(case["files"])
            shared = ["f1", "f3"] + (["f5"] if size == 4 else [])
            if ctx.tier == "thorough":
                fsets = [[f] for f in ftoks] + [list(c) for c in itertools.combinations(ftoks, 2)]
            elif key == "ABC":
                fsets = [[f] for f in ftoks]
            else:
                fsets = [[f] for f in shared]
            for F in fsets:
                cls, dix = ctx.rng.choice(allc)
                n += _chain_rounds(ctx, case, F, cls, dix, items,
                                   ["chain", "chain:size=%d" % size, "mode-chain:" + ("shallow" if shallow else "expand")])
    return n


def _audit(ctx, items):
    n = 0
    batches = [([(c, ["audit:names"]) for c in TF.names_cases("C04")], "all"),
               ([(c, ["audit:shapes"]) for c in TF.shape_cases("C04")], "all"),
               ([(c, ["audit:flags"]) for c in TF.flag_cases("C04")], "one"),
               ([(c, ["audit:legacy-stores"]) for c in TF.legacy_cases("C04")], "all"),
               (TF.position_cases(ctx, "C04"), "one"),
               ([(c, ["audit:oracle-only"]) for c in TF.oracle_only_cases("C04")], "none")]
    for cases, crashes in batches:
        for case, notes in cases:
            case = copy.deepcopy(case)
            if case.get("oracle_only") or any(r.get("kill_state") for r in case["rounds"]):
                crashes_ = "none"
            else:
                crashes_ = crashes
            S = TC.run_scenario(ctx, case, crash_all=crashes_ == "all", crash_some=1 if crashes_ == "one" else 0)
            try:
                n += len(_judge_and_register(ctx, S, ["corpus"] + notes, items))
            finally:
                S.close()
    TF.run_observations(ctx, "C04")  # unjudged inputs, recorded only
    # the memfs staging source of hashfile.build (oracle-only; closure audit + retry)
    for case in TF.staging_cases() + TF.mixedfs_cases():
        case = {**case, "prop": "C04"}
        problems, dims, rounds = TF.run_staging(ctx, case)
        ctx.case(case, True)
        ctx.count("audit:staging")
        ctx.count("oracle-only-scenarios")
        TC.count_dims(ctx, dims)
        n += len(TC.report(ctx, [p for p in problems if p[0].startswith("C04:")], case))
    return n


def run(ctx):
    items = []
    n_problems = 0
    # ---- corpus first
    for case in TC.builtin_corpus("C04") + TC.corpus_cases("C04"):
        case = copy.deepcopy(case)
        case["prop"] = "C04"
        if any(r.get("delete") for r in case["rounds"]):
            n_problems += _history(ctx, case, ["corpus"], items)
            continue
        S = TC.run_scenario(ctx, case, crash_all=True)
        try:
            n_problems += len(_judge_and_register(ctx, S, ["corpus"], items))
        finally:
            S.close()
    # ---- coverage audit (tools/COVERAGE_AUDIT.md): fixed cases reaching every input dimension
    n_problems += _audit(ctx, items)
    # ---- sharing chains A -f- B -g- C (-h- D): every single-file failure (pairs in thorough) under
    # the observed directory-loop orders; the order A,B,C is always among them
    n_problems += _chains(ctx, items)
    # ---- generated
    nbase = ctx.n(30, 20)
    per_base = ctx.n(2, 30)
    for _ in range(nbase):
        base, notes = TC.gen_base(ctx.rng, "C04")
        if ctx.rng.random() < 0.3:
            base["dst_state"] = True  # a real hash State on the destination
        uploads = TC.probe_uploads(ctx, base)
        ctx.count("uploads:%d" % min(len(uploads), 8))
        shared = TC.shared_files(base)
        fsets = TC.fail_sets(ctx.rng, uploads, shared, 5 if ctx.tier == "thorough" else 0, 6)
        if len(fsets) > per_base:
            pri = [f for f in fsets if len(f) == 1 and f[0] in shared][:1]
            rest = [f for f in fsets if f not in pri]
            fsets = pri + ctx.rng.sample(rest, per_base - len(pri))
        if not fsets:
            fsets = [[]]
        probed = set()  # the fault-free round is the same for every fail set: once per configuration
        for F in fsets:
            for cls, dix in _configs(ctx):
                case = copy.deepcopy(base)
                case["dst_cls"] = cls
                case["dix"] = dix
                case["rounds"] = []
                if ctx.rng.random() < (0.6 if cls == "local" and not dix else 0.0) and TC.add_rot(ctx.rng, case, notes, "C04"):
                    ctx.count("dst-rot")
                if (cls, dix) not in probed or not F:
                    probed.add((cls, dix))
                    case["rounds"].append({"fails": [], "crash": None, "reset": True})
                if F:
                    case["rounds"] += [{"fails": list(F), "crash": None, "reset": True},
                                       {"fails": [], "crash": None, "reset": False}]
                    if any(f in shared for f in F):
                        ctx.count("fails:shared-file")
                ctx.count("fails:%d" % len(F))
                S = TC.run_scenario(ctx, case, crash_all=True)
                try:
                    n_problems += len(_judge_and_register(ctx, S, notes, items))
                finally:
                    S.close()
        # a source file object vanishes between the status phase and the uploads (concurrent gc of
        # the source): its upload fails, its directories must be withheld and reported failed
        listed = {f for lst in base["dirs"].values() for _, f in lst}
        file_ups = [u for u in uploads if not u.endswith(".dir")]
        if file_ups and (ctx.tier == "thorough" or ctx.rng.random() < 0.5):
            pool = [u for u in file_ups if u in listed] or file_ups
            V = sorted(ctx.rng.sample(pool, min(len(pool), ctx.rng.choice([1, 1, 2]))))
            for cls, dix in _configs(ctx):
                case = copy.deepcopy(base)
                case["dst_cls"] = cls
                case["dix"] = dix
                first = {"fails": [], "vanish": V, "crash": None, "reset": True}
                others = [u for u in uploads if u not in V]
                if others and ctx.rng.random() < 0.3:
                    first["fails"] = [ctx.rng.choice(others)]
                case["rounds"] = [first, {"fails": [], "crash": None, "reset": False}]
                ctx.count("fault:vanish")
                S = TC.run_scenario(ctx, case, crash_all=True)
                try:
                    n_problems += len(_judge_and_register(ctx, S, notes, items))
                finally:
                    S.close()
    # ---- histories: remote gc behind a persistent destination index, then a different tree
    for _ in range(ctx.n(12, 100)):
        case, notes = TC.gen_history_c04(ctx.rng)
        n_problems += _history(ctx, case, notes, items)
    # ---- index-level push stream (oracle only)
    n_push = n_push_problems = 0
    for case in TP.builtin_corpus() + [TP.gen_case(ctx.rng) for _ in range(ctx.n(20, 160))]:
        for cv, problems, (feats, nontrivial), rounds in TP.run_case(ctx, copy.deepcopy(case),
                                                                    crash_points=ctx.n(1, 8)):
            n_push += 1
            ctx.case(cv, nontrivial)
            ctx.count("push:scenarios")
            ctx.count("push:rounds", len(rounds))
            ctx.count("push:audit-points", sum(len(ob["snaps"]) + 1 for ob in rounds))
            ctx.count("push:" + ("explicit-children" if cv["explicit"] else "lazy-dir-entries"))
            TC.count_dims(ctx, {"stream:index-push", "stream:index-push:" + ("explicit-children" if cv["explicit"] else "lazy-dir-entries"),
                                "class:%s->%s(push)" % (cv["cache_cls"], cv["remote_cls"])}
                          | ({"push:cache-lacks-listed-file"} if cv["cache_missing"] else set())
                          | ({"kill:after-upload-attempt"} if any(r.get("crash") for r in cv["rounds"]) else set()))
            ctx.count("push:cache-missing=%d" % len(cv["cache_missing"]))
            ctx.count("push:remote:" + cv["remote_cls"] + ("+index" if cv["remote_index"] else ""))
            for f in feats:
                ctx.count("push:feature:" + f)
            for sig, what in problems:
                ctx.oracle_fail(sig, what, cv)
            n_push_problems += len(problems)
    ctx.obligation("oracle:index-push-closure", n_push_problems == 0,
                   f"{n_push} index-level push scenarios ({ctx.dist.get('push:rounds', 0)} rounds, closure audited at "
                   f"{ctx.dist.get('push:audit-points', 0)} points, retry-completes after the cache was restored)")
    ctx.obligation("oracle:closure", n_problems == 0,
                   f"{len(items)} scenarios, {ctx.dist.get('rounds', 0)} real transfer rounds "
                   f"({ctx.dist.get('crash-rounds', 0)} aborted), closure audited at {ctx.dist.get('audit-points', 0)} points; "
                   "withheld/failed and retry-completes judged on every faulty round")
    ctx.correspond("transfer", TC.IMPORTS, TC.INPUT_TYPE, TC.MODEL_FN, items, shard=40)
    ctx.extra["exhaustive"] = False


def replay_case(ctx, case):
    case = copy.deepcopy(case)
    if case.get("stream") in ("staging", "mixedfs"):
        problems, _dims, rounds = TF.run_staging(ctx, case)
        problems = [p for p in problems if p[0].startswith("C04:")]
        return {"violates": bool(problems), "problems": problems, "outcomes": [str(r["outcome"][:1]) for r in rounds]}
    if case.get("stream") == "index-push":
        res = TP.run_case(ctx, case)
        problems = res[0][1]
        return {"violates": bool(problems), "problems": problems,
                "outcomes": [list(map(str, ob["outcome"])) for ob in res[0][3]]}
    S = TC.run_scenario(ctx, case)
    try:
        problems = TC.judge_c04(S)
        return {"violates": bool(problems), "problems": problems,
                "outcomes": [list(map(str, ob["outcome"][:2])) for ob in S.rounds]}
    finally:
        S.close()
