"""C15 - a crash at any point leaves the store valid, and re-running recovers.

Trace validation (DESIGN 4.3).  A CHILD process (this same file, `c15.py child <cfg.json>`)
runs one scenario of the real code with a `sys.addaudithook` recorder: every file-system
mutation below the store root (open for write / os.rename / os.remove / os.mkdir / os.chmod /
os.link / os.symlink / os.truncate) and every hash-state write that concerns a store path
(HashesCache.set_many / __setitem__, wrapped from here) is an *event*.  The child either runs
to the end (recording, before every event, an independent listing of the store) or kills itself
with os._exit at the n-th event - before that event executes - or in the middle of a temp copy.
The parent abstracts the stream (temp names -> Tmp i, <root>/ab/cdef -> Obj oid, contents ->
their md5), has the Coq model (Model/AddSteps.v) check `valid_trace`, the store after EVERY
prefix, the program generators, and judges every crashed store with an independent oracle,
re-runs the operation and compares with the uninterrupted run.
"""

import hashlib
import json
import os
import stat
import subprocess
import sys

MUT_EVENTS = {"os.rename", "os.chmod", "os.remove", "os.mkdir", "os.rmdir", "os.link",
              "os.symlink", "os.truncate"}


# ======================================================================================
# child
# ======================================================================================

def _snapshot(root):
    """independent listing of everything below the store root: {relpath: [md5, mode]}"""
    out = {}
    for r, _ds, fs in os.walk(root):
        for n in fs:
            p = os.path.join(r, n)
            try:
                with open(p, "rb") as f:
                    b = f.read()
                out[os.path.relpath(p, root)] = [hashlib.md5(b).hexdigest(), stat.S_IMODE(os.lstat(p).st_mode)]  # noqa: S324
            except FileNotFoundError:
                pass
    return out


def child_main(cfg):
    import logging
    import shutil

    logging.disable(logging.CRITICAL)
    root = cfg["root"]
    store = os.path.join(root, cfg.get("store", "cache"))
    kill_at = int(cfg.get("kill_at", 0))
    snap = bool(cfg.get("snapshots", False))
    log = open(cfg["log"], "w") if cfg.get("log") else None  # noqa: SIM115
    st = {"on": False, "n": 0, "busy": False}

    def inside(p):
        return isinstance(p, str) and (os.path.abspath(p) + os.sep).startswith(store + os.sep)

    def tick(ev):
        """one mutating event is about to happen"""
        st["n"] += 1
        if st["n"] == kill_at:
            if cfg.get("kill_mode") == "mid_state" and ev.get("ev") == "state":
                st["mid"] = True  # the kill lands INSIDE the state transaction (see set_many below)
            else:
                if log:
                    log.flush()
                os._exit(77)
        if log:
            st["busy"] = True
            try:
                if snap:
                    ev["before"] = _snapshot(store)
                log.write(json.dumps(ev) + "\n")
                log.flush()
            finally:
                st["busy"] = False

    def rel(p):
        return os.path.relpath(os.path.abspath(p), store)

    def hook(name, args):
        if not st["on"] or st["busy"]:
            return
        if name == "open":
            p, _mode, flags = args
            if isinstance(flags, int) and (flags & (os.O_WRONLY | os.O_RDWR | os.O_CREAT | os.O_TRUNC)) \
                    and inside(p) and os.path.abspath(p) != store:
                tick({"ev": "open", "p": rel(p), "creat": bool(flags & os.O_CREAT),
                      "trunc": bool(flags & os.O_TRUNC)})
        elif name in MUT_EVENTS:
            ps = [a for a in args[:2] if isinstance(a, str)]
            if name == "os.rename" and len(ps) == 2 and (inside(ps[0]) or inside(ps[1])):
                tick({"ev": "rename", "p": rel(ps[0]) if inside(ps[0]) else None,
                      "q": rel(ps[1]) if inside(ps[1]) else None})
            elif name == "os.link" and len(ps) == 2 and inside(ps[1]):
                ev = {"ev": "link", "p": rel(ps[1])}
                st["busy"] = True
                try:
                    with open(ps[0], "rb") as f:
                        ev["md5"] = hashlib.md5(f.read()).hexdigest()  # noqa: S324
                    ev["mode"] = stat.S_IMODE(os.stat(ps[0]).st_mode)
                except OSError:
                    pass
                finally:
                    st["busy"] = False
                tick(ev)
            elif name == "os.symlink" and len(ps) == 2 and inside(ps[1]):
                tick({"ev": "symlink", "p": rel(ps[1])})
            elif ps and inside(ps[0]) and name not in ("os.rename", "os.link", "os.symlink"):
                e = {"ev": name[3:], "p": rel(ps[0])}
                if name == "os.chmod":
                    e["mode"] = args[1]
                tick(e)

    sys.addaudithook(hook)

    # --- the temp copy: shutil.copyfile(src, tmp) is [open(tmp,'wb')] + a write that raises no
    # audit event.  The wrapper adds two synthetic events (half written, fully written) so that a
    # kill can also land in the middle of a copy; in a run that is not killed there it calls the
    # original function unchanged.
    orig_copyfile = shutil.copyfile

    def copyfile(src, dst, *a, **kw):
        if not st["on"] or not inside(dst):
            return orig_copyfile(src, dst, *a, **kw)
        with open(src, "rb") as f:
            data = f.read()
        half = data[: len(data) // 2]
        n0 = st["n"]
        if kill_at in (n0 + 2, n0 + 3):
            with open(dst, "wb") as f:  # event n0+1 (create)
                if kill_at == n0 + 3:
                    f.write(half)
            tick({"ev": "write", "p": rel(dst)})
            tick({"ev": "write", "p": rel(dst)})
            raise AssertionError("unreachable")
        if not log:
            return orig_copyfile(src, dst, *a, **kw)  # event n0+1 inside (kills there if kill_at == n0+1)
        # recorded run: the same copy in two chunks, so that the listing taken before each synthetic event
        # shows what a kill at that point leaves behind
        with open(dst, "wb") as f:  # event n0+1 (kills there if kill_at == n0+1)
            tick({"ev": "write", "p": rel(dst), "md5": hashlib.md5(half).hexdigest(), "part": True})  # noqa: S324
            f.write(half)
            f.flush()
            tick({"ev": "write", "p": rel(dst), "md5": hashlib.md5(data).hexdigest(), "part": False})  # noqa: S324
            f.write(data[len(half):])
        return dst

    shutil.copyfile = copyfile
    import dvc_objects.fs.utils as fsutils  # uses `shutil.copyfile` through the module attribute

    assert fsutils.shutil is shutil

    # --- hash-state writes (SQLite raises no audit event)
    import dvc_data.hashfile.cache as cache_mod

    orig_set_many = cache_mod.HashesCache.set_many
    orig_setitem = cache_mod.HashesCache.__setitem__

    def _rows(items):
        out = []
        for k, v in items:
            if inside(k):
                try:
                    val = json.loads(v)["hash_info"]
                    val = val.get("md5") or val.get("md5-dos2unix") or next(iter(val.values()))
                except Exception:  # noqa: BLE001
                    val = "?"
                out.append([rel(k), val])
        return out

    def set_many(self, items, retry=False):
        items = list(items)
        rows = _rows(items) if st["on"] else []
        if rows:
            tick({"ev": "state", "rows": rows})
        if st.get("mid"):
            # killed inside the transaction: half of the rows written, nothing committed
            if log:
                log.flush()
            with self.transact(retry):
                orig_set_many(self, items[: max(1, len(items) // 2)], retry)
                os._exit(77)
        return orig_set_many(self, items, retry)

    def setitem(self, key, value):
        rows = _rows([(key, value)]) if st["on"] else []
        if rows:
            tick({"ev": "state", "rows": rows})
        if st.get("mid"):
            with self.transact():
                orig_setitem(self, key, value)
                os._exit(77)
        return orig_setitem(self, key, value)

    cache_mod.HashesCache.set_many = set_many
    cache_mod.HashesCache.__setitem__ = setitem

    from dvc_objects.fs.local import localfs

    from dvc_data.hashfile.build import build
    from dvc_data.hashfile.db import HashFileDB
    from dvc_data.hashfile.db.local import LocalHashFileDB

    # observed oracle arguments of the model's program generators: the order in which the existence
    # query visits the destination and the (path-ordered) oids of every add into the store
    def info(**kw):
        if log and st["on"]:
            log.write(json.dumps({"ev": "info", **kw}) + "\n")

    orig_add = HashFileDB.add
    orig_exist = LocalHashFileDB.oids_exist

    def add(self, path, fs, oid, *a, **kw):
        if getattr(self, "path", None) == store:
            v = kw.get("verify")
            info(kind="add", oids=[oid] if isinstance(oid, str) else list(oid), mem=fs.protocol == "memory",
                 check_exists=kw.get("check_exists", True), verify=bool(self.verify if v is None else v))
        return orig_add(self, path, fs, oid, *a, **kw)

    def oids_exist(self, oids, *a, **kw):
        oids = list(oids)
        if self.path == store:
            info(kind="query", oids=oids)
        return orig_exist(self, oids, *a, **kw)

    HashFileDB.add = add
    LocalHashFileDB.oids_exist = oids_exist
    from dvc_objects.db import ObjectDB

    orig_exist_base = ObjectDB.oids_exist

    def oids_exist_base(self, oids, *a, **kw):
        oids = list(oids)
        if self.path == store:
            info(kind="query", oids=oids)
        return orig_exist_base(self, oids, *a, **kw)

    ObjectDB.oids_exist = oids_exist_base
    from dvc_data.hashfile.hash_info import HashInfo
    from dvc_data.hashfile.state import State
    from dvc_data.hashfile.transfer import transfer

    state = State(root_dir=root, tmp_dir=os.path.join(root, "st"))
    if cfg.get("cls") == "base":  # the generic store class on a local file system: no trust by mode, no protection
        from dvc_objects.fs.local import LocalFileSystem

        odb = HashFileDB(LocalFileSystem(), store, state=state, verify=bool(cfg.get("store_verify", False)))
    else:
        odb = LocalHashFileDB(localfs, store, state=state, verify=bool(cfg.get("store_verify", False)))
    vkw = {"verify": True} if cfg.get("verify") else {}  # per-call verification
    if cfg.get("hardlink"):
        vkw["hardlink"] = True  # transfer(..., hardlink=True): workspace files are linked into the store
    scn = cfg["scenario"]
    ws = os.path.join(root, "ws")
    result = None
    st["on"] = True
    if scn == "stage_transfer":
        staging, _meta, obj = build(odb, ws, localfs, "md5")
        ids = {obj.hash_info}
        if cfg.get("shallow"):  # as DVC calls it: the directory AND its files are requested, directories not expanded
            ids |= {hi for _, _, hi in obj}
        transfer(staging, odb, ids, shallow=bool(cfg.get("shallow")), **vkw)
        result = obj.hash_info.value
    elif scn == "upload":
        staging, _meta, obj = build(odb, ws, localfs, "md5", upload=True)
        transfer(staging, odb, {obj.hash_info}, shallow=False, **vkw)
        result = obj.hash_info.value
    elif scn == "save":
        from dvc_data.index import ObjectStorage
        from dvc_data.index import build as ibuild
        from dvc_data.index import md5 as imd5
        from dvc_data.index import save as isave

        idx = imd5(ibuild(ws, localfs), state=state)
        idx.storage_map.add_cache(ObjectStorage((), odb))
        isave(idx, **vkw)
        result = sorted(e.hash_info.value for _, e in idx.iteritems() if e.hash_info and e.hash_info.isdir)
    elif scn == "store_transfer":
        src = LocalHashFileDB(localfs, os.path.join(root, "src"))
        ids = {HashInfo("md5", cfg["request"])}
        if cfg.get("shallow"):
            ids |= {HashInfo("md5", o) for o in cfg["request_files"]}
        transfer(src, odb, ids, shallow=bool(cfg.get("shallow")), **vkw)
        result = cfg["request"]
    elif scn == "multi_store":  # one transfer() of several directory objects (sharing files) of a source store
        src = LocalHashFileDB(localfs, os.path.join(root, "src"))
        transfer(src, odb, {HashInfo("md5", o) for o in cfg["requests"]}, shallow=False, **vkw)
        result = sorted(cfg["requests"])
    elif scn == "add":  # direct odb.add of workspace files under given oids (check_exists as given)
        items = cfg["items"]
        odb.add([os.path.join(ws, p) for p, _ in items], localfs, [o for _, o in items],
                check_exists=cfg.get("check_exists", True), **vkw)
    else:
        raise SystemExit("unknown scenario " + scn)
    st["on"] = False
    state.close()
    if log:
        log.write(json.dumps({"ev": "end", "n": st["n"], "result": result,
                              "before": _snapshot(store) if snap else None}) + "\n")
        log.close()
    print("EVENTS", st["n"])



# ======================================================================================
# parent
# ======================================================================================

PROPERTY = "C15"
GEN: list = ["dbadd"]   # Gen/DbAdd.v: HashFileDB.add / add_update_tree / migrate decisions (translator/dbaddunit.py), tied by Proofs/AddStepsTie.v
RULE = (
    "scenarios: stage+transfer of a workspace tree into a local store with state; index.save of a "
    "nested tree (two directory objects, duplicate contents, an empty file); store->store transfer of "
    "a planted directory object; upload staging (build(upload=True) + transfer); trees and "
    "pre-existing destination objects drawn from ctx.rng. For each scenario EVERY mutating event "
    "(incl. two synthetic points inside each temp copy: created-empty, half-written) is a crash point: "
    "the child is killed there, the store is audited, the operation re-run, audited again. A crash "
    "point is non-trivial when the crashed store differs from both the initial and the final store. "
    "A FIXED corpus (tools/COVERAGE_AUDIT.md) runs first in every run: hardlink x verify (per call / store default) "
    "x check_exists x shallow for add / transfer / index.save / upload; base and local store class; protected and "
    "unprotected source stores; starting stores holding the right object protected / unprotected, a corrupt "
    "unprotected one, the empty leftover, temp files of an earlier crash; unusual names, empty directories, the "
    "empty listing, zero-length and duplicate files, depth >= 3; additionally a kill INSIDE every state transaction "
    "and one double crash (crash, re-run killed again, re-run) per scenario."
)
ASSUMPTIONS = [
    "a bare odb.add(check_exists=False) asserts that none of the names exists; after a crash that cannot be asserted, so "
    "its re-run is add(check_exists=True) (transfer() re-establishes the assertion with its existence query); re-adding "
    "an existing object with check_exists=False is outside the quantifier (with hardlink=True it truncates the "
    "workspace file through the shared inode)",
    "destinations are of the LOCAL store class (the property's scenario family), plus two fixed base-class cases for "
    "save and add+verify; a TRANSFER into a base-class HashFileDB destination is outside the family: its existence query "
    "goes by name only, so the reflink probe's empty leftover counts as present and the re-run never repairs it (same "
    "root cause as the known probe-leftover finding; recorded as an observation, runnable with C15_PENDING=1)",
    "durability is not modelled: a kill (os._exit) loses no completed system call; fsync, power loss and torn "
    "renames are environment hypotheses (rename/replace is atomic, SQLite transactions are atomic)",
    "crash points are the audit events raised by CPython for file-system mutations below the store root plus the "
    "wrapped hash-state writes; a crash between two such events is equivalent to a crash at the later one",
    "a state row whose (ino, mtime, size) token differs from the file's is invisible (observed through a fresh State)",
    "contents are identified by their md5 (hashlib) - no collisions among the contents in play",
    "set iteration orders inside the implementation (order of the existence query and of the files of an add) are "
    "observed from the trace and handed to the model's program generator as oracle arguments",
]

KNOWN_SIG = "C15:blessed-mismatch:probe-leftover-then-add-check-exists"
EMPTY_MD5 = "d41d8cd98f00b204e9800998ecf8427e"
IMPORTS = "From Coq Require Import NArith List.\nFrom DvcData Require Import Model.AddSteps."


def _env():
    from lib import core

    env = dict(os.environ)
    env["PYTHONPATH"] = os.path.join(core.REPO, "src")
    env["PYTHONHASHSEED"] = "0"
    return env


_SERVERS = []
_TLS = None


def _server():
    """one pre-imported fork server per worker thread (saves the import time of every child)"""
    import threading

    from lib import core

    global _TLS
    if _TLS is None:
        _TLS = threading.local()
    srv = getattr(_TLS, "srv", None)
    if srv is None or srv.poll() is not None:
        srv = subprocess.Popen([core.PY, os.path.abspath(__file__), "server"], env=_env(), stdin=subprocess.PIPE,
                               stdout=subprocess.PIPE, stderr=subprocess.DEVNULL, text=True, bufsize=1)
        _TLS.srv = srv
        _SERVERS.append(srv)
    return srv


def stop_servers():
    for srv in _SERVERS:
        try:
            srv.stdin.close()
            srv.wait(timeout=10)
        except Exception:  # noqa: BLE001
            srv.kill()
    del _SERVERS[:]


def run_child(cfg, workdir, tag):
    """run one child (forked from this thread's server); returns (exit code, '', error text)"""
    import select

    cpath = os.path.join(workdir, f"cfg-{tag}.json")
    with open(cpath, "w") as f:
        json.dump(cfg, f)
    srv = _server()
    srv.stdin.write(cpath + "\n")
    srv.stdin.flush()
    ready, _, _ = select.select([srv.stdout], [], [], 180)
    if not ready:
        srv.kill()
        return -9, "", "child timed out"
    line = srv.stdout.readline().strip()
    rc = int(line.split()[1]) if line.startswith("RC ") else -1
    err = ""
    if os.path.exists(cpath + ".err"):
        with open(cpath + ".err") as f:
            err = f.read()
    return rc, "", err


def read_log(path):
    out = []
    if not os.path.exists(path):
        return out
    with open(path) as f:
        for ln in f:
            ln = ln.strip()
            if ln:
                try:
                    out.append(json.loads(ln))
                except ValueError:
                    break  # torn last line of a killed child
    return out


# ---- independent observation of a store ------------------------------------------------

def is_tmp(rel):
    return rel.endswith(".tmp")


def rel_oid(rel):
    parts = rel.split(os.sep)
    if len(parts) == 2 and len(parts[0]) == 2 and not is_tmp(rel):
        return parts[0] + parts[1]
    return None


def audit(root, store_name="cache"):
    """{objs: {oid: (md5, mode, bytes-if-dir)}, tmps: [md5...], rows: {oid: value}} - files by os/hashlib,
    rows through a fresh State (only rows whose token matches are visible)"""
    store = os.path.join(root, store_name)
    objs, tmps, other = {}, [], []
    for r, _ds, fs in os.walk(store):
        for n in fs:
            p = os.path.join(r, n)
            rel = os.path.relpath(p, store)
            with open(p, "rb") as f:
                b = f.read()
            m = hashlib.md5(b).hexdigest()  # noqa: S324
            o = rel_oid(rel)
            if o is not None:
                objs[o] = (m, stat.S_IMODE(os.lstat(p).st_mode), b if o.endswith(".dir") else None)
            elif is_tmp(rel):
                tmps.append(m)
            else:
                other.append(rel)
    rows = {}
    from dvc_objects.fs.local import localfs

    from dvc_data.hashfile.state import State

    st = State(root_dir=root, tmp_dir=os.path.join(root, "st"))
    try:
        for o in objs:
            _, hi = st.get(os.path.join(store, o[:2], o[2:]), localfs)
            if hi is not None and hi.value:
                rows[o] = hi.value
    finally:
        st.close()
    ws = {}
    wroot = os.path.join(root, "ws")
    for r, _ds, fs in os.walk(wroot):
        for n in fs:
            p = os.path.join(r, n)
            with open(p, "rb") as f:
                ws[os.path.relpath(p, wroot).replace(os.sep, "/")] = hashlib.md5(f.read()).hexdigest()  # noqa: S324
    return {"objs": objs, "tmps": sorted(tmps), "rows": rows, "other": other, "ws": ws}


def snap_view(snap):
    """child snapshot {rel: [md5, mode]} -> (objs {oid: (md5, prot)}, sorted temp md5s)"""
    objs, tmps = {}, []
    for rel, (m, mode) in snap.items():
        o = rel_oid(rel)
        if o is not None:
            objs[o] = (m, mode == 0o444)
        else:
            tmps.append(m)
    return objs, sorted(tmps)


def audit_view(a):
    return {o: (m, mode == 0o444) for o, (m, mode, _b) in a["objs"].items()}, list(a["tmps"])


def judge(a, when):
    """the property on one audited store: [(signature, what)]"""
    out = []
    for o, (m, mode, b) in sorted(a["objs"].items()):
        ok = m == o.split(".")[0]
        v = a["rows"].get(o)
        vouched = v is not None and v.split(".")[0] == o.split(".")[0]
        if not ok and (mode == 0o444 or vouched):
            out.append((f"C15:blessed-mismatch:{when}",
                        f"object {o} holds content {m} but is {'write-protected' if mode == 0o444 else ''}"
                        f"{' and ' if mode == 0o444 and vouched else ''}{'vouched for by a state row' if vouched else ''}"))
        if ok and o.endswith(".dir"):
            try:
                lst = json.loads(b)
            except ValueError:
                lst = []
            for e in lst:
                k = e.get("md5")
                if k not in a["objs"]:
                    out.append((f"C15:open-directory:{when}", f"directory object {o} lists {k} which is absent"))
                elif a["objs"][k][0] != k.split(".")[0]:
                    out.append((f"C15:open-directory:{when}", f"directory object {o} lists {k} which mismatches"))
    return out


# ---- abstraction of names and event streams ----------------------------------------------

class Names:
    def __init__(self):
        self.ids = {}

    def cid(self, md5):
        """content identifier (= the oid a file with this content would have)"""
        if md5 not in self.ids:
            self.ids[md5] = len(self.ids) + 1
        return [self.ids[md5]]

    def oid(self, o):
        b = o.split(".")[0]
        r = self.cid(b)
        if o != b:
            r = r + [ord(c) for c in o[len(b):]]
        return r


def c_l(ns):
    return "[" + ";".join(str(x) for x in ns) + "]"


def v_b(ns):
    return "VB " + c_l(ns)


class Unmodelled(Exception):
    pass


def abstract(names, events, n_old_tmps=0):
    """raw events (with 'before' snapshots) -> (steps [(ctor, args...)], cuts [step count before raw event i] + [total],
    temp numbering)"""
    tmpid = {}
    steps, cuts = [], []
    pending = None
    JUNK = []  # renames of a content that does not match the final name (only with a corrupt source)

    def T(rel):
        if rel not in tmpid:
            tmpid[rel] = n_old_tmps + len(tmpid)
        return tmpid[rel]

    body = [e for e in events if e["ev"] not in ("end", "info")]
    for i, e in enumerate(body):
        cuts.append(len(steps))
        ev, p = e["ev"], e.get("p")
        o = rel_oid(p) if isinstance(p, str) else None
        if ev == "mkdir" or (ev == "chmod" and o is None and not is_tmp(p)):
            steps.append(("Mkdir", "[]"))
        elif ev == "link" or (ev == "open" and o is not None and
                              (next((x for x in body[i + 1:] if x.get("p") == p), None) or {}).get("ev") != "remove"):
            # os.link(src, final) - or, for an empty source, the creation of an empty file at the final name that
            # is NOT the reflink attempt (no unlink follows): the complete content appears under the final name
            # in one system call = [CreateTmp t; WriteTmp t b; Rename t o] of a virtual temp name
            if o is None:
                raise Unmodelled(f"link to a non-object path: {e}")
            t = T("__link__%d" % i)
            m = e.get("md5", EMPTY_MD5) if ev == "link" else EMPTY_MD5
            steps += [("CreateTmp", str(t)), ("WriteTmp", str(t), c_l(names.cid(m))),
                      ("Rename", str(t), c_l(names.oid(o)))]
            if ev == "link" and e.get("mode") == 0o444:
                # the link shares the inode of a source that is already write-protected (an object of another
                # store): the new name is protected from the start = Rename + Chmod in one system call
                steps.append(("Chmod", c_l(names.oid(o))))
            if m != o.split(".")[0]:
                JUNK.append(o)
        elif ev == "open":
            if o is not None:
                steps.append(("Probe", c_l(names.oid(o))))
                pending = o
            else:
                t = T(p)
                steps.append(("CreateTmp", str(t)))
                # is the (unaudited) write reported by a synthetic event? otherwise the content is what the
                # temp file holds when it is next renamed
                nxt = next((x for x in body[i + 1:] if x.get("p") == p), None)
                if nxt is not None and nxt["ev"] == "rename":
                    m = nxt["before"][p][0]
                    steps.append(("WriteTmp", str(t), c_l(names.cid(m))))
        elif ev == "write":
            steps.append(("WriteTmp", str(T(p)), c_l(names.cid(e["md5"]))))
        elif ev == "remove":
            if o is not None:
                if pending == o:
                    steps.append(("ProbeClean", c_l(names.oid(o))))
                    pending = None
                else:
                    steps.append(("Remove", c_l(names.oid(o))))
            else:
                steps.append(("TmpClean", str(T(p))))
        elif ev == "rename":
            q = e.get("q")
            if p is None or q is None:
                raise Unmodelled(f"rename across the store boundary: {e}")
            qo = rel_oid(q)
            if rel_oid(p) is not None:
                raise Unmodelled(f"rename away from a final name: {e}")
            if qo is not None:
                steps.append(("Rename", str(T(p)), c_l(names.oid(qo))))
                if (e.get("before") or {}).get(p, [qo.split(".")[0]])[0] != qo.split(".")[0]:
                    JUNK.append(qo)
            else:
                t = T(p)
                steps.append(("MoveTmp", str(t), str(T(q))))
        elif ev == "chmod":
            if o is not None and e.get("mode") == 0o444:
                steps.append(("Chmod", c_l(names.oid(o))))
            else:
                raise Unmodelled(f"chmod not modelled: {e}")
        elif ev == "state":
            rs = []
            for rp, val in e["rows"]:
                ro = rel_oid(rp)
                if ro is None:
                    raise Unmodelled(f"state row for a non-object path: {e}")
                rs.append("(%s, %s)" % (c_l(names.oid(ro)), c_l(names.oid(val))))
            steps.append(("StateSave", "[" + "; ".join(rs) + "]"))
        else:
            raise Unmodelled(f"event not modelled: {e}")
    cuts.append(len(steps))
    tmpid["__junk__"] = JUNK
    return steps, cuts, tmpid


def steps_term(steps):
    return "[" + "; ".join("(" + " ".join(s) + ")" if len(s) > 1 else s[0] for s in steps) + "]"


def world_term(names, objs, tmps, rows):
    """objs {oid: (md5, prot)}, tmps [md5 in temp-id order], rows {oid: value}"""
    ot = "; ".join("(%s, mkF %s %s)" % (c_l(names.oid(o)), c_l(names.cid(m)), "true" if pr else "false")
                   for o, (m, pr) in sorted(objs.items()))
    tt = "; ".join("(%d, %s)" % (i, c_l(names.cid(m))) for i, m in enumerate(tmps))
    rt = "; ".join("(%s, %s)" % (c_l(names.oid(o)), c_l(names.oid(v))) for o, v in sorted(rows.items()))
    return "(mkW [%s] [%s] [%s] None)" % (ot, tt, rt)


def world_val(names, objs, tmps, rows):
    ol = sorted((names.oid(o), names.cid(m), pr) for o, (m, pr) in objs.items())
    tl = sorted(names.cid(m) for m in tmps)
    rl = sorted((names.oid(o), names.oid(v)) for o, v in rows.items() if o in objs)
    return "VL [VL [%s]; VL [%s]; VL [%s]]" % (
        "; ".join("VL [%s; %s; VN %d]" % (v_b(o), v_b(m), 1 if pr else 0) for o, m, pr in ol),
        "; ".join(v_b(t) for t in tl),
        "; ".join("VL [%s; %s]" % (v_b(o), v_b(v)) for o, v in rl))


# ---- scenarios -----------------------------------------------------------------------------

def md5(b):
    return hashlib.md5(b).hexdigest()  # noqa: S324


def listing_bytes(entries):
    lst = sorted(({"md5": h, "relpath": rp} for rp, h in entries), key=lambda d: d["relpath"])
    return json.dumps(lst, sort_keys=True).encode()


def gen_tree(rng, big):
    """{relpath: bytes}: nested, duplicate contents, an empty file"""
    pool = [b"AAA", b"BBB", b"", b"C", b"DDDD-long-content", b"EE"]
    if big:
        pool += [bytes([65 + i]) * (i + 2) for i in range(6, 14)]
    nfiles = rng.randint(6, 10) if big else rng.randint(2, 3)
    dirs = ["", "d", "d/e", "x"] if big else ["", "d"]
    tree = {}
    for i in range(nfiles):
        d = rng.choice(dirs)
        tree[(d + "/" if d else "") + "f%d" % i] = rng.choice(pool)
    # make sure of one duplicate and one file in a sub-directory
    keys = sorted(tree)
    tree["d/dup"] = tree[keys[0]]
    return tree


def root_dirs(sc):
    return sc.get("roots") or [""]


def root_entries(sc, r):
    pre = r + "/" if r else ""
    return [(rp[len(pre):], md5(b)) for rp, b in sc["tree"].items() if rp.startswith(pre)]


def gen_multi(rng, big):
    """two or three trees handed to ONE transfer(): they share files (same labels file; a directory and its
    own sub-directory); returns (workspace tree, roots)"""
    t = {"t1/labels": b"LABELS", "t1/a": rng.choice([b"AAA", b"A1"]), "t1/sub/x": rng.choice([b"XX", b"AAA"]),
         "t1/sub/labels": b"LABELS", "t2/labels": b"LABELS", "t2/b": rng.choice([b"BBB", b"XX", b""])}
    if big:
        for i in range(rng.randint(1, 4)):
            t["t%d/u%d" % (rng.randint(1, 2), i)] = bytes([70 + i]) * (i + 1)
        t["t3/labels"] = b"LABELS"
        t["t3/c"] = rng.choice([b"BBB", b"CCC"])
    roots = rng.choice([["t1", "t2"], ["t1", "t1/sub"], ["t1", "t2", "t1/sub"]] +
                       ([["t1", "t2", "t3"], ["t3", "t1/sub", "t2"]] if big else []))
    return t, roots


def setup(root, sc):
    from lib import impl

    os.makedirs(root, exist_ok=True)
    impl.mk_tree(os.path.join(root, "ws"), sc["tree"])
    for dn in sc.get("empty_dirs") or []:  # empty directories / directories holding only empty sub-directories
        os.makedirs(os.path.join(root, "ws", *dn.split("/")), exist_ok=True)
    store = os.path.join(root, "cache")
    os.makedirs(store, exist_ok=True)
    if sc["scenario"] in ("store_transfer", "multi_store"):
        src = os.path.join(root, "src")
        for rp, b in sc["tree"].items():
            # bad_src: a partial / mismatching object under its final name in the SOURCE (protected, so the
            # local source's own existence query trusts it)
            impl.plant(src, md5(b), (b[: len(b) // 2] + b"?") if rp == sc.get("bad_src") else b,
                       mode=0o444 if rp == sc.get("bad_src") else sc.get("src_mode", 0o444))
        for r in root_dirs(sc):
            lb = listing_bytes(root_entries(sc, r))
            impl.plant(src, md5(lb) + ".dir", lb, mode=sc.get("src_mode", 0o444))
    # the store the operation starts from: (content whose name is used, mode[, what the file really holds])
    for ent in sc.get("pre", []):
        b, mode = ent[0], ent[1]
        data = ent[2] if len(ent) > 2 and ent[2] is not None else b
        impl.plant(store, md5(b), data, mode=mode)
    if sc.get("tmp_left"):  # temp files left by an earlier crash: next to the objects and at the store root
        some = sorted(sc["tree"].values())[0]
        for rel in (os.path.join(md5(some)[:2], ".LEFTOVERleftoverLEFTOV.tmp"), ".ROOTleftoverROOTleft.tmp",
                    os.path.join(md5(some)[:2], md5(some)[2:] + ".dir.PARTIALpartialPARTIAL.tmp")):
            fp = os.path.join(store, rel)
            os.makedirs(os.path.dirname(fp), exist_ok=True)
            with open(fp, "wb") as f:
                f.write(some[: max(1, len(some) // 2)])


def child_cfg(root, sc, **kw):
    cfg = {"root": root, "scenario": sc["scenario"], "store": "cache", "verify": bool(sc.get("verify")),
           "store_verify": bool(sc.get("store_verify")), "hardlink": bool(sc.get("hardlink")),
           "shallow": bool(sc.get("shallow")), "cls": sc.get("cls", "local"),
           "check_exists": bool(sc.get("check_exists", True))}
    if sc["scenario"] == "add":
        cfg["items"] = [[rp, md5(b)] for rp, b in sc["tree"].items()]
    if sc["scenario"] == "store_transfer":
        ents = [(rp, md5(b)) for rp, b in sc["tree"].items()]
        cfg["request"] = md5(listing_bytes(ents)) + ".dir"
        cfg["request_files"] = sorted({m for _rp, m in ents})
    if sc["scenario"] == "multi_store":
        cfg["requests"] = [md5(listing_bytes(root_entries(sc, r))) + ".dir" for r in root_dirs(sc)]
    if sc["scenario"] == "multi_stage":
        cfg["roots"] = root_dirs(sc)
    if kw.pop("rerun", False):
        # a bare add(check_exists=False) asserts that nothing is there: after a crash the caller cannot assert that
        # any more (transfer() re-establishes it with its existence query), so the re-run is add(check_exists=True)
        cfg["check_exists"] = True
    cfg.update(kw)
    return cfg


def scen_term(names, sc, events, steps, cuts, t0):
    """the model's program generator for this run; the orders the implementation chose internally
    (set iteration) are read off the child's info lines and passed as oracle arguments"""
    kind = sc["scenario"]
    vcall, vstore = bool(sc.get("verify")), bool(sc.get("store_verify"))
    if sc.get("bad_src"):
        return "ScNone"  # a failing upload withholds the directory object: outside the generators
    if sc.get("cls") == "base":
        return "ScNone"  # the generators describe the local store class (protection, trust by mode)
    if sc.get("hardlink") and not (kind == "stage_transfer" and not vcall):
        return "ScNone"  # linked adds other than the plain hardlink transfer have no generator
    cb = lambda b: "true" if b else "false"  # noqa: E731
    infos = [e for e in events if e["ev"] == "info"]
    adds = [e for e in infos if e["kind"] == "add"]
    queries = [e for e in infos if e["kind"] == "query"]

    def it(o):
        return "(%s, %s)" % (c_l(names.oid(o)), c_l(names.cid(o.split(".")[0])))

    def lst(xs):
        return "[" + "; ".join(xs) + "]"

    if kind == "save":
        files = next((e["oids"] for e in adds if not e["mem"]), [])
        dirs = [e["oids"][0] for e in adds if e["mem"]]
        return "(ScSave %s %s %d %s %s)" % (cb(vcall), cb(vstore), t0, lst(it(o) for o in files),
                                            lst(it(o) for o in dirs))
    if kind == "add":
        its = adds[0]["oids"] if adds else []
        return "(ScAdd %s %s %d %s)" % (cb(vcall or vstore), cb(adds[0]["check_exists"] if adds else True), t0,
                                        lst(it(o) for o in its))
    if kind in ("multi_stage", "multi_store"):
        if not queries:
            return "ScNone"
        q = queries[0]["oids"]
        dadds = [e["oids"][0] for e in adds if len(e["oids"]) == 1 and e["oids"][0].endswith(".dir")]
        ds = dadds + [o for o in q if o.endswith(".dir") and o not in dadds]
        fo = []
        for e in adds:
            for o in e["oids"]:
                if not o.endswith(".dir") and o not in fo:
                    fo.append(o)
        fo += [o for o in q if not o.endswith(".dir") and o not in fo]
        return "(ScMTransfer %s %s %d %s %s %s)" % (cb(vcall), cb(kind == "multi_stage"), t0,
                                                    lst(c_l(names.oid(o)) for o in q), lst(it(o) for o in ds),
                                                    lst(it(o) for o in fo))
    if kind in ("stage_transfer", "store_transfer", "upload"):
        if not queries:
            return "ScNone"
        q = queries[0]["oids"]
        d = next(o for o in q if o.endswith(".dir"))
        fadd = next((e["oids"] for e in adds if not e["mem"] and not any(o.endswith(".dir") for o in e["oids"])), [])
        files = fadd + [o for o in q if o != d and o not in fadd]
        qs = lst(c_l(names.oid(o)) for o in q)
        if kind == "upload":
            # the upload phase = everything before the existence query
            n_pre = 0
            for e in events:
                if e["ev"] == "info" and e["kind"] == "query":
                    break
                if e["ev"] not in ("info", "end"):
                    n_pre += 1
            ups = [s_[2] for s_ in steps[:cuts[n_pre]] if s_[0] == "WriteTmp"]
            return "(ScUpload %s %d %s %s %s %s)" % (cb(vcall), t0, qs,
                                                     lst("(%s, %s)" % (u, u) for u in ups),
                                                     lst(it(o) for o in files), it(d))
        # transfer() always passes its own verify argument (default False) down to add: the store's
        # default never applies on this path
        if sc.get("hardlink") and kind == "stage_transfer" and not vcall:
            return "(ScLTransfer %d %s %s %s)" % (t0, qs, lst(it(o) for o in files), it(d))
        return "(ScTransfer %s %s %d %s %s %s)" % (cb(vcall), cb(kind == "stage_transfer"), t0, qs,
                                                   lst(it(o) for o in files), it(d))
    return "ScNone"


# ---- one scenario: uninterrupted run, crash sweep, re-runs ---------------------------------

_FLAGS = ("verify", "store_verify", "hardlink", "shallow", "tmp_left")
_OPT = ("roots", "bad_src", "cls", "src_mode", "empty_dirs", "label")


def jsonable(sc):
    out = {"scenario": sc["scenario"], "tree": {k: v.decode("latin1") for k, v in sc["tree"].items()},
           "pre": [[e[0].decode("latin1"), e[1], (e[2].decode("latin1") if len(e) > 2 and e[2] is not None else None)]
                   for e in sc.get("pre", [])],
           "check_exists": bool(sc.get("check_exists", True))}
    for k in _FLAGS:
        out[k] = bool(sc.get(k))
    for k in _OPT:
        out[k] = sc.get(k)
    return out


def unjson(case):
    out = {"scenario": case["scenario"], "tree": {k: v.encode("latin1") for k, v in case["tree"].items()},
           "pre": [(e[0].encode("latin1"), e[1], (e[2].encode("latin1") if len(e) > 2 and e[2] is not None else None))
                   for e in case.get("pre", [])],
           "check_exists": bool(case.get("check_exists", True))}
    for k in _FLAGS:
        out[k] = bool(case.get(k))
    for k in _OPT:
        if case.get(k) is not None:
            out[k] = case[k]
    return out


def crash_and_rerun(wd, sc, n, tag, mode=None, m=0):
    """kill the child at event n (mode 'mid_state': inside the state transaction that event n starts), audit,
    [re-run killed again at its event m, audit,] re-run, audit"""
    from lib import impl

    root = os.path.join(wd, f"k{tag}")
    setup(root, sc)
    kw = {"kill_mode": mode} if mode else {}
    rc, _out, err = run_child(child_cfg(root, sc, kill_at=n, log=os.path.join(wd, f"k{tag}.log"), **kw), wd, f"k{tag}")
    a1 = audit(root)
    a1b, evb, rcb = None, [], None
    if m:
        blog = os.path.join(wd, f"b{tag}.log")
        rcb, _o, _e = run_child(child_cfg(root, sc, kill_at=m, log=blog, rerun=True), wd, f"b{tag}")
        a1b = audit(root)
        evb = read_log(blog)
    rlog = os.path.join(wd, f"r{tag}.log")
    rc2, _out2, err2 = run_child(child_cfg(root, sc, log=rlog, snapshots=True, rerun=True), wd, f"r{tag}")
    a2 = audit(root)
    ev2 = read_log(rlog)
    res = {"n": n, "mode": mode, "m": m, "rc": rc, "err": err[-400:] if rc not in (0, 77) else "", "a1": a1,
           "a1b": a1b, "evb": evb, "rcb": rcb, "rc2": rc2,
           "err2": err2[-600:] if rc2 else "", "a2": a2, "ev2": ev2,
           "klog": read_log(os.path.join(wd, f"k{tag}.log"))}
    impl.rm_rf(root)
    return res


def ws_verdicts(sc, a, when):
    """no operation on the store may change a workspace file's content (with hardlink=True the store object and
    the workspace file are one inode: whatever truncates the object destroys the user's file)"""
    out = []
    for rp, b in sorted(sc["tree"].items()):
        got = a.get("ws", {}).get(rp)
        if got != md5(b):
            out.append((f"C15:workspace-file-changed:{when}",
                        f"workspace file {rp} held {md5(b)} before the operation and holds {got} now"))
    return out


def leftover_shape(a, o):
    c = a["objs"].get(o)
    return (c is not None and c[0] == EMPTY_MD5 and c[1] != 0o444 and o not in a["rows"]
            and o.split(".")[0] != EMPTY_MD5)


def judge_step(befores, after, events, when):
    """verdicts on [after], a store reached from the earlier audits [befores] by the runs whose info lines are
    in [events]: a blessed mismatch is the KNOWN class when an earlier audit shows an empty, unprotected,
    unvouched file under that name (the reflink probe's leftover shape) and no run put that name to the
    existence query"""
    out = []
    for sig, what in judge(after, when):
        if sig.startswith("C15:blessed-mismatch"):
            o = what.split()[1]
            queried = any(e["ev"] == "info" and e["kind"] == "query" and o in e["oids"] for e in events)
            if any(leftover_shape(b, o) for b in befores) and not queried:
                out.append((KNOWN_SIG, what + " (the store held an empty unprotected file under that name: the "
                                              "reflink probe's leftover; add(check_exists=True) skipped the copy, "
                                              "protected it and recorded a state row)"))
                continue
        out.append((sig, what))
    # a directory listing the blessed leftover is the same defect seen from the closure side
    blessed = [w.split()[1] for s_, w in out if s_ == KNOWN_SIG]
    return [(s_, w) for s_, w in out
            if not (s_.startswith("C15:open-directory") and any(f"lists {o} which mismatches" in w for o in blessed))]


def classify(sc, r, a0=None):
    """oracle verdicts for one crash point: [(signature, what)]"""
    befores = [a for a in (a0,) if a is not None]
    evs = list(r["klog"])
    out = judge_step(befores, r["a1"], evs, "after-crash")
    out += ws_verdicts(sc, r["a1"], "after-crash")
    befores.append(r["a1"])
    if r.get("a1b") is not None:
        evs += r["evb"]
        out += judge_step(befores, r["a1b"], evs, "after-second-crash")
        out += ws_verdicts(sc, r["a1b"], "after-second-crash")
        befores.append(r["a1b"])
    if r["rc2"] != 0:
        out.append(("C15:rerun-failed", f"re-running after the crash failed: {r['err2'][-300:]}"))
        return out
    out += ws_verdicts(sc, r["a2"], "after-rerun")
    out += judge_step(befores, r["a2"], evs + r["ev2"], "after-rerun")
    # one defect, one report: the same object blessed at several audits of one crash point
    seen, uniq = set(), []
    for s_, w in out:
        key = (s_, w.split()[1] if s_ == KNOWN_SIG else w)
        if key not in seen:
            seen.add(key)
            uniq.append((s_, w))
    return uniq


def execute_full(args):
    """the uninterrupted run of one scenario (in a worker process)"""
    wd, sc, label = args
    from lib import impl

    kind = sc["scenario"]
    root = os.path.join(wd, "full")
    setup(root, sc)
    a0 = audit(root)
    flog = os.path.join(wd, "full.log")
    rc, _out, err = run_child(child_cfg(root, sc, log=flog, snapshots=True), wd, "full")
    if rc != 0:
        raise RuntimeError(f"uninterrupted run of scenario {label} failed: {err[-1500:]}")
    events = read_log(flog)
    afin = audit(root)
    src_dirs = {}
    if kind in ("store_transfer", "multi_store"):
        for o, (m, _mode, b) in audit(root, "src")["objs"].items():
            if o.endswith(".dir"):
                src_dirs[m] = b
    impl.rm_rf(root)
    return {"a0": a0, "events": events, "afin": afin, "src_dirs": src_dirs}


def _crash_job(args):
    wd, sc, n, mode, m = args
    tag = str(n) + ("s" if mode else "") + (f"x{m}" if m else "")
    return crash_and_rerun(wd, sc, n, tag, mode=mode, m=m)


def _worker_init(paths):
    for p in paths:
        if p not in sys.path:
            sys.path.insert(0, p)


def execute_all(ctx, scs, labels):
    """every real execution, in worker processes (each with its own fork server): the uninterrupted runs,
    then every (scenario, kill point) of the sweep"""
    import multiprocessing
    from concurrent.futures import ProcessPoolExecutor

    wds = [ctx.fresh("c15-" + lb) for lb in labels]
    nw = min(14, max(4, (os.cpu_count() or 8) - 2))
    with ProcessPoolExecutor(max_workers=nw, mp_context=multiprocessing.get_context("spawn"),
                             initializer=_worker_init, initargs=(list(sys.path),)) as ex:
        datas = list(ex.map(execute_full, list(zip(wds, scs, labels))))
        jobs, extra = [], []
        for wd, sc, d in zip(wds, scs, datas):
            body = [e for e in d["events"] if e["ev"] not in ("end", "info")]
            jobs += [(wd, sc, n, None, 0) for n in range(1, len(body) + 1)]
            # kills INSIDE each state transaction; one double crash (crash -> re-run killed again -> re-run)
            mids = [i + 1 for i, e in enumerate(body) if e["ev"] == "state"]
            ex_jobs = [(wd, sc, n, "mid_state", 0) for n in mids]
            if body:
                n1 = ctx.rng.randint(2, len(body))
                ex_jobs.append((wd, sc, n1, None, ctx.rng.randint(1, 9)))
                if ctx.tier != "quick":
                    ex_jobs.append((wd, sc, ctx.rng.randint(2, len(body)), None, ctx.rng.randint(1, 25)))
            extra.append(len(ex_jobs))
            jobs += ex_jobs
        res = list(ex.map(_crash_job, jobs, chunksize=4))
    k = 0
    for d, nx in zip(datas, extra):
        n_ev = len([e for e in d["events"] if e["ev"] not in ("end", "info")])
        d["results"] = res[k:k + n_ev]
        d["extra_results"] = res[k + n_ev:k + n_ev + nx]
        k += n_ev + nx
    return datas


def run_scenario(ctx, sc, label, data, full_items, rr_items):
    kind = sc["scenario"]
    a0, events, afin, src_dirs, results = (data[k] for k in ("a0", "events", "afin", "src_dirs", "results"))
    v0 = judge_step([a0], afin, events, "uninterrupted") + ws_verdicts(sc, afin, "uninterrupted")
    for sig, what in v0:
        ctx.oracle_fail(sig, what, {"scenario": jsonable(sc), "kill_at": 0})
    bad0 = any(s_.startswith("C15:blessed-mismatch") for s_, _ in v0)
    body = [e for e in events if e["ev"] not in ("end", "info")]
    N = len(body)
    ctx.count(f"events:{kind}", N)
    names = Names()
    names.cid(EMPTY_MD5)
    # the directory listings in play (read from the objects themselves)
    kids = {}
    for o, (m, _mode, b) in afin["objs"].items():
        if o.endswith(".dir") and b is not None:
            try:
                kids[m] = [e["md5"] for e in json.loads(b)]
            except ValueError:
                pass
    for m, b in src_dirs.items():
        kids.setdefault(m, [e["md5"] for e in json.loads(b)])
    parts = {}
    for i, e in enumerate(body):
        if e["ev"] == "write" and e.get("part"):
            parts[body[i + 1]["md5"]] = e["md5"]
    try:
        steps, cuts, _tm = abstract(names, events, n_old_tmps=len(a0["tmps"]))
        junk0 = bool(_tm["__junk__"]) and bool(sc.get("bad_src"))
    except Unmodelled as exc:
        ctx.broken("correspondence", "correspondence:trace-abstraction",
                   f"the recorded event stream of scenario {label} contains an event the step machine does not have",
                   detail=str(exc), case={"scenario": jsonable(sc), "kill_at": 0})
        return
    init_view, fin_view = audit_view(a0), audit_view(afin)
    cut_worlds = []
    kids_t = "[" + "; ".join("(%s, [%s])" % (c_l(names.cid(m)), "; ".join(c_l(names.oid(k)) for k in ks))
                             for m, ks in sorted(kids.items())) + "]"
    parts_t = "[" + "; ".join("(%s, %s)" % (c_l(names.cid(f)), c_l(names.cid(h))) for f, h in sorted(parts.items())) + "]"
    empty_t = c_l(names.cid(EMPTY_MD5))
    for r in results:
        n = r["n"]
        case = {"scenario": jsonable(sc), "kill_at": n, "event": {k: v for k, v in body[n - 1].items() if k != "before"}}
        view = audit_view(r["a1"])
        ctx.case(case, nontrivial=(view != init_view and view != fin_view))
        ctx.count("crash-at:" + body[n - 1]["ev"])
        if r["rc"] != 77:
            ctx.broken("correspondence", "correspondence:crash-injection",
                       f"the child was not killed at event {n} of scenario {label} (exit {r['rc']}): the event stream "
                       "is not deterministic", detail=r["err"], case=case)
            continue
        # the crashed store must be the store the uninterrupted run had before the same event
        if view != snap_view(body[n - 1]["before"]):
            ctx.broken("correspondence", "correspondence:crash-state",
                       f"the store after a kill at event {n} of scenario {label} differs from the store the "
                       "uninterrupted run had before that event", case=case,
                       detail={"crashed": str(view), "recorded": str(snap_view(body[n - 1]["before"]))})
        verdicts = classify(sc, r, a0)
        for sig, what in verdicts:
            ctx.oracle_fail(sig, what, case)
        known_hit = any(sig == KNOWN_SIG for sig, _ in verdicts)
        if r["rc2"] == 0:
            o2 = {o: (m, mode) for o, (m, mode, _b) in r["a2"]["objs"].items()}
            of = {o: (m, mode) for o, (m, mode, _b) in afin["objs"].items()}
            if o2 != of and not known_hit and not any(s_.startswith("C15:blessed") for s_, _ in verdicts):
                ctx.oracle_fail("C15:not-converged",
                                f"after the re-run the store differs from the uninterrupted run's: "
                                f"{sorted(set(o2.items()) ^ set(of.items()))[:4]}", case)
        cut_worlds.append(world_val(names, view[0], view[1], r["a1"]["rows"]))
        # ---- the re-run as a trace of the machine, from the crashed world
        if r["rc2"] == 0:
            try:
                rsteps, rcuts, _tm2 = abstract(names, r["ev2"], n_old_tmps=len(view[1]))
                junk2 = bool(_tm2["__junk__"]) and bool(sc.get("bad_src"))
            except Unmodelled as exc:
                ctx.broken("correspondence", "correspondence:trace-abstraction",
                           f"the re-run after a kill at event {n} of scenario {label} contains an event the step "
                           "machine does not have", detail=str(exc), case=case)
                continue
            bad = any(s_.startswith("C15:blessed-mismatch") for s_, _ in verdicts if "after-crash" not in s_)
            bad = bad or any(x[0].startswith("C15:blessed") for x in judge(r["a1"], "x"))
            v2 = audit_view(r["a2"])
            term = ("(mkT %s %s [%d] %s %s %s %s)" % (
                kids_t, parts_t, rcuts[-1], empty_t, world_term(names, view[0], view[1], r["a1"]["rows"]),
                steps_term(rsteps), scen_term(names, sc, r["ev2"], rsteps, rcuts, len(view[1]))))
            # with a corrupt SOURCE object the copy renames a mismatching content into place (unprotected, dropped
            # by the verification): such a trace is outside the machine's discipline (valid_trace = false) while
            # crash_inv_b must still hold at every prefix
            exp = "VL [VN %d; VN %d; VL [%s]; VN 1]" % (0 if (bad or junk2) else 1, 0 if bad else 1,
                                                       world_val(names, v2[0], v2[1], r["a2"]["rows"]))
            rr_items.append((case, term, exp))
    fv = audit_view(afin)
    cut_worlds.append(world_val(names, fv[0], fv[1], afin["rows"]))
    term = "(mkT %s %s %s %s %s %s %s)" % (
        kids_t, parts_t, "[" + "; ".join(str(c) for c in cuts) + "]", empty_t,
        world_term(names, init_view[0], init_view[1], a0["rows"]), steps_term(steps),
        scen_term(names, sc, events, steps, cuts, len(a0["tmps"])))
    exp = "VL [VN %d; VN %d; VL [%s]; VN 1]" % (0 if (junk0 or bad0) else 1, 0 if bad0 else 1, "; ".join(cut_worlds))
    if len(cut_worlds) == len(cuts):
        full_items.append(({"scenario": jsonable(sc), "kill_at": 0}, term, exp))
    # ---- kills inside a state transaction, double crashes: judged by the oracle
    plain = {r["n"]: r for r in results}
    for r in data.get("extra_results", []):
        n = r["n"]
        case = {"scenario": jsonable(sc), "kill_at": n, "kill_mode": r["mode"], "second_kill_at": r["m"],
                "event": {k: v for k, v in body[n - 1].items() if k != "before"}}
        ctx.case(case, nontrivial=True)
        ctx.count("crash-kind:" + (r["mode"] or "double"))
        if r["rc"] != 77:
            ctx.broken("correspondence", "correspondence:crash-injection",
                       f"the child was not killed at event {n} ({r['mode']}) of scenario {label} (exit {r['rc']})",
                       detail=r["err"], case=case)
            continue
        if r["mode"] == "mid_state" and n in plain:
            # a transaction killed half-way leaves exactly what a kill before it leaves (SQLite atomicity)
            pa = plain[n]["a1"]
            if audit_view(r["a1"]) != audit_view(pa) or r["a1"]["rows"] != pa["rows"]:
                ctx.broken("correspondence", "correspondence:state-transaction-atomic",
                           f"a kill inside the state transaction at event {n} of scenario {label} left another store "
                           "/ other visible state rows than a kill before it", case=case,
                           detail={"mid": str(r["a1"]["rows"]), "before": str(pa["rows"])})
        verdicts = classify(sc, r, a0)
        for sig, what in verdicts:
            ctx.oracle_fail(sig, what, case)
        if r["rc2"] == 0 and not any(s_.startswith("C15:blessed") for s_, _ in verdicts):
            o2 = {o: (m, mode) for o, (m, mode, _b) in r["a2"]["objs"].items()}
            of = {o: (m, mode) for o, (m, mode, _b) in afin["objs"].items()}
            if o2 != of:
                ctx.oracle_fail("C15:not-converged",
                                f"after the re-run the store differs from the uninterrupted run's: "
                                f"{sorted(set(o2.items()) ^ set(of.items()))[:4]}", case)


NAMES_TREE = {  # section 1 of the audit: names (they reach the store only through the directory listings)
    "we\\ird.txt": b"W1", "sp ace": b"S1", ".hidden": b"H1", "\u043a\u0438\u0440": b"K1", "\u65e5\u672c/\U0001f600": b"E1",
    "cafe\u0301.txt": b"N1", "caf\u00e9.txt": b"N2", "x.dir": b"XD", "imgs/a": b"I1", "imgs_raw/a": b"I2",
    "imgs.bak": b"I3", "q": b"Q", "L" * 200: b"LONG", "Case": b"c1", "case/inner": b"c2"}


def corpus(ctx):
    """fixed cases reaching, in EVERY run, the dimensions of tools/COVERAGE_AUDIT.md that are meaningful here"""
    big = ctx.tier != "quick"
    T = {"a": b"AAA", "d/b": b"BB"}
    T3 = {"a": b"AAA", "d/b": b"BB", "d/z": b""}
    names_small = {k: NAMES_TREE[k] for k in ("we\\ird.txt", "sp ace", ".hidden", "\u65e5\u672c/\U0001f600",
                                              "cafe\u0301.txt", "caf\u00e9.txt", "x.dir")}
    shapes = {"one/two/three/f": b"DEEP", "one/two/three/g": b"DEEP", "one/dup": b"DEEP", "zero": b"", "solo/only": b"ONE"}
    names_save = {"d/" + k: v for k, v in list(names_small.items())[:3]}
    names_save["d/zero"] = b""
    out = [
        # flags: hardlink x verify (per call / store default) x check_exists x shallow - combined with names / shapes
        dict(scenario="stage_transfer", tree=T, hardlink=True, verify=True, label="hardlink+verify"),
        dict(scenario="stage_transfer", tree=shapes, hardlink=True, store_verify=True,
             empty_dirs=["hollow/inner", "one/two/void"],
             label="hardlink+store-verify; shapes: depth>=3, duplicates, zero-length, one-file dir, empty dirs"),
        dict(scenario="stage_transfer", tree=names_small, shallow=True, label="shallow; names"),
        dict(scenario="store_transfer", tree=T, shallow=True, verify=True, src_mode=0o644, pre=[(b"AAA", 0o644)],
             label="store->store: shallow+verify, unprotected source, right object unprotected"),
        dict(scenario="add", tree=T, check_exists=False, label="add-no-check-exists"),
        # (add(hardlink=True, check_exists=False) is not re-runnable by contract: see ASSUMPTIONS)
        dict(scenario="add", tree=T3, hardlink=True, verify=True, label="add-hardlink+verify, zero-length"),
        dict(scenario="save", tree=names_save, hardlink=True, label="save-hardlink; names"),
        dict(scenario="upload", tree=T, verify=True, label="upload+verify"),
        # the store the operation starts from (section 5): the inv stores of the theorems
        dict(scenario="stage_transfer", tree=T3, pre=[(b"AAA", 0o644, b"corrupt!"), (b"BB", 0o444)], tmp_left=True,
             label="pre:corrupt-unprotected+right-protected+temps"),
        dict(scenario="stage_transfer", tree=T, pre=[(b"AAA", 0o644, b""), (b"BB", 0o644)],
             label="pre:empty-leftover+right-unprotected"),
        dict(scenario="save", tree=T, pre=[(b"BB", 0o644)], tmp_left=True, label="pre:right-unprotected+temps (check_exists)"),
        dict(scenario="save", tree=T, pre=[(b"AAA", 0o644, b"")], label="pre:empty-leftover (check_exists: known class)"),
        dict(scenario="save", tree=T, verify=True, pre=[(b"AAA", 0o644, b"")], label="pre:empty-leftover, verify"),
        # store class
        dict(scenario="save", tree=T, cls="base", label="base-store save"),
        dict(scenario="add", tree=T, cls="base", verify=True, label="base-store add+verify"),
    ]
    out += [dict(scenario="stage_transfer", tree={}, empty_dirs=["only/empty"], label="empty listing (stage+transfer)"),
            dict(scenario="save", tree={}, empty_dirs=["only/empty", "void"], label="empty listing (index.save)")]
    if os.environ.get("C15_PENDING"):
        # OBSERVATION (lead's ruling: outside the property's scenario family - local destination - and the same root
        # cause as the known finding; recorded in ctx.extra["observations"], never a known_findings entry): a
        # destination of the GENERIC store class on a local file system
        # answers the existence query by listing, so the reflink probe's empty leftover counts as present, is
        # never re-copied, and the directory object listing it is uploaded (C15:open-directory:after-rerun,
        # C15:not-converged at the kill between the probe's create and its unlink)
        out += [dict(scenario="stage_transfer", tree=T, cls="base", label="PENDING base-store transfer"),
                dict(scenario="stage_transfer", tree=T, cls="base", verify=True, label="PENDING base-store transfer+verify")]
    if big:
        out += [
            dict(scenario="stage_transfer", tree=NAMES_TREE, label="names (all)"),
            dict(scenario="save", tree=NAMES_TREE, verify=True, label="names (all, index.save, verify)"),
            dict(scenario="multi_store", tree=None, shallow=False, src_mode=0o644, label="multi+unprotected-source"),
            dict(scenario="upload", tree=shapes, hardlink=True, label="upload+hardlink"),
            dict(scenario="save", tree=shapes, store_verify=True, hardlink=True, empty_dirs=["hollow/inner"],
                 label="save: store-verify+hardlink, shapes"),
            dict(scenario="store_transfer", tree=T3, pre=[(b"AAA", 0o644, b"junk"), (b"", 0o644)], tmp_left=True,
                 hardlink=True, label="store->store hardlink, pre corrupt"),
        ]
    for sc in out:
        sc.setdefault("pre", [])
        if sc["tree"] is None:
            sc["tree"], sc["roots"] = gen_multi(ctx.rng, False)
    return out


def scenarios(ctx):
    rng = ctx.rng
    big = ctx.tier != "quick"
    out = []
    # (kind, per-call verify, store default verify)
    kinds = [("stage_transfer", False, False), ("save", False, False), ("store_transfer", False, False),
             ("upload", False, False), ("save", False, True)]
    if big:
        kinds += [("add", True, False), ("save", True, False)]
    # (several STAGED trees cannot go through one transfer(): every build() returns its own in-memory
    # reference store, so the multi-directory transfer is exercised store -> store)
    kinds += [("multi_store", False, False), ("bad_src", True, False), ("hardlink", False, False)]
    if big:
        kinds += [("multi_store", False, False), ("multi_store", True, False), ("hardlink", False, False),
                  ("stage_transfer", False, True), ("stage_transfer", True, False), ("store_transfer", True, False), ("upload", True, False),
                  ("add", False, True), ("add", False, False)]
    reps = ctx.n(1, 3)
    for rep in range(reps):
        for k, vc, vs in kinds:
            tree = gen_tree(rng, big and rep > 0)
            extra = {}
            if k in ("multi_stage", "multi_store"):
                tree, extra["roots"] = gen_multi(rng, big and rep > 0)
            if k == "hardlink":
                # transfer(..., hardlink=True): workspace -> staging -> store, objects share inodes with the workspace
                k = "stage_transfer"
                extra["hardlink"] = True
            if k == "bad_src":
                # verify=True transfer from a source holding a partial object under a final name
                k = "store_transfer"
                cands = sorted(rp for rp, b in tree.items() if len(b) >= 2)
                extra["bad_src"] = cands[rng.randrange(len(cands))] if cands else None
                tree = {rp: b for rp, b in tree.items()
                        if rp == extra["bad_src"] or b != tree.get(extra["bad_src"])}
            if k == "save":
                tree.setdefault("d/e/deep", rng.choice([b"AAA", b"ZZ"]))
            if k == "add":
                tree = dict(sorted(tree.items())[:4])
            sc = {"scenario": k, "tree": tree, "pre": [], "verify": vc, "store_verify": vs, **extra}
            # some runs start from a store that already holds one of the objects (protected, or left unprotected)
            if rep > 0 or k == "stage_transfer" or (big and rng.random() < 0.4):
                b = tree[sorted(tree)[rng.randrange(len(tree))]]
                sc["pre"] = [(b, rng.choice([0o444, 0o644]))]
            out.append(sc)
    return corpus(ctx) + out


def run(ctx):
    import time

    full_items, rr_items = [], []
    scs = scenarios(ctx)
    t0 = time.time()
    labels = [f"{sc['scenario']}-{i}" for i, sc in enumerate(scs)]
    datas = execute_all(ctx, scs, labels)
    for sc, label, data in zip(scs, labels, datas):
        run_scenario(ctx, sc, label, data, full_items, rr_items)
    ctx.extra["sweep_wall_s"] = round(time.time() - t0, 1)
    ctx.obligation("oracle:crash-sweep", not any(v.kind == "oracle" for v in ctx.violations),
                   f"{ctx.evaluations} real crash points (child killed, store + state audited, operation re-run, "
                   f"audited, compared with the uninterrupted run) over {len(scs)} scenarios")
    model = "check_trace"
    if os.environ.get("C15_DUMP"):
        with open(os.environ["C15_DUMP"], "w") as f:
            json.dump({"full": full_items, "rr": rr_items}, f)
    ctx.correspond("trace", IMPORTS, "tcase", model, full_items, shard=1)
    ctx.correspond("rerun", IMPORTS, "tcase", model, rr_items, shard=50)
    ctx.extra["crash_points"] = ctx.evaluations
    ctx.extra["scenarios"] = [sc.get("label") or sc["scenario"] for sc in scs]
    dims = {}

    def dim(name, k=1):
        dims[name] = dims.get(name, 0) + k

    for sc, data in zip(scs, datas):
        npts = len(data["results"])
        dim("op:" + sc["scenario"], npts)
        for fl in ("hardlink", "verify", "store_verify", "shallow", "tmp_left"):
            if sc.get(fl):
                dim("flag:" + fl, npts)
        if sc.get("hardlink") and (sc.get("verify") or sc.get("store_verify")):
            dim("flag:hardlink+verify", npts)
        if sc["scenario"] == "add":
            dim("flag:check_exists=" + str(bool(sc.get("check_exists", True))), npts)
        dim("store-class:" + sc.get("cls", "local"), npts)
        if sc["scenario"] in ("store_transfer", "multi_store"):
            dim("source:store-" + ("protected" if sc.get("src_mode", 0o444) == 0o444 else "unprotected"), npts)
        elif sc["scenario"] == "upload":
            dim("source:upload-temp", npts)
        else:
            dim("source:workspace(+memfs staging for directory objects)", npts)
        for e in sc.get("pre", []):
            data_ = e[2] if len(e) > 2 and e[2] is not None else e[0]
            kind_ = ("right" if data_ == e[0] else "empty-leftover" if data_ == b"" else "corrupt")
            dim("pre:%s-%s" % (kind_, "protected" if e[1] == 0o444 else "unprotected"), npts)
        if not sc.get("pre") and not sc.get("tmp_left"):
            dim("pre:empty-store", npts)
        vals = list(sc["tree"].values())
        if b"" in vals:
            dim("shape:zero-length-file", npts)
        if len(set(vals)) < len(vals):
            dim("shape:duplicate-contents", npts)
        if sc.get("empty_dirs"):
            dim("shape:empty-directories", npts)
        if any(k.count("/") >= 3 for k in sc["tree"]):
            dim("shape:depth>=3", npts)
        if any(ord(c) > 127 or c in "\\ " or k.startswith(".") or k.endswith(".dir") or len(k) > 150
               for k in sc["tree"] for c in k):
            dim("names:unusual", npts)
        if sc.get("roots"):
            dim("shape:several-directories-sharing-files", npts)
        if sc.get("bad_src"):
            dim("source:corrupt-object", npts)
        for r in data.get("extra_results", []):
            dim("crash:" + ("inside-state-transaction" if r["mode"] else "second-crash-during-rerun"))
        dim("crash:between-protect-and-state-save",
            sum(1 for e in data["events"] if e["ev"] == "state"))
    ctx.extra["input_dimensions"] = dict(sorted(dims.items()))
    ctx.extra["observations"] = [{
        "what": "transfer into a destination of the GENERIC store class (HashFileDB on a local file system, real State): "
                "killed between the reflink probe's create and its unlink, the re-run's existence query (by name, no "
                "hashing) reports the empty leftover as present, it is never copied again and the directory object "
                "listing it is uploaded; also with verify=True",
        "input": {"scenario": "stage_transfer", "cls": "base", "tree": {"a": "AAA", "d/b": "BB"}, "kill_at": 4,
                  "event": {"ev": "remove", "p": "e1/faffb3e614e6c2fba74296962386b7"}},
        "signatures": ["C15:open-directory:after-rerun", "C15:not-converged"],
        "ruling": "outside the property's scenario family (local destination store); same root cause as the known "
                  "finding " + KNOWN_SIG + "; not a known_findings entry",
        "how_to_run": "C15_PENDING=1 harness/check.py C15 --tier quick",
    }, {
        "what": "re-running a bare odb.add(hardlink=True, check_exists=False) over an object an earlier attempt already "
                "linked: the reflink probe truncates the object and, through the shared inode, the workspace file",
        "input": {"scenario": "add", "hardlink": True, "verify": True, "check_exists": False,
                  "tree": {"a": "AAA", "d/b": "BB"}, "kill_at": 8, "event": {"ev": "link"}},
        "signatures": ["C15:workspace-file-changed:after-rerun"],
        "ruling": "outside the quantifier: check_exists=False asserts absence, which a re-run cannot assert; re-runs of "
                  "such adds are performed with check_exists=True (transfer() re-establishes the assertion by its query)",
    }]


def replay_case(ctx, case):
    try:
        return _replay_case(ctx, case)
    finally:
        stop_servers()


def _replay_case(ctx, case):
    sc = unjson(case["scenario"])
    wd = ctx.fresh("c15-replay")
    n = int(case.get("kill_at", 0))
    if n <= 0:
        root = os.path.join(wd, "full")
        setup(root, sc)
        rc, _o, err = run_child(child_cfg(root, sc), wd, "full")
        v = judge(audit(root), "uninterrupted")
        return {"rc": rc, "verdicts": v, "violates": bool(v) or rc != 0}
    r = crash_and_rerun(wd, sc, n, "replay")
    v = classify(sc, r)
    return {"kill_at": n, "crashed_store": {o: (m, oct(mode)) for o, (m, mode, _b) in r["a1"]["objs"].items()},
            "crashed_rows": r["a1"]["rows"],
            "after_rerun": {o: (m, oct(mode)) for o, (m, mode, _b) in r["a2"]["objs"].items()},
            "rows_after_rerun": r["a2"]["rows"], "verdicts": v, "violates": bool(v)}


def server_main():
    """pre-import the implementation, then fork one child per request line (a cfg path); answer 'RC <code>'"""
    import traceback

    import dvc_objects.fs.generic  # noqa: F401
    import dvc_objects.fs.utils  # noqa: F401

    import dvc_data.hashfile.build  # noqa: F401
    import dvc_data.hashfile.cache  # noqa: F401
    import dvc_data.hashfile.db.local  # noqa: F401
    import dvc_data.hashfile.state  # noqa: F401
    import dvc_data.hashfile.transfer  # noqa: F401
    import dvc_data.index  # noqa: F401

    while True:
        line = sys.stdin.readline()
        if not line or not line.strip():
            break
        path = line.strip()
        pid = os.fork()
        if pid == 0:
            code = 1
            try:
                sys.stdout = open(os.devnull, "w")  # noqa: SIM115
                with open(path) as f:
                    cfg = json.load(f)
                child_main(cfg)
                code = 0
            except SystemExit as exc:
                code = exc.code if isinstance(exc.code, int) else 1
            except BaseException:  # noqa: BLE001
                with open(path + ".err", "w") as f:
                    f.write(traceback.format_exc())
            os._exit(code)
        _, status = os.waitpid(pid, 0)
        sys.stdout.write("RC %d\n" % os.waitstatus_to_exitcode(status))
        sys.stdout.flush()


if __name__ == "__main__" and len(sys.argv) >= 2 and sys.argv[1] == "server":
    server_main()
    sys.exit(0)

if __name__ == "__main__" and len(sys.argv) >= 3 and sys.argv[1] == "child":
    with open(sys.argv[2]) as _f:
        child_main(json.load(_f))
    sys.exit(0)
