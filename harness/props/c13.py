"""C13 - cached and carried-over hashes are never stale.

Histories of file mutations under an explicit os.utime clock, interleaved with every query route
into the hash-state cache (state.get / get_many / hash_file / _get_hashes through staging and
index building / index.md5 / index.update) on a real SQLite-backed State.  Every answer is judged
by a cache-less hashlib recomputation at the same instant (oracle) and the whole history is
replayed by the Gallina model Model/StateDb.v inside coqc (correspondence), which also decides the
environment hypothesis Ticks on the observed tokens.
"""

import hashlib
import json
import os
import struct
import time

from lib.core import cN, cbool, cbytes, clist, copt, cpair, vB, vL, vN, vbool, vopt

PROPERTY = "C13"
GEN: list = ["types", "idiff", "state"]   # Gen/PyTypes.v, Gen/IDiff.v (_diff_meta), Gen/State.v (translator/statedb.py)
RULE = (
    "a case is a history of 8-40 operations over <=5 files with contents from a pool with same-length "
    "twins, CRLF/LF twins and binary blocks: write (same inode), replace (temp + os.replace, new inode), "
    "touch, delete, re-create - each changing only the mtime, only the size, only the inode, or several; "
    "mtimes set by os.utime from a strictly increasing explicit clock (steps 1us..3s); foreign rows written "
    "straight into the table (other algorithm, version 0/2/3, missing version, stale token, non-JSON); "
    "queries state.get / get_many (batches of 0, 1, small, and 998..1000 / 1998..2001 / 3000 paths with "
    "duplicates, unknown paths and deleted files), hash_file, _get_hashes (direct, build of a file, build of "
    "the directory, build_entries), state.save, index build/md5/update on two index variables, each with "
    "caller-supplied (fsspec or dvc_data stat) or freshly read info, on the local or a memory file system, "
    "for md5, md5-dos2unix, sha256; files may be symlinks to regular files outside the staged directory (write / "
    "touch / replace then act on the link's target); staging routes also run with pool hashing forced (large-file "
    "threshold 0, checksum_jobs 2 or 4, reads delayed so that earlier-submitted files complete later) and with a "
    "writer that rewrites / replaces one of the query's files between its hashing and the save of the state rows, "
    "followed by plain lookups. Non-trivial = at least one cache hit was served after at least one "
    "mutation of the same file, or a foreign row / batch over 999 / index carry-over was involved."
)
ASSUMPTIONS = [
    "Ticks: every mutation gives the file a token (inode, mtime as the float st_mtime, size) different from "
    "the token recorded for that path in the state table and in the live indexes (decided by the model on the "
    "observed tokens of every generated history)",
    "caller-supplied stat information is the file's current one (taken at the instant of the query)",
    "rows are truthful when written (the harness writes foreign rows with the hashlib value of the content "
    "they are recorded for, or rows that can never hit)",
    "touching a file back to a recorded mtime with the same size and inode defeats the cache: outside Ticks, "
    "reproduced on every run as the documented assumption (probe 'touch-back'), not a finding",
    "_checksum = injective pairing of (ino, mtime, size) (md5 of the printed list; recomputed independently "
    "for every row read back)",
    "index level: flat directory of regular non-executable files (or symlinks to such) on the local file system",
    "stat information follows symbolic links (as fsutils._localfs_info and LocalFileSystem.info(str) do): the token "
    "of a path is the (inode, mtime, size) of the file it resolves to; the staging walk supplies exactly that",
    "a staging query records its rows under the stat information collected by the walk BEFORE the hashing "
    "(token_at_walk, Model get_hashes_during AtWalk): a write striking between the hashing and state.save_many is "
    "then equivalent to a write after the query (C13_inquery_write_safe); the harness strikes exactly there "
    "(wrapping the hashing worker's hash_file) and judges all later lookups against the current bytes",
    "single-file routes (hash_file, build_entry) are judged under an in-query writer only when the caller supplied "
    "the stat information (the row is then saved under the SUPPLIED info: Model hash_file_during AtWalk, "
    "C13_inquery_write_safe_single); without supplied info State.save has to stat after the read - that window exists "
    "in the unchanged code and is outside the judged routes; odb.check is not modelled here (C07)",
    "staging for real (dry_run=False, scratch object store) answers every listed path with its own digest also when "
    "several files of one directory have identical contents",
    "index checkout (index/checkout.py _create_files) writes rows itself through state.save_many: a row writer "
    "other than hash_file, whose rows the theorem needs truthful (tick_ok of StSave); not modelled in Coq - the stream "
    "'checkout' checks that obligation on the real code (workspaces with untracked files at target paths, missing "
    "source objects, copy/hardlink/symlink, update_meta on/off, lazily loaded directory objects, re-checkout, later writes)",
    "stream 'audit' (harness/props/_c13_audit.py, tools/COVERAGE_AUDIT.md): fixed real-code scenarios in every run over "
    "every writer / reader route (odb.add's save_many, odb.check, object checkout, migrate.prepare, staging of 999..1001 "
    "real files, names, symlinked parents / root_dir, hard links to cache objects, inode reuse, mtime resolutions, every "
    "subset of (inode, mtime, size) moving, algorithm-name pairs, faults inside a batch, state absent/noop/real/shared); "
    "identical (inode, mtime, size) for different bytes (inode reused AND mtime AND size restored) is outside Ticks: probe",
    "hashing is per path: _get_hashes attaches to every path the digest of that path's bytes, whatever the order in "
    "which pool workers are submitted and complete (the model has no pairing of a submission list with a result list)",
    "translated units (Gen/State.v: _checksum field list, State._get, HASH_VERSION, the non-local guards, "
    "SQLITE_MAX_VARIABLE_NUMBER, batched; Gen/IDiff.v: _diff_meta) are proved equal to the model's deciders "
    "(C13_tie_*) and validated against the real functions on enumerated arguments on every run; State._get is "
    "translated after a shape-checked normalisation (try/json_loads, entry[...], attribute assignment, tuple return)",
]

IMPORTS = "From Coq Require Import NArith List.\nFrom DvcData Require Import Model.StateDb."
ALGS = ["md5", "md5-dos2unix", "sha256"]
POOL = [b"", b"a", b"b", b"ab", b"ba", b"a\r\nb", b"a\nb", b"c\r\nd", b"\x00\r\n\x01", b"xyz",
        b"xyw", b"\r\n\r\n", b"q\r\n", b"0123456789", b"012345678\n", b"\x00"]
T0 = 1_700_000_000_000_000_000
STEPS = [1_000, 1_500, 7_000, 1_000_000, 33_000_000, 1_000_000_000, 2_000_000_007, 3_000_000_000]
SUBRES_SIG = "C13:stale:mtime-below-float-resolution"


# --------------------------------------------------------------------------------------
# independent observers (nothing from dvc_data)


def digest(alg: str, data: bytes) -> str:
    if alg == "md5-dos2unix":
        # the text heuristic on the pool: a block with a NUL byte is binary; the rest of the pool is
        # printable ASCII + CR/LF (text). Empty data is hashed as is.
        if data and b"\0" not in data:
            data = data.replace(b"\r\n", b"\n")
        return hashlib.md5(data).hexdigest()  # noqa: S324
    return hashlib.new(alg, data).hexdigest()


def cks(ino: int, mtime: float, size: int) -> str:
    """the checksum string of a row, recomputed from its definition (md5 of the printed list)"""
    return str(int(hashlib.md5(str(([ino, mtime, size],)).encode()).hexdigest(), 16))  # noqa: S324


def fbits(x: float) -> int:
    return struct.unpack(">Q", struct.pack(">d", float(x)))[0]


def ctoken(tok) -> str:
    return f"(T {tok[0]} {fbits(tok[1])} {tok[2]})"


def vtoken(tok) -> str:
    return vL([vN(tok[0]), vN(fbits(tok[1])), vN(tok[2])])


def vhi(hi) -> str:
    return vL([vB(hi[0]), vB(hi[1])])


def cpath(pid) -> str:
    return "[" + ";".join(str(x) for x in pid) + "]"


# --------------------------------------------------------------------------------------


class Runner:
    """executes one history on the real code; builds the model input and the expected output"""

    def __init__(self, ctx, nfiles=5):
        from dvc_objects.fs.local import localfs
        from dvc_objects.fs.memory import MemoryFileSystem

        from dvc_data.hashfile.db.local import LocalHashFileDB
        from dvc_data.hashfile.state import State
        from dvc_data.index import DataIndex

        self.ctx = ctx
        self.base = ctx.fresh("c13")
        self.root = os.path.join(self.base, "ws")
        self.tmp = os.path.join(self.base, "tmpfiles")
        os.makedirs(self.root)
        os.makedirs(self.tmp)
        self.targets = os.path.join(self.base, "targets")   # targets of symlinked files, outside the staged directory
        os.makedirs(self.targets)
        self.state = State(root_dir=self.root, tmp_dir=os.path.join(self.base, "state"))
        self.odb = LocalHashFileDB(localfs, os.path.join(self.base, "odb"), state=self.state)
        self.localfs = localfs
        self.mem = MemoryFileSystem(global_store=False)
        self.mem.makedirs(self.root, exist_ok=True)
        self.clock = T0
        self.content = {}       # fid -> bytes (what the harness wrote; the oracle's ground truth)
        self.memcontent = {}
        self.seen = {}          # fid -> set of tokens ever observed / planted for that path
        self.cks2tok = {}
        self.slots = {"A": DataIndex(), "B": DataIndex()}
        self.ops_terms = []
        self.outs = []
        self.problems = []      # (signature, what)
        self.contents_used = set()
        self.flags = set()
        self.saved_once = set()     # files whose hash was recorded at least once
        self.remutated = set()      # ... and that were mutated afterwards
        self.nfiles = nfiles

    # ---- helpers
    def close(self):
        try:
            self.state.close()
        except Exception:  # noqa: BLE001,S110
            pass

    def path(self, pid) -> str:
        if pid[0] == 7:
            return os.path.join(self.root, f"u{pid[1]}")
        return os.path.join(self.root, f"f{pid[0]}")

    def pid_of(self, path: str):
        n = os.path.basename(path)
        return [int(n[1:])] if n[0] == "f" else [7, int(n[1:])]

    def tick(self) -> int:
        self.clock += self.ctx.rng.choice(STEPS)
        if self.ctx.rng.random() < 0.15:
            # a whole-second mtime (file systems / tools with 1 s resolution)
            self.clock = (self.clock // 10**9 + 1) * 10**9
            self.flags.add("mtime:whole-second")
        return self.clock

    def observe(self, fid):
        st = os.stat(self.path([fid]))
        tok = (st.st_ino, st.st_mtime, st.st_size)
        self.cks2tok[cks(*tok)] = tok
        return tok, st.st_mtime_ns

    def current(self, fid):
        """cache-less ground truth at this instant: bytes read back from the disk"""
        try:
            with open(self.path([fid]), "rb") as f:
                return f.read()
        except FileNotFoundError:
            return None

    def mutated(self, fid):
        if fid in self.saved_once:
            self.remutated.add(fid)

    def fail(self, sig, what):
        self.problems.append((sig, what))

    def tokterm(self, fid):
        tok, _ = self.observe(fid)
        return ctoken(tok)

    def info_for(self, fid, kind):
        """caller-supplied stat information: (python dict | None, model term)"""
        p = self.path([fid])
        if kind is None or not os.path.exists(p):
            return None, "None"
        if kind == "dvc":
            from dvc_data.fsutils import _localfs_info

            info = _localfs_info(p)
        else:
            info = self.localfs.info(p)
        tok = (info["ino"], info["mtime"], info["size"])
        self.cks2tok[cks(*tok)] = tok
        return info, f"(Some {ctoken(tok)})"

    def settle(self, fid, mt, prev_ns):
        """give the file its mtime: a new clock value, or (mt == 'same') the previous mtime when the
        resulting token is still new for the path; returns the observed token"""
        p = self.path([fid])
        if mt == "same" and prev_ns is not None:
            os.utime(p, ns=(T0, prev_ns))
            tok, _ = self.observe(fid)
            if tok not in self.seen.setdefault(fid, set()):
                self.seen[fid].add(tok)
                self.flags.add("token-differs-without-mtime")
                return tok
        t = self.tick()
        os.utime(p, ns=(T0, t))
        tok, _ = self.observe(fid)
        assert tok not in self.seen.setdefault(fid, set()), "clock did not advance the observed token"
        self.seen[fid].add(tok)
        return tok

    # ---- the operations
    def do(self, op):  # noqa: C901, PLR0912, PLR0915
        k = op["op"]
        ctx = self.ctx
        ctx.count("op:" + k)
        fn = getattr(self, "op_" + k)
        term, out = fn(op)
        self.ops_terms.append(term)
        self.outs.append(out)

    def _prev_ns(self, fid):
        try:
            return os.stat(self.path([fid])).st_mtime_ns
        except FileNotFoundError:
            return None

    def op_write(self, op):
        fid, data = op["f"], POOL[op["c"]]
        prev = self._prev_ns(fid)
        if os.path.islink(self.path([fid])):
            self.flags.add("symlink-target-rewritten")
        with open(self.path([fid]), "wb") as f:      # truncates in place: same inode (of the target, for a link)
            f.write(data)
        tok = self.settle(fid, op.get("mt"), prev)
        self.content[fid] = data
        self.contents_used.add(data)
        self.mutated(fid)
        return f"Write [{fid}] {cbytes(data)} {ctoken(tok)}", vL([])

    def op_create(self, op):
        term, out = self.op_write(op)
        return "Create" + term[len("Write"):], out

    def op_mklink(self, op):
        """the file is a symlink to a regular file outside the staged directory; from now on write / touch /
        replace(target) act on the TARGET (open, os.utime follow the link), the link itself is untouched.
        The token of a path is the token of what it resolves to (os.stat follows, as _localfs_info does)."""
        fid, data = op["f"], POOL[op["c"]]
        p = self.path([fid])
        if os.path.lexists(p):
            os.unlink(p)
        target = os.path.join(self.targets, f"t{fid}_{len(self.ops_terms)}")
        with open(target, "wb") as f:
            f.write(data)
        os.symlink(target, p)
        tok = self.settle(fid, None, None)
        self.content[fid] = data
        self.contents_used.add(data)
        self.mutated(fid)
        self.flags.add("symlink")
        return f"Create [{fid}] {cbytes(data)} {ctoken(tok)}", vL([])

    def op_replace(self, op):
        fid, data = op["f"], POOL[op["c"]]
        prev = self._prev_ns(fid)
        tmp = os.path.join(self.tmp, f"t{len(self.ops_terms)}")
        with open(tmp, "wb") as f:
            f.write(data)
        dest = self.path([fid])
        if op.get("target") and os.path.islink(dest):
            dest = os.path.realpath(dest)            # replace the link's target, the link stays
            self.flags.add("symlink-target-replaced")
        os.replace(tmp, dest)                        # new inode
        tok = self.settle(fid, op.get("mt"), prev)
        self.content[fid] = data
        self.contents_used.add(data)
        self.mutated(fid)
        return f"Replace [{fid}] {cbytes(data)} {ctoken(tok)}", vL([])

    def op_touch(self, op):
        fid = op["f"]
        if fid not in self.content:
            return f"Touch [{fid}] (T 0 0 0)", vL([])
        if op.get("back") is not None:
            # deliberately OUTSIDE Ticks: set the mtime back to a recorded value
            os.utime(self.path([fid]), ns=(T0, op["back"]))
            tok, _ = self.observe(fid)
        elif op.get("plus_ns") is not None:
            os.utime(self.path([fid]), ns=(T0, self._prev_ns(fid) + op["plus_ns"]))
            tok, _ = self.observe(fid)
        else:
            tok = self.settle(fid, None, None)
        self.mutated(fid)
        return f"Touch [{fid}] {ctoken(tok)}", vL([])

    def op_rawwrite(self, op):
        """write without advancing the clock by more than op['plus_ns'] (probe of the float resolution)"""
        fid, data = op["f"], POOL[op["c"]]
        prev = self._prev_ns(fid)
        with open(self.path([fid]), "wb") as f:
            f.write(data)
        os.utime(self.path([fid]), ns=(T0, prev + op["plus_ns"]))
        tok, _ = self.observe(fid)
        self.content[fid] = data
        self.contents_used.add(data)
        return f"Write [{fid}] {cbytes(data)} {ctoken(tok)}", vL([])

    def op_delete(self, op):
        fid = op["f"]
        if fid in self.content:
            os.unlink(self.path([fid]))
            del self.content[fid]
        return f"Delete [{fid}]", vL([])

    def op_memput(self, op):
        fid, data = op["f"], POOL[op["c"]]
        self.mem.pipe_file(self.path([fid]), data)
        self.memcontent[fid] = data
        self.contents_used.add(data)
        return f"MemPut [{fid}] {cbytes(data)}", vL([])

    def op_foreign(self, op):
        fid, kind = op["f"], op["kind"]
        p = self.path([fid])
        data = self.current(fid)
        if kind == "garbage":
            self.state.hashes[p] = "{not json"
            return f"SaveForeign [{fid}] Garbage", vL([])
        if data is None or kind == "stale":
            # a token the file does not have (and, being planted in `seen`, never gets)
            base = self.observe(fid)[0] if data is not None else (1, float(T0 // 10**9), 1)
            tok = (base[0], base[1] - 7.0, base[2])
            version, alg, val = 1, op.get("alg", "md5"), "0" * 32
        else:
            tok = self.observe(fid)[0]
            alg = op.get("alg", "md5")
            val = digest(alg, data)
            version = {"otheralg": 1, "v0": 0, "newer": 2, "newer3": 3, "legacy": None}[kind]
            if kind in ("newer", "newer3") and op.get("lie"):
                val = "f" * 32          # may lie: a newer-format row must never be returned
            if kind == "legacy" and alg == "md5":
                val = digest("md5-dos2unix", data)   # what a 2.x "md5" row meant
        self.seen.setdefault(fid, set()).add(tok)
        self.cks2tok[cks(*tok)] = tok
        entry = {"checksum": cks(*tok), "size": tok[2], "hash_info": {alg: val}}
        if version is not None:
            entry["version"] = version
        self.state.hashes[p] = json.dumps(entry)
        self.flags.add("foreign:" + kind)
        row = (f"(Row (R {copt(version, cN)} {ctoken(tok)} {tok[2]} {cbytes(alg)} {cbytes(val)}))")
        return f"SaveForeign [{fid}] {row}", vL([])

    def op_stsave(self, op):
        from dvc_data.hashfile.hash_info import HashInfo

        fid, alg, local = op["f"], op["alg"], op.get("local", True)
        p = self.path([fid])
        data = self.current(fid) if local else self.memcontent.get(fid)
        val = digest(alg, data) if (data is not None and local) else "e" * 32
        info, iterm = self.info_for(fid, op.get("info")) if local else (None, "None")
        out = vL([])
        try:
            self.state.save(p, self.localfs if local else self.mem, HashInfo(alg, val), info=info)
            if local and fid in self.content:
                self.seen.setdefault(fid, set()).add(self.observe(fid)[0])
        except FileNotFoundError:
            out = vL([vN(0), vN(2)])
        return (f"StSave {cbool(local)} [{fid}] ({cbytes(alg)}, {cbytes(val)}) {iterm}", out)

    # ---- judging one looked-up answer
    def judge_hit(self, route, pid, meta, hi, local=True):
        if meta is None and hi is None:
            return None
        if not local:
            self.fail("C13:foreign-hit:nonlocal", f"{route}: a non-local file system got a cache hit for {pid}")
            return (hi.name, hi.value)
        data = self.current(pid[0]) if pid[0] != 7 else None
        raw = self.state.hashes.get(self.path(pid))
        try:
            row = json.loads(raw)
        except (ValueError, TypeError):
            row = None
        if row is not None and isinstance(row.get("version"), int) and row["version"] > 1:
            self.fail("C13:foreign-hit:version", f"{route}: a row of format version {row['version']} was returned as a hit")
        if data is None:
            self.fail(f"C13:stale:{route}", f"{route}: hit for the missing file {pid}")
        elif hi.name not in ALGS or hi.value != digest(hi.name, data):
            self.fail(f"C13:stale:{route}",
                      f"{route}: {pid} answered {hi.name}:{hi.value} but its bytes {data!r} hash to "
                      f"{digest(hi.name, data) if hi.name in ALGS else '?'}")
        else:
            st = os.stat(self.path(pid))
            if (meta.inode, meta.mtime, meta.size) != (st.st_ino, st.st_mtime, st.st_size):
                self.fail(f"C13:meta:{route}", f"{route}: returned meta is not the file's stat")
            self.flags.add("hit-after-mutation" if pid[0] in self.remutated else "hit")
        return (hi.name, hi.value)

    def op_get(self, op):
        pid, local = op["p"], op.get("local", True)
        fs = self.localfs if local else self.mem
        info, iterm = (self.info_for(pid[0], op.get("info")) if (local and pid[0] != 7) else (None, "None"))
        meta, hi = self.state.get(self.path(pid), fs, info=info)
        ans = self.judge_hit("get", pid, meta, hi, local)
        if info is not None:
            self.flags.add("supplied-info")
        return (f"QGet {cbool(local)} {cpath(pid)} {iterm}",
                vL([vN(1), vL([]) if ans is None else vL([vhi(ans)])]))

    def expand(self, items):
        paths, terms = [], []
        for it in items:
            if it[0] == "p":
                paths.append(it[1])
                terms.append(f"BP {cpath(it[1])}")
            else:
                paths.extend([7, it[1] + j] for j in range(it[2]))
                terms.append(f"BR {it[1]} {it[2]}%nat")
        return paths, "(expand " + clist(terms) + ")"

    def op_get_many(self, op):
        local = op.get("local", True)
        fs = self.localfs if local else self.mem
        pids, pterm = self.expand(op["items"])
        infos, iterms = {}, []
        for fid in op.get("infos", []) if local else []:
            info, it = self.info_for(fid, "fsspec")
            if info is not None:
                infos[self.path([fid])] = info
                iterms.append(f"([{fid}], {it[len('(Some '):-1]})")
        res = list(self.state.get_many([self.path(q) for q in pids], fs, infos))
        if [r[0] for r in res] != [self.path(q) for q in pids]:
            self.fail("C13:batch-differs", "get_many did not answer the requested paths in order")
        hits = []
        singles = {}
        for i, (q, (_, meta, hi)) in enumerate(zip(pids, res)):
            ans = None
            if not (meta is None and hi is None):
                ans = self.judge_hit("get_many", q, meta, hi, local)
                hits.append(vL([vN(i), vB(q), vhi(ans)]))
            # batch and single lookups agree (real code against itself)
            key = tuple(q)
            if key not in singles:
                m1, h1 = self.state.get(self.path(q), fs, info=infos.get(self.path(q)))
                singles[key] = None if (m1 is None and h1 is None) else (h1.name, h1.value)
            if singles[key] != ans:
                self.fail("C13:batch-differs",
                          f"get_many[{i}] of {len(pids)} answered {ans} for {q}, get answers {singles[key]}")
        n = len(pids)
        self.ctx.count("batch:" + ("0" if n == 0 else "1" if n == 1 else "2-997" if n < 998 else
                                   "998-1000" if n <= 1000 else "1001-1997" if n < 1998 else
                                   "1998-2001" if n <= 2001 else ">2001"))
        if n > 999:
            self.flags.add("batch>999")
        return (f"QGetMany {cbool(local)} {pterm} {clist(iterms)}",
                vL([vN(2), vN(n), vL(hits)]))

    def op_hash_file(self, op):
        from dvc_data.hashfile.hash import hash_file

        pid, alg, local = op["p"], op["alg"], op.get("local", True)
        fs = self.localfs if local else self.mem
        info, iterm = (self.info_for(pid[0], op.get("info")) if (local and pid[0] != 7) else (None, "None"))
        data = (self.current(pid[0]) if local else self.memcontent.get(pid[0])) if pid[0] != 7 else None
        try:
            meta, hi = hash_file(self.path(pid), fs, alg, state=self.state, info=info)
            val = hi.value
            if data is None or hi.name != alg or val != digest(alg, data):
                self.fail("C13:stale:hash_file",
                          f"hash_file({pid}, {alg}, local={local}) = {hi.name}:{val}; bytes {data!r} hash to "
                          f"{digest(alg, data) if data is not None else None}")
            if local and pid[0] in self.content:
                self.seen.setdefault(pid[0], set()).add(self.observe(pid[0])[0])
                self.saved_once.add(pid[0])
        except FileNotFoundError:
            val = None
            if data is not None:
                self.fail("C13:spurious-error", f"hash_file raised FileNotFoundError for the existing {pid}")
        if info is not None:
            self.flags.add("supplied-info")
        return (f"QHashFile {cbool(local)} {cpath(pid)} {cbytes(alg)} {iterm}",
                vL([vN(3), vL([]) if val is None else vL([vB(val)])]))

    def op_hash_file_w(self, op):
        """single-file query that was GIVEN the stat information by its caller (hash_file(..., info=...),
        index.build.build_entry) with a writer striking between the end of the read (_hash_file returned) and
        state.save.  The answer of this query is judged against the bytes it read; everything later against the
        current bytes."""
        import dvc_data.hashfile.hash as hmod
        from dvc_data.index.build import build_entry

        pid, alg, during = op["p"], op["alg"], op["during"]
        fid = pid[0]
        if fid not in self.content:
            return self.op_hash_file({"op": "hash_file", "p": pid, "alg": alg, "info": None})
        info, iterm = self.info_for(fid, op.get("info") or "fsspec")
        data = self.current(fid)
        path = self.path(pid)
        fired = []

        def fire():
            edit = self.op_replace if during["how"] == "replace" else self.op_write
            fired.append(edit({"f": fid, "c": during["c"], "mt": "tick"})[0])

        o_hf = hmod._hash_file

        def p_hash_file(path_, *a, **kw):
            res = o_hf(path_, *a, **kw)
            if not fired and path_ == path:
                fire()
                self.flags.add("inquery-write:between-read-and-save(single)")
            return res

        hmod._hash_file = p_hash_file
        try:
            if op.get("route") == "build_entry":
                e = build_entry(path, self.localfs, info=info, compute_hash=True, state=self.state, hash_name=alg)
                name, val = e.hash_info.name, e.hash_info.value
            else:
                _, hi = hmod.hash_file(path, self.localfs, alg, state=self.state, info=info)
                name, val = hi.name, hi.value
        finally:
            hmod._hash_file = o_hf
        if not fired:
            fire()      # served from the cache, nothing was read: the write strikes right after the query
            self.flags.add("inquery-write:after-query")
        if name != alg or val != digest(alg, data):
            self.fail("C13:stale:hash_file",
                      f"{op.get('route', 'hash_file')}({pid}, {alg}, supplied info) = {name}:{val}; the bytes it read "
                      f"{data!r} hash to {digest(alg, data)}")
        self.seen.setdefault(fid, set()).add(self.observe(fid)[0])
        self.saved_once.add(fid)
        self.flags.add("supplied-info")
        wterm = fired[0].split(" ", 2)[2]          # "<bytes> (T ino mtime size)" of the Write / Replace
        return (f"QHashFileW true {cpath(pid)} {cbytes(alg)} {iterm[len('(Some '):-1]} {wterm}",
                vL([vN(3), vL([vB(val)])]))

    def op_get_hashes(self, op):  # noqa: C901
        from dvc_data.hashfile.build import build as obuild
        from dvc_data.index.build import build_entries

        route, alg, local = op["route"], op["alg"], op.get("local", True)
        fs = self.localfs if local else self.mem
        truth = self.content if local else self.memcontent
        existing = sorted(truth)
        if route == "direct":
            fids = [f for f in op["fs"] if f in truth]
        elif route == "build_file":
            fids = [f for f in op["fs"][:1] if f in truth]
        else:
            fids = existing
        if not fids:
            return f"QGetHashes {cbool(local)} [] {cbytes(alg)} []", vL([vN(4), vL([])])
        if op.get("during") is not None:
            # each file is read once in a query with an in-query writer (a path listed twice would be read before
            # AND after the write: either version is a legitimate answer, nothing to compare)
            fids = list(dict.fromkeys(fids))
        paths = [self.path([f]) for f in fids]
        # the stat information a caller (the directory walk) supplies: taken now
        if local:
            infos = {p: self.localfs.info(p) for p in paths}
            iterms = []
            for f in dict.fromkeys(fids):
                i = infos[self.path([f])]
                tok = (i["ino"], i["mtime"], i["size"])
                self.cks2tok[cks(*tok)] = tok
                iterms.append(f"([{f}], {ctoken(tok)})")
        else:
            infos = {p: self.mem.info(p) for p in paths}
            iterms = [f"([{f}], T 0 0 0)" for f in dict.fromkeys(fids)]
        got = {}
        # a write DURING the query: right after the victim has been read for hashing (the hashing worker's
        # hash_file returned) and before _get_hashes hands the rows to state.save_many, the victim is rewritten
        # (same inode, new mtime) or replaced (new inode).  The answers of THIS query are judged against the bytes
        # as they were when it started; everything afterwards against the current bytes.
        truth_at = dict(truth)
        during = op.get("during") if (local and route != "build_file") else None
        if during is not None and during["f"] not in fids:
            during = None
        fired = []

        def fire():
            edit = self.op_replace if during["how"] == "replace" else self.op_write
            fired.append(edit({"f": during["f"], "c": during["c"], "mt": "tick"})[0])

        # pool hashing with out-of-order completion: every file with size >= 1 counts as "large"
        # (threshold patched to 0, as harness/props/c03.py does), checksum_jobs in {2, 4}, and the read of the
        # earlier-submitted files is delayed so that they finish last.  The model hashes per path: the answer
        # does not depend on submission or completion order.
        pool = op.get("pool") if local else None
        jobs = pool["jobs"] if pool else None
        import dvc_data.hashfile.build as bmod

        o_gh, o_hash = bmod._get_hashes, bmod.hash_file
        delays = {}
        pooled = [0]

        def p_get_hashes(paths_, fs_, name_, infos_, **kw):
            kw["large_file_threshold"] = 0
            order = list(dict.fromkeys(paths_))
            for i, q in enumerate(order[:2]):
                delays[q] = (0.09, 0.045)[i]
            return o_gh(paths_, fs_, name_, infos_, **kw)

        def p_hash_file(path_, *a, **kw):
            d = delays.get(path_)
            worker = kw.get("state") is None and len(a) < 3      # the call of _hash_files' worker
            if d and worker:
                pooled[0] += 1
                time.sleep(d)
            res = o_hash(path_, *a, **kw)
            if during is not None and worker and not fired and path_ == self.path([during["f"]]):
                fire()
                self.flags.add("inquery-write:between-hash-and-save")
            return res

        if pool:
            bmod._get_hashes = p_get_hashes
        if pool or during is not None:
            bmod.hash_file = p_hash_file
        kwj = {"checksum_jobs": jobs} if pool else {}
        try:
            if route == "direct":
                r = bmod._get_hashes(paths, fs, alg, infos, state=self.state, **({"jobs": jobs} if pool else {}))
                got = {self.pid_of(p)[0]: (hi.name, hi.value) for p, (_, hi, _) in r.items()}
            elif route == "build_file":
                _, _, obj = obuild(self.odb, paths[0], fs, alg, dry_run=True)
                got = {fids[0]: (obj.hash_info.name, obj.hash_info.value)}
            elif route == "build_dir":
                _, _, obj = obuild(self.odb, self.root, fs, alg, dry_run=op.get("dry", True), **kwj)
                got = {int(key[0][1:]): (hi.name, hi.value) for key, _, hi in obj}
            else:
                for e in build_entries(self.root, fs, compute_hash=True, state=self.state, hash_name=alg, **kwj):
                    got[int(e.key[0][1:])] = (e.hash_info.name, e.hash_info.value)
        finally:
            bmod._get_hashes, bmod.hash_file = o_gh, o_hash
        if pool:
            self.flags.add("staging:pool")
            if pooled[0] >= 2:
                self.flags.add("staging:pool>=2-uncached")
        if during is not None and not fired:
            fire()      # the victim was served from the cache (not read): the write strikes right after the query
            self.flags.add("inquery-write:after-query")
        truth = truth_at
        if sorted(got) != sorted(set(fids)):
            self.fail("C13:stale:build", f"{route}: answered for {sorted(got)}, files are {sorted(set(fids))}")
        vals = []
        for f in fids:
            name, val = got.get(f, (None, ""))
            if name != alg or val != digest(alg, truth[f]):
                self.fail("C13:stale:build",
                          f"{route}({alg}): file {f} answered {name}:{val}, bytes {truth[f]!r} hash to {digest(alg, truth[f])}")
            vals.append(vB(val or ""))
            if local:
                self.seen.setdefault(f, set()).add(self.observe(f)[0])
                self.saved_once.add(f)
        self.flags.add("staging:" + route)
        if route == "build_dir" and not op.get("dry", True) and len({truth[f] for f in fids}) < len(fids):
            self.flags.add("staging:nondry-duplicates")
        if during is not None:
            wterm = fired[0].split(" ", 1)[1]       # "[f] <bytes> (T ino mtime size)" of the Write / Replace
            return (f"QGetHashesW {cbool(local)} {clist([f'[{f}]' for f in fids])} {cbytes(alg)} {clist(iterms)} {wterm}",
                    vL([vN(4), vL(vals)]))
        return (f"QGetHashes {cbool(local)} {clist([f'[{f}]' for f in fids])} {cbytes(alg)} {clist(iterms)}",
                vL([vN(4), vL(vals)]))

    # ---- index level
    def dump_index(self, idx, route, all_fresh):
        rows = []
        for key, e in idx.iteritems():
            fid = int(key[0][1:])
            m = e.meta
            tokv = vL([])
            cur = False
            if m is not None:
                if (m.isdir or m.isexec or m.nfiles is not None or m.version_id or m.etag or m.checksum or m.md5):
                    self.fail("C13:harness:meta-shape", f"unexpected meta {m}")
                if m.inode is not None and m.mtime is not None and m.size is not None:
                    tok = (m.inode, m.mtime, m.size)
                    tokv = vL([vtoken(tok)])
                    self.seen.setdefault(fid, set()).add(tok)
                    try:
                        st = os.stat(self.path([fid]))
                        cur = tok == (st.st_ino, st.st_mtime, st.st_size)
                    except FileNotFoundError:
                        cur = False
            hv = vL([])
            hi = e.hash_info
            if hi is not None and (hi.name is not None or hi.value is not None):
                hv = vL([vhi((hi.name, hi.value))])
                data = self.current(fid)
                # the claim an index entry makes: under its recorded metadata the file hashes to hi
                if all_fresh or cur:
                    if data is None or hi.name not in ALGS or hi.value != digest(hi.name, data):
                        self.fail(f"C13:stale:{route}",
                                  f"{route}: entry {key} carries {hi.name}:{hi.value}; the file's bytes {data!r} hash to "
                                  f"{digest(hi.name, data) if (data is not None and hi.name in ALGS) else None}")
                    elif not all_fresh:
                        self.flags.add("carried-hash-current")
            rows.append((fid, vL([vB([fid]), tokv, hv])))
        rows.sort()
        return vL([vN(5), vL([r for _, r in rows])])

    def op_ibuild(self, op):
        from dvc_data.index import build

        s = op["s"]
        self.slots[s] = build(self.root, self.localfs)
        return f"IBuild S{s}", self.dump_index(self.slots[s], "index-build", False)

    def op_imd5(self, op):
        from dvc_data.index import md5

        s, alg = op["s"], op["alg"]
        self.slots[s] = md5(self.slots[s], state=self.state, name=alg)
        for key, _ in self.slots[s].iteritems():
            fid = int(key[0][1:])
            if fid in self.content:
                self.seen.setdefault(fid, set()).add(self.observe(fid)[0])
        self.flags.add("index-md5")
        return f"IMd5 S{s} {cbytes(alg)}", self.dump_index(self.slots[s], "index-md5", True)

    def op_iupdate(self, op):
        from dvc_data.index import update

        s = op["s"]
        new, old = self.slots[s], self.slots["B" if s == "A" else "A"]
        before = {k: (e.hash_info, e.meta) for k, e in new.iteritems()}
        oldm = {k: (e.hash_info, e.meta) for k, e in old.iteritems()}
        update(new, old)
        for k, e in new.iteritems():
            if e.hash_info is not before[k][0] and e.hash_info != before[k][0]:
                # a hash was carried over: only under full metadata equality
                if k not in oldm or oldm[k][1] != e.meta or e.meta is None:
                    self.fail("C13:update-copied-without-meta-equality",
                              f"update copied a hash to {k} although old meta {oldm.get(k)} != new meta {e.meta}")
                self.flags.add("index-update-copied")
        return f"IUpdate S{s}", self.dump_index(new, "index-update", False)

    # ---- wrap up
    def dump_db(self):
        rows = []
        for k in self.state.hashes:
            raw = self.state.hashes.get(k)
            pid = self.pid_of(k)
            try:
                d = json.loads(raw)
                tok = self.cks2tok.get(d["checksum"])
                ((alg, val),) = d["hash_info"].items()
                ver = d.get("version")
                rv = vL([vL([]) if ver is None else vL([vN(ver)]),
                         vtoken(tok) if tok is not None else vB(d["checksum"]),
                         vN(d["size"]), vB(alg), vB(val)])
            except ValueError:
                rv = vL([])
            rows.append((pid, vL([vB(pid), rv])))
        rows.sort()
        return vL([r for _, r in rows])

    def table(self):
        ents = []
        for alg in ALGS:
            for c in sorted(self.contents_used):
                ents.append(f"({cbytes(alg)}, {cbytes(c)}, {cbytes(digest(alg, c))})")
        return clist(ents)


# --------------------------------------------------------------------------------------
# generators


def same_len_twin(rng, c):
    twins = [i for i, b in enumerate(POOL) if len(b) == len(POOL[c]) and i != c]
    return rng.choice(twins) if twins else c


def gen_history(ctx, big=None):  # noqa: C901, PLR0912, PLR0915
    """structured and mostly valid: files are created before they are queried; every mutation is
    followed sooner or later by queries through several routes"""
    rng = ctx.rng
    nfiles = rng.choice([1, 2, 3, 4, 5])
    # a small palette of contents per history (keeps the digest table small), with twins
    pal = rng.sample(range(len(POOL)), 3)
    pal += [same_len_twin(rng, pal[0]), same_len_twin(rng, pal[1])]
    ops = []
    alive = set()
    cur = {}
    nops = rng.randint(8, 40) if big is None else rng.randint(8, 16)

    def content(f, same_len=False):
        if same_len and f in cur:
            cands = [c for c in pal if len(POOL[c]) == len(POOL[cur[f]]) and c != cur[f]]
            if cands:
                return rng.choice(cands)
        return rng.choice(pal)

    def any_pid():
        r = rng.random()
        if r < 0.85:
            return [rng.randrange(nfiles)]
        return [7, rng.randrange(50)]

    def query():  # noqa: C901
        r = rng.random()
        alg = rng.choice(ALGS) if rng.random() < 0.5 else "md5"
        info = rng.choice([None, None, "fsspec", "dvc"])
        if r < 0.22:
            if alive and rng.random() < 0.2:
                v = rng.choice(sorted(alive))
                c = content(v, same_len=rng.random() < 0.5)
                cur[v] = c
                return {"op": "hash_file_w", "p": [v], "alg": alg, "info": rng.choice(["fsspec", "dvc"]),
                        "route": rng.choice(["hash_file", "build_entry"]),
                        "during": {"f": v, "c": c, "how": rng.choice(["write", "replace", "replace"])}}
            return {"op": "hash_file", "p": any_pid() if rng.random() < 0.1 else [rng.randrange(nfiles)],
                    "alg": alg, "info": info}
        if r < 0.36:
            return {"op": "get", "p": any_pid(), "info": info}
        if r < 0.52:
            items = []
            for _ in range(rng.choice([0, 1, 2, 3, 5, 8])):
                if rng.random() < 0.7:
                    items.append(["p", [rng.randrange(nfiles)]])
                else:
                    items.append(["u", rng.randrange(40), rng.choice([1, 2, 3])])
            return {"op": "get_many", "items": items,
                    "infos": [f for f in range(nfiles) if rng.random() < 0.3]}
        if r < 0.70:
            route = rng.choice(["direct", "direct", "build_file", "build_dir", "build_dir", "build_entries"])
            a = "md5" if route == "build_dir" else alg
            q = {"op": "get_hashes", "route": route, "alg": a,
                 "fs": [rng.randrange(nfiles) for _ in range(rng.choice([1, 2, 3, 4]))],
                 "dry": rng.random() < 0.5}       # dry = False: build() really adds the files to the object store
            if route != "build_file" and rng.random() < 0.3:
                q["pool"] = {"jobs": rng.choice([2, 4])}     # pool hashing, out-of-order completion
            cands = sorted(alive & set(q["fs"])) if route == "direct" else sorted(alive)
            if route != "build_file" and cands and rng.random() < 0.25:
                v = rng.choice(cands)
                c = content(v, same_len=rng.random() < 0.8)
                cur[v] = c
                q["dry"] = True
                q["during"] = {"f": v, "c": c, "how": rng.choice(["write", "write", "replace"])}
            return q
        if r < 0.78:
            return {"op": "ibuild", "s": rng.choice("AB")}
        if r < 0.86:
            return {"op": "imd5", "s": rng.choice("AB"), "alg": rng.choice(["md5", "md5", "md5-dos2unix", "sha256"])}
        if r < 0.93:
            return {"op": "iupdate", "s": rng.choice("AB")}
        if r < 0.96:
            return {"op": "stsave", "f": rng.randrange(nfiles), "alg": alg, "info": info}
        # the non-local file system
        q = rng.choice(["get", "get_many", "hash_file", "stsave", "get_hashes"])
        f = rng.randrange(nfiles)
        if q == "get":
            return {"op": "get", "p": [f], "local": False}
        if q == "get_many":
            return {"op": "get_many", "items": [["p", [f]], ["p", [rng.randrange(nfiles)]]], "local": False}
        if q == "hash_file":
            return {"op": "hash_file", "p": [f], "alg": alg, "local": False}
        if q == "get_hashes":
            return {"op": "get_hashes", "route": "direct", "alg": alg, "fs": [f, rng.randrange(nfiles)], "local": False}
        return {"op": "stsave", "f": f, "alg": alg, "local": False}

    def mutation():
        f = rng.randrange(nfiles)
        if f not in alive:
            alive.add(f)
            c = content(f)
            cur[f] = c
            return {"op": "mklink" if rng.random() < 0.25 else "create", "f": f, "c": c}
        r = rng.random()
        if r < 0.30:
            c = content(f, same_len=rng.random() < 0.6)
            mt = "same" if (len(POOL[c]) != len(POOL[cur[f]]) and rng.random() < 0.5) else "tick"
            cur[f] = c
            return {"op": "write", "f": f, "c": c, "mt": mt}
        if r < 0.55:
            c = content(f, same_len=rng.random() < 0.7)
            cur[f] = c
            return {"op": "replace", "f": f, "c": c, "mt": rng.choice(["same", "tick"]), "target": rng.random() < 0.5}
        if r < 0.70:
            return {"op": "touch", "f": f}
        if r < 0.80:
            alive.discard(f)
            cur.pop(f, None)
            return {"op": "delete", "f": f}
        if r < 0.90:
            kind = rng.choice(["otheralg", "newer", "newer3", "legacy", "stale", "garbage", "v0"])
            return {"op": "foreign", "f": f, "kind": kind, "alg": rng.choice(ALGS), "lie": rng.random() < 0.7}
        return {"op": "memput", "f": f, "c": content(f)}

    # warm-up: create the files and record hashes
    for f in range(nfiles):
        if rng.random() < 0.85:
            alive.add(f)
            cur[f] = content(f)
            ops.append({"op": "mklink" if rng.random() < 0.2 else "create", "f": f, "c": cur[f]})
    ops.append({"op": "memput", "f": rng.randrange(nfiles), "c": rng.choice(pal)})
    def index_block():
        """the carry-over scenario: build + md5 one index, mutate some files, rebuild the other, update it"""
        s1 = rng.choice("AB")
        s2 = "B" if s1 == "A" else "A"
        blk = [{"op": "ibuild", "s": s1}, {"op": "imd5", "s": s1, "alg": rng.choice(["md5", "md5", "md5-dos2unix", "sha256"])}]
        for _ in range(rng.choice([0, 1, 1, 2])):
            m = mutation()
            if m["op"] not in ("foreign", "memput"):
                blk.append(m)
        if rng.random() < 0.5:
            # md5 of an index that was NOT rebuilt after the mutations: its entries carry the former hashes
            blk.append({"op": "imd5", "s": s1, "alg": blk[1]["alg"] if rng.random() < 0.7 else rng.choice(ALGS)})
        blk += [{"op": "ibuild", "s": s2}, {"op": "iupdate", "s": s2}]
        if rng.random() < 0.5:
            blk.append({"op": "imd5", "s": s2, "alg": rng.choice(["md5", "md5-dos2unix"])})
        return blk

    def dup_block():
        """identical contents inside the staged directory, staged for real (not a dry run), then looked up singly:
        the staged tree must give every path the digest of ITS bytes (batch = single), duplicates included"""
        fs_ = list(range(nfiles))
        rng.shuffle(fs_)
        c = rng.choice(pal)
        blk = []
        for f in fs_[:rng.choice([2, 2, 3])]:
            alive.add(f)
            cur[f] = c
            blk.append({"op": rng.choice(["write", "replace"]) if rng.random() < 0.7 else "create", "f": f, "c": c,
                        "mt": "tick"})
        blk.append({"op": "get_hashes", "route": "build_dir", "alg": "md5", "fs": [], "dry": False,
                    **({"pool": {"jobs": 2}} if rng.random() < 0.3 else {})})
        blk.append({"op": "get_many", "items": [["p", [f]] for f in range(nfiles)], "infos": []})
        blk.append({"op": "get_hashes", "route": "build_dir", "alg": "md5", "fs": [], "dry": rng.random() < 0.5})
        return blk

    def link_block():
        """a symlinked file inside the staged directory whose TARGET undergoes the mutation kinds of a plain file,
        each time right after the staging walk (dvc stat: fsutils._localfs_info) recorded its row: atomic replace
        of the target by same-size content with the mtime restored (cp -p / rsync -t: ONLY the inode of the file
        whose bytes are hashed moves), same-size rewrite in place, touch, replace with a new mtime"""
        f = rng.randrange(nfiles)
        alive.add(f)
        cur[f] = content(f)
        blk = [{"op": "mklink", "f": f, "c": cur[f]}]

        def stage():
            r_ = rng.random()
            if r_ < 0.5:
                return {"op": "get_hashes", "route": "build_dir", "alg": "md5", "fs": [], "dry": rng.random() < 0.6}
            if r_ < 0.75:
                return {"op": "hash_file", "p": [f], "alg": "md5", "info": "dvc"}
            return {"op": "get", "p": [f], "info": "dvc"} if rng.random() < 0.4 else \
                {"op": "get_hashes", "route": "build_entries", "alg": "md5", "fs": []}

        blk.append({"op": "get_hashes", "route": "build_dir", "alg": "md5", "fs": [], "dry": rng.random() < 0.6})
        for _ in range(rng.choice([1, 2, 3])):
            k = rng.random()
            c = content(f, same_len=True)
            if k < 0.5:
                cur[f] = c
                blk.append({"op": "replace", "f": f, "c": c, "mt": "same", "target": True})
            elif k < 0.7:
                cur[f] = c
                blk.append({"op": "write", "f": f, "c": c, "mt": "tick"})
            elif k < 0.85:
                cur[f] = c
                blk.append({"op": "replace", "f": f, "c": c, "mt": "tick", "target": True})
            else:
                blk.append({"op": "touch", "f": f})
            blk.append(stage())
        return blk

    while len(ops) < nops:
        r = rng.random()
        if r < 0.04:
            ops.extend(link_block())
        elif r < 0.08 and nfiles >= 2:
            ops.extend(dup_block())
        elif r < 0.14:
            ops.extend(index_block())
        elif r < 0.49:
            ops.append(mutation())
        else:
            q = query()
            if q.get("during"):
                # make the victim uncached (so that it is read during the query), strike, then look it up plainly
                v = q["during"]["f"]
                if rng.random() < 0.75:
                    ops.append({"op": "touch", "f": v})
                ops.append(q)
                ops.append(rng.choice([{"op": "get", "p": [v], "info": rng.choice([None, "fsspec", "dvc"])},
                                       {"op": "hash_file", "p": [v], "alg": q["alg"], "info": None},
                                       {"op": "get_many", "items": [["p", [v]]], "infos": []},
                                       {"op": "get_hashes", "route": "build_dir", "alg": "md5", "fs": [], "dry": True}]))
            else:
                ops.append(q)
    if big is not None:
        # one batch across the SQL parameter boundary, with known paths, duplicates and unknown ones
        items = []
        left = big
        known = [["p", [rng.randrange(nfiles)]] for _ in range(min(big, rng.choice([2, 3, 6])))]
        left -= len(known)
        cuts = sorted(rng.randrange(left + 1) for _ in range(len(known)))
        prev = 0
        start = 100
        for kn, cut in zip(known, cuts):
            if cut > prev:
                # a range of unknown paths; reuse of the same start makes duplicates
                s0 = start if rng.random() < 0.8 else 100
                items.append(["u", s0, cut - prev])
                start += cut - prev
            items.append(kn)
            prev = cut
        if left > prev:
            items.append(["u", start, left - prev])
        pos = rng.randrange(len(ops) // 2, len(ops) + 1)
        ops.insert(pos, {"op": "get_many", "items": items, "infos": [f for f in range(nfiles) if rng.random() < 0.3]})
        ops.append({"op": "hash_file", "p": [0], "alg": "md5", "info": None})
    return {"nfiles": nfiles, "ops": ops}


CORPUS = [
    # the README scenario of the property: every single-attribute change, each followed by all routes
    {"nfiles": 2, "ops": [
        {"op": "create", "f": 0, "c": 1}, {"op": "create", "f": 1, "c": 5},
        {"op": "hash_file", "p": [0], "alg": "md5", "info": None},
        {"op": "get_hashes", "route": "build_dir", "alg": "md5", "fs": [], "dry": False},
        {"op": "write", "f": 0, "c": 2, "mt": "tick"},          # same size, same inode: mtime only
        {"op": "get", "p": [0], "info": None}, {"op": "hash_file", "p": [0], "alg": "md5", "info": "fsspec"},
        {"op": "write", "f": 0, "c": 3, "mt": "same"},          # size only
        {"op": "get", "p": [0], "info": "dvc"}, {"op": "hash_file", "p": [0], "alg": "md5", "info": None},
        {"op": "replace", "f": 0, "c": 4, "mt": "same"},        # inode only
        {"op": "get_many", "items": [["p", [0]], ["p", [1]], ["p", [0]], ["u", 0, 2]], "infos": [1]},
        {"op": "hash_file", "p": [0], "alg": "md5", "info": None},
        {"op": "hash_file", "p": [1], "alg": "md5-dos2unix", "info": None},
        {"op": "hash_file", "p": [1], "alg": "md5", "info": None},
        {"op": "delete", "f": 0}, {"op": "get", "p": [0], "info": None},
        {"op": "create", "f": 0, "c": 4}, {"op": "hash_file", "p": [0], "alg": "sha256", "info": None},
        {"op": "get", "p": [0], "info": None}]},
    # index carriers: build, md5, modify one file in place, rebuild, update
    {"nfiles": 3, "ops": [
        {"op": "create", "f": 0, "c": 9}, {"op": "create", "f": 1, "c": 5}, {"op": "create", "f": 2, "c": 0},
        {"op": "ibuild", "s": "A"}, {"op": "imd5", "s": "A", "alg": "md5"},
        {"op": "write", "f": 0, "c": 10, "mt": "tick"}, {"op": "replace", "f": 1, "c": 7, "mt": "same"},
        {"op": "imd5", "s": "A", "alg": "md5"},                 # not rebuilt: entries of the changed files are re-hashed or dropped
        {"op": "ibuild", "s": "B"}, {"op": "iupdate", "s": "B"},
        {"op": "imd5", "s": "B", "alg": "md5"}, {"op": "imd5", "s": "A", "alg": "md5-dos2unix"},
        {"op": "delete", "f": 2}, {"op": "imd5", "s": "B", "alg": "sha256"},
        {"op": "ibuild", "s": "A"}, {"op": "iupdate", "s": "A"}]},
    # pool hashing in staging: >= 2 uncached "large" files in one directory, several workers, the first-submitted
    # file finishes last; then every route must answer each path with the digest of ITS bytes
    {"nfiles": 4, "ops": [
        {"op": "create", "f": 0, "c": 1}, {"op": "create", "f": 1, "c": 9}, {"op": "create", "f": 2, "c": 5},
        {"op": "create", "f": 3, "c": 12},
        {"op": "get_hashes", "route": "build_dir", "alg": "md5", "fs": [], "dry": False, "pool": {"jobs": 4}},
        {"op": "get", "p": [0], "info": None}, {"op": "get", "p": [1], "info": "dvc"},
        {"op": "hash_file", "p": [2], "alg": "md5", "info": None}, {"op": "hash_file", "p": [3], "alg": "md5", "info": "fsspec"},
        {"op": "get_many", "items": [["p", [0]], ["p", [1]], ["p", [2]], ["p", [3]]], "infos": [1, 3]},
        {"op": "get_hashes", "route": "build_dir", "alg": "md5", "fs": [], "dry": True},
        {"op": "write", "f": 0, "c": 2, "mt": "tick"}, {"op": "replace", "f": 1, "c": 10, "mt": "same"},
        {"op": "touch", "f": 2},
        {"op": "get_hashes", "route": "build_entries", "alg": "md5", "fs": [], "pool": {"jobs": 2}},
        {"op": "get_many", "items": [["p", [0]], ["p", [1]], ["p", [2]]], "infos": []},
        {"op": "write", "f": 2, "c": 6, "mt": "tick"}, {"op": "write", "f": 3, "c": 14, "mt": "tick"},
        {"op": "write", "f": 0, "c": 1, "mt": "tick"},
        {"op": "get_hashes", "route": "direct", "alg": "sha256", "fs": [3, 2, 0], "pool": {"jobs": 2}},
        {"op": "hash_file", "p": [3], "alg": "sha256", "info": None}, {"op": "get", "p": [2], "info": None},
        {"op": "get_hashes", "route": "direct", "alg": "sha256", "fs": [0, 2, 3]}]},
    # a symlinked file in the staged directory whose target is replaced ATOMICALLY by same-size content with the
    # mtime restored (cp -p / rsync -t): of (inode, mtime, size) only the inode of the file whose bytes are hashed
    # moves - right after the staging walk recorded the row under the walk's (dvc) stat information
    {"nfiles": 2, "ops": [
        {"op": "mklink", "f": 0, "c": 1}, {"op": "create", "f": 1, "c": 9},
        {"op": "get_hashes", "route": "build_dir", "alg": "md5", "fs": [], "dry": False},
        {"op": "replace", "f": 0, "c": 2, "mt": "same", "target": True},
        {"op": "get_hashes", "route": "build_dir", "alg": "md5", "fs": [], "dry": True},
        {"op": "get", "p": [0], "info": "dvc"}, {"op": "hash_file", "p": [0], "alg": "md5", "info": "dvc"},
        {"op": "replace", "f": 0, "c": 1, "mt": "same", "target": True},
        {"op": "hash_file", "p": [0], "alg": "md5", "info": "dvc"},
        {"op": "get_many", "items": [["p", [0]], ["p", [1]]], "infos": [0]},
        {"op": "replace", "f": 0, "c": 2, "mt": "same", "target": True},
        {"op": "get_hashes", "route": "build_entries", "alg": "md5", "fs": []},
        {"op": "get_hashes", "route": "build_dir", "alg": "md5", "fs": [], "dry": False},
        {"op": "ibuild", "s": "A"}, {"op": "imd5", "s": "A", "alg": "md5"},
        {"op": "replace", "f": 0, "c": 1, "mt": "same", "target": True},
        {"op": "ibuild", "s": "B"}, {"op": "iupdate", "s": "B"}, {"op": "imd5", "s": "B", "alg": "md5"}]},
    # a symlinked file in the staged directory: the token of the path is the token of the link's TARGET
    # (info follows links, as _localfs_info does); in-place rewrite / replacement of the target between stagings
    {"nfiles": 2, "ops": [
        {"op": "mklink", "f": 0, "c": 1}, {"op": "create", "f": 1, "c": 5},
        {"op": "get_hashes", "route": "build_dir", "alg": "md5", "fs": [], "dry": False},
        {"op": "write", "f": 0, "c": 2, "mt": "tick"},            # target rewritten in place, same length
        {"op": "get_hashes", "route": "build_dir", "alg": "md5", "fs": [], "dry": False},
        {"op": "hash_file", "p": [0], "alg": "md5", "info": None},
        {"op": "get_many", "items": [["p", [0]], ["p", [1]]], "infos": []},
        {"op": "get_hashes", "route": "build_entries", "alg": "md5", "fs": []},
        {"op": "replace", "f": 0, "c": 1, "mt": "same", "target": True},   # target replaced: only its inode moves
        {"op": "get_hashes", "route": "build_dir", "alg": "md5", "fs": [], "dry": True},
        {"op": "get_hashes", "route": "direct", "alg": "md5", "fs": [0, 1]},
        {"op": "touch", "f": 0},
        {"op": "get_hashes", "route": "build_dir", "alg": "md5", "fs": [], "dry": True, "pool": {"jobs": 2}},
        {"op": "ibuild", "s": "A"}, {"op": "imd5", "s": "A", "alg": "md5"},
        {"op": "write", "f": 0, "c": 2, "mt": "tick"},
        {"op": "ibuild", "s": "B"}, {"op": "iupdate", "s": "B"}, {"op": "imd5", "s": "B", "alg": "md5"},
        {"op": "replace", "f": 0, "c": 3, "mt": "tick"},          # the link itself replaced by a regular file
        {"op": "get_hashes", "route": "build_dir", "alg": "md5", "fs": [], "dry": True},
        {"op": "get", "p": [0], "info": "fsspec"}]},
    # a writer striking DURING a staging query (after the victim was hashed, before the rows are saved), through
    # every staging route; then undisturbed warm-cache lookups must follow the CURRENT bytes
    {"nfiles": 2, "ops": [
        {"op": "create", "f": 0, "c": 1}, {"op": "create", "f": 1, "c": 9},
        {"op": "get_hashes", "route": "build_dir", "alg": "md5", "fs": [], "dry": True,
         "during": {"f": 0, "c": 2, "how": "write"}},            # same length, same inode, new mtime
        {"op": "get", "p": [0], "info": None}, {"op": "hash_file", "p": [0], "alg": "md5", "info": None},
        {"op": "get_many", "items": [["p", [0]], ["p", [1]]], "infos": []},
        {"op": "get_hashes", "route": "build_dir", "alg": "md5", "fs": [], "dry": True},
        {"op": "touch", "f": 1},
        {"op": "get_hashes", "route": "direct", "alg": "md5", "fs": [1, 0],
         "during": {"f": 1, "c": 10, "how": "replace"}},         # same length, new inode
        {"op": "get", "p": [1], "info": "dvc"}, {"op": "get_hashes", "route": "build_entries", "alg": "md5", "fs": []},
        {"op": "touch", "f": 0}, {"op": "touch", "f": 1},
        {"op": "get_hashes", "route": "build_entries", "alg": "md5", "fs": [],
         "during": {"f": 0, "c": 3, "how": "write"}},            # new length
        {"op": "get_many", "items": [["p", [0]], ["p", [1]]], "infos": [0]},
        {"op": "hash_file", "p": [0], "alg": "md5", "info": "fsspec"},
        {"op": "get_hashes", "route": "direct", "alg": "md5", "fs": [0, 1]},
        {"op": "get_hashes", "route": "build_dir", "alg": "md5", "fs": [], "dry": True,
         "during": {"f": 1, "c": 9, "how": "write"}},            # victim cached: the write strikes after the query
        {"op": "get", "p": [1], "info": None}, {"op": "hash_file", "p": [1], "alg": "md5", "info": None}]},
    # single-file routes that were GIVEN the stat information (hash_file(..., info=...), build_entry) with the file
    # replaced / rewritten between the read and state.save
    {"nfiles": 2, "ops": [
        {"op": "create", "f": 0, "c": 1}, {"op": "create", "f": 1, "c": 9},
        {"op": "hash_file_w", "p": [0], "alg": "md5", "info": "fsspec", "route": "hash_file",
         "during": {"f": 0, "c": 3, "how": "replace"}},
        {"op": "get", "p": [0], "info": None},
        {"op": "get_many", "items": [["p", [0]], ["p", [1]]], "infos": [0]},
        {"op": "hash_file", "p": [0], "alg": "md5", "info": None},
        {"op": "hash_file_w", "p": [1], "alg": "md5", "info": "dvc", "route": "build_entry",
         "during": {"f": 1, "c": 10, "how": "write"}},
        {"op": "get", "p": [1], "info": "fsspec"}, {"op": "hash_file", "p": [1], "alg": "md5", "info": None},
        {"op": "get_hashes", "route": "build_dir", "alg": "md5", "fs": [], "dry": True},
        {"op": "hash_file_w", "p": [1], "alg": "md5", "info": "fsspec", "route": "hash_file",
         "during": {"f": 1, "c": 9, "how": "replace"}},          # cached: the write strikes after the query
        {"op": "get_many", "items": [["p", [1]]], "infos": []},
        {"op": "touch", "f": 0},
        {"op": "hash_file_w", "p": [0], "alg": "sha256", "info": "fsspec", "route": "build_entry",
         "during": {"f": 0, "c": 2, "how": "replace"}},
        {"op": "get", "p": [0], "info": None}, {"op": "hash_file", "p": [0], "alg": "sha256", "info": "dvc"}]},
    # identical contents in ONE directory, followed in listing order by other files, staged for real (build() adds
    # the files to the object store), cold / warm / after writes: the staged tree gives every path ITS digest
    {"nfiles": 5, "ops": [
        {"op": "create", "f": 0, "c": 1}, {"op": "create", "f": 1, "c": 9}, {"op": "create", "f": 2, "c": 9},
        {"op": "create", "f": 3, "c": 5}, {"op": "create", "f": 4, "c": 1},
        {"op": "get_hashes", "route": "build_dir", "alg": "md5", "fs": [], "dry": False},
        {"op": "get_many", "items": [["p", [0]], ["p", [1]], ["p", [2]], ["p", [3]], ["p", [4]]], "infos": []},
        {"op": "hash_file", "p": [3], "alg": "md5", "info": None},
        {"op": "get_hashes", "route": "build_dir", "alg": "md5", "fs": [], "dry": False},
        {"op": "write", "f": 2, "c": 10, "mt": "tick"}, {"op": "write", "f": 3, "c": 9, "mt": "tick"},
        {"op": "get_hashes", "route": "build_dir", "alg": "md5", "fs": [], "dry": False, "pool": {"jobs": 2}},
        {"op": "get", "p": [4], "info": None}, {"op": "get_hashes", "route": "build_file", "alg": "md5", "fs": [3]},
        {"op": "get_hashes", "route": "build_dir", "alg": "md5", "fs": [], "dry": True}]},
    # foreign rows
    {"nfiles": 1, "ops": [
        {"op": "create", "f": 0, "c": 5},
        {"op": "foreign", "f": 0, "kind": "newer", "alg": "md5", "lie": True},
        {"op": "get", "p": [0], "info": None}, {"op": "hash_file", "p": [0], "alg": "md5", "info": None},
        {"op": "foreign", "f": 0, "kind": "otheralg", "alg": "sha256"},
        {"op": "get", "p": [0], "info": None}, {"op": "hash_file", "p": [0], "alg": "md5", "info": None},
        {"op": "foreign", "f": 0, "kind": "legacy", "alg": "md5"},
        {"op": "get", "p": [0], "info": None}, {"op": "hash_file", "p": [0], "alg": "md5", "info": None},
        {"op": "foreign", "f": 0, "kind": "legacy", "alg": "md5"},
        {"op": "hash_file", "p": [0], "alg": "md5-dos2unix", "info": None},
        {"op": "foreign", "f": 0, "kind": "garbage"}, {"op": "get", "p": [0], "info": None},
        {"op": "get_many", "items": [["p", [0]]], "infos": []},
        {"op": "memput", "f": 0, "c": 2}, {"op": "hash_file", "p": [0], "alg": "md5", "local": False},
        {"op": "get", "p": [0], "local": False}, {"op": "stsave", "f": 0, "alg": "md5", "local": False},
        {"op": "get", "p": [0], "info": None}]},
]

# outside Ticks, on purpose (the stated assumption of the property, see DESIGN C13 "Not a finding")
TOUCH_BACK = {"nfiles": 1, "expect_ticks": False, "probe": "touch-back", "ops": [
    {"op": "create", "f": 0, "c": 1, "fixed_ns": T0 + 5_000_000},
    {"op": "hash_file", "p": [0], "alg": "md5", "info": None},
    {"op": "write", "f": 0, "c": 2, "mt": "tick"},
    {"op": "touch", "f": 0, "back": "first"},
    {"op": "hash_file", "p": [0], "alg": "md5", "info": None}]}
# the mtime moves by 1 ns: below the resolution of the float st_mtime the implementation reads
SUB_RESOLUTION = {"nfiles": 1, "expect_ticks": False, "probe": "sub-resolution", "ops": [
    {"op": "create", "f": 0, "c": 1},
    {"op": "hash_file", "p": [0], "alg": "md5", "info": None},
    {"op": "rawwrite", "f": 0, "c": 2, "plus_ns": 1},
    {"op": "hash_file", "p": [0], "alg": "md5", "info": None}]}


# --------------------------------------------------------------------------------------
# validation of the translated units against the real functions (DESIGN 4.1), independent of the
# hand-written model: the generated definitions are evaluated directly


GEN_IMPORTS = """From Coq Require Import NArith List.
From DvcData Require Import Base.Val Base.PyBase Gen.PyTypes Model.StateDbBase.
From DvcData Require Gen.State Gen.IDiff.
Definition T := Build_token.
Definition enc_gen_hit (r : option (meta * hashinfo)) : val :=
  match r with
  | None => VL nil
  | Some (m, h) => VL (cons (enc_option VN (m_inode m)) (cons (enc_option VN (m_mtime m)) (cons (enc_option VN (m_size m))
                   (cons (enc_option VB (hi_name h)) (cons (enc_option VB (hi_value h)) nil)))))
  end.
Definition enc_gen_batched (r : option (list (list N))) : val :=
  match r with None => VL nil | Some b => VL (cons (VL (map (fun ch => VL (map VN ch)) b)) nil) end."""


def validate_units(ctx):  # noqa: C901, PLR0915
    from dvc_objects.fs.local import localfs

    from dvc_data.compat import batched
    from dvc_data.hashfile.meta import Meta
    from dvc_data.hashfile.state import State
    from dvc_data.index.diff import _diff_meta

    # ---- State._get: every validity decision
    base = ctx.fresh("c13-units")
    st = State(root_dir=base, tmp_dir=os.path.join(base, "state"))
    items = []
    try:
        tok0 = (77, 1700000000.25, 5)
        variants = [tok0, (78, tok0[1], 5), (77, 1700000000.5, 5), (77, tok0[1], 6)]
        rows = [None]    # not JSON
        for ver in (None, 0, 1, 2, 3):
            for hi in ({"md5": "aa"}, {"md5-dos2unix": "bb"}, {"sha256": "cc"}, {}):
                rows.append((ver, hi))
        for row in rows:
            for rtok in (variants if row is not None else variants[:1]):
                for itok in (variants[:2] if row is not None else variants[:1]):
                    info = {"ino": itok[0], "mtime": itok[1], "size": itok[2], "type": "file", "mode": 0o100644}
                    if row is None:
                        raw, rterm = "{not json", "None"
                    else:
                        ver, hi = row
                        entry = {"checksum": cks(*rtok), "size": rtok[2] + 100, "hash_info": hi}
                        if ver is not None:
                            entry["version"] = ver
                        raw = json.dumps(entry)
                        d = clist([f"({cbytes(k)}, PVStr {cbytes(v)})" for k, v in hi.items()])
                        rterm = (f"(Some (Gen.State.mk_srow [{rtok[0]}; {fbits(rtok[1])}; {rtok[2]}] {copt(ver, cN)} "
                                 f"{rtok[2] + 100} {d}))")
                    r = st._get(os.path.join(base, "x"), raw, info)
                    if r is None:
                        exp = vL([])
                    else:
                        m, h = r
                        exp = vL([vopt(m.inode, vN), vopt(None if m.mtime is None else fbits(m.mtime), vN),
                                  vopt(m.size, vN), vopt(h.name, vB), vopt(h.value, vB)])
                    ctx.count("unit:_get:" + ("miss" if r is None else "hit"))
                    items.append(({"unit": "State._get", "row": row, "row_token": list(rtok), "info_token": list(itok)},
                                  cpair(rterm, ctoken(itok)), exp))
    finally:
        st.close()
    ctx.correspond("unit_State_get", GEN_IMPORTS, "(option Gen.State.srow) * token",
                   "fun c => enc_gen_hit (Gen.State.State__get (fst c) (snd c))", items)

    # ---- _diff_meta (cmp_key None): presence x every attribute changed alone
    def mterm(m):
        if m is None:
            return "None"

        def o(x, f):
            return copt(x, f)
        return ("(Some (mk_meta " + " ".join([
            cbool(m.isdir), o(m.size, cN), o(m.nfiles, cN), cbool(m.isexec), o(m.version_id, cbytes), o(m.etag, cbytes),
            o(m.checksum, cbytes), o(m.md5, cbytes), o(m.inode, cN), o(None if m.mtime is None else fbits(m.mtime), cN),
            o(m.remote, cbytes), cbool(m.is_link), o(m.destination, cbytes), cN(m.nlink)]) + "))")

    def mk(**kw):
        d = {"isdir": False, "size": 3, "nfiles": None, "isexec": False, "version_id": None, "etag": None,
             "checksum": None, "md5": None, "inode": 9, "mtime": 1700000000.5, "remote": None, "is_link": False,
             "destination": None, "nlink": 1}
        d.update(kw)
        return Meta(**d)

    changes = [{}, {"isdir": True}, {"size": 4}, {"size": None}, {"nfiles": 2}, {"isexec": True}, {"version_id": "v"},
               {"etag": "e"}, {"checksum": "c"}, {"md5": "m"}, {"inode": 10}, {"inode": None}, {"mtime": 1700000000.75},
               {"mtime": None}, {"remote": "r"}, {"is_link": True}, {"destination": "d"}, {"nlink": 2}]
    pairs = [(None, None), (None, mk()), (mk(), None)]
    pairs += [(mk(), mk(**c)) for c in changes] + [(mk(**c), mk(**c)) for c in changes[1:]]
    items = []
    for a, b in pairs:
        got = _diff_meta(a, b)
        ctx.count("unit:_diff_meta:" + got)
        items.append(({"unit": "_diff_meta", "old": repr(a), "new": repr(b)}, cpair(mterm(a), mterm(b)), vB(got)))
    ctx.correspond("unit_diff_meta", GEN_IMPORTS, "(option meta) * (option meta)",
                   "fun c => VB (Gen.IDiff.ichange_str (Gen.IDiff.diff_meta (fst c) (snd c) None))", items)

    # ---- batched
    items = []
    for n in (0, 1, 2, 3, 5):
        for k in (0, 1, 2, 3, 4, 5, 6, 7, 11):
            try:
                got = [list(c) for c in batched(range(k), n)]
                exp = vL([vL([vL([vN(x) for x in c]) for c in got])])
            except ValueError:
                exp = vL([])
            items.append(({"unit": "batched", "n": n, "len": k},
                          cpair(f"{n}%nat", clist([str(x) for x in range(k)])), exp))
    ctx.correspond("unit_batched", GEN_IMPORTS, "nat * list N",
                   "fun c => enc_gen_batched (Gen.State.batched_gen (fst c) (snd c))", items)
    # the bypass guard is what the generated list says: a memory file system reads and writes nothing
    from dvc_objects.fs.memory import MemoryFileSystem

    from dvc_data.hashfile.hash_info import HashInfo

    base = ctx.fresh("c13-units2")
    st = State(root_dir=base, tmp_dir=os.path.join(base, "state"))
    try:
        mem = MemoryFileSystem(global_store=False)
        p = os.path.join(base, "f")
        mem.pipe_file(p, b"x")
        with open(p, "wb") as f:
            f.write(b"x")
        try:
            st.save(p, mem, HashInfo("md5", "0" * 32))
            st.save_many([(p, HashInfo("md5", "0" * 32), None)], mem)
            wrote = len(list(st.hashes)) != 0
            st.save(p, localfs, HashInfo("md5", digest("md5", b"x")))
            ok = (not wrote and st.get(p, mem) == (None, None) and list(st.get_many([p], mem, {})) == [(p, None, None)]
                  and st.get(p, localfs)[1] is not None)
        except Exception:  # noqa: BLE001  (a non-local file system has no inode: reaching the table raises)
            ok = False
    finally:
        st.close()
    ctx.obligation("oracle:nonlocal-bypass", ok, "save/save_many/get/get_many on a memory file system touch nothing")
    if not ok:
        ctx.oracle_fail("C13:foreign-hit:nonlocal", "State.save/get on a non-local file system read or wrote the table",
                        {"unit": "nonlocal-bypass"})


def run_history(ctx, case):
    r = Runner(ctx, case["nfiles"])
    try:
        first_ns = None
        for op in case["ops"]:
            op = dict(op)
            if op.get("back") == "first":
                op["back"] = first_ns
            try:
                r.do(op)
            except AssertionError:
                raise
            except Exception as exc:  # noqa: BLE001
                # a route of the implementation raised where the histories of the unchanged tree never do:
                # the concrete history is the failing input (no model comparison for the truncated run)
                r.fail(f"C13:route-raised:{op['op']}:{type(exc).__name__}",
                       f"operation {len(r.outs)} {op} raised {exc!r}")
                return None, None, list(r.problems), set(r.flags)
            if first_ns is None and op["op"] in ("create", "write") and op["f"] in r.content:
                first_ns = os.stat(r.path([op["f"]])).st_mtime_ns
        db = r.dump_db()
        expect_ticks = case.get("expect_ticks", True)
        inp = cpair(r.table(), clist(r.ops_terms))
        exp = vL([vbool(expect_ticks), vL(r.outs), db])
        return inp, exp, list(r.problems), set(r.flags)
    finally:
        r.close()


def nontrivial(flags):
    return bool(flags & {"hit-after-mutation", "inquery-write:between-hash-and-save",
                         "inquery-write:between-read-and-save(single)", "staging:nondry-duplicates", "batch>999", "index-update-copied", "carried-hash-current",
                         "staging:pool>=2-uncached", "symlink-target-rewritten", "symlink-target-replaced"}
                or any(f.startswith("foreign:") for f in flags))


# --------------------------------------------------------------------------------------
# stream "checkout": index checkout writes rows into the hash-state cache itself
# (index/checkout.py _create_files -> state.save_many) - a row writer other than hash_file.  The theorem
# C13_never_stale needs such rows to be truthful (tick_ok of StSave / SaveForeign); this stream checks that
# obligation on the real code: after apply(), every cached answer for every path under the workspace equals the
# cache-less recomputation at the same instant, also where a transfer failed (source object missing) or was
# skipped (hardlink / symlink onto an existing destination) and an OLDER file is still at the destination.

CO_SIG_FAILED = "C13:stale-hit:checkout-recorded-failed-transfer"
CO_SIG_SKIPPED = "C13:stale-hit:checkout-recorded-skipped-existing-destination"
CO_CONTENTS = [b"AAA", b"BBB", b"CCC", b"old", b"OLD", b"a\r\nb", b"a\nb\n", b"DDDD", b"x", b"y", b"a\r\nc"]
CO_FILE_KEYS = ["a", "b", "c", "d/x", "d/y", "e/f/g"]
CO_TREE_KEYS = ["t", "d/t2"]
CO_SUBS = ["p", "q", "r/s", "r/u"]


def gen_checkout(ctx):
    rng = ctx.rng
    nc = len(CO_CONTENTS)
    files = {k: rng.randrange(nc) for k in rng.sample(CO_FILE_KEYS, rng.choice([1, 2, 3, 4]))}
    trees = {}
    for k in rng.sample(CO_TREE_KEYS, rng.choice([0, 0, 1, 1, 2])):
        trees[k] = {sub: rng.randrange(nc) for sub in rng.sample(CO_SUBS, rng.choice([1, 2, 3]))}
    dests = list(files) + [f"{k}/{sub}" for k, t in trees.items() for sub in t]
    want = {**files, **{f"{k}/{sub}": c for k, t in trees.items() for sub, c in t.items()}}
    prior = {}
    for d in dests:
        if rng.random() < 0.55:
            # an untracked file already at a target path: other bytes, often of the same size
            c = rng.randrange(nc)
            if rng.random() < 0.6:
                same = [i for i, b in enumerate(CO_CONTENTS) if len(b) == len(CO_CONTENTS[want[d]]) and i != want[d]]
                c = rng.choice(same) if same else c
            prior[d] = c
    for u in rng.sample(["u1", "d/u2", "t/zz"], rng.choice([0, 1, 2])):
        prior[u] = rng.randrange(nc)
    used = sorted(set(want.values()))
    missing = [c for c in used if rng.random() < 0.4]
    return {"stream": "checkout", "link": rng.choice(["copy", "hardlink", "symlink"]), "update_meta": rng.random() < 0.5,
            "files": files, "trees": trees, "prior": prior, "missing": missing,
            "missing_trees": [k for k in trees if rng.random() < 0.12],
            "old": rng.choice(["none", "none", "ws"]), "delete": rng.random() < 0.3,
            "post": [d for d in dests if rng.random() < 0.3], "retry": rng.random() < 0.4}


CO_CORPUS = [
    # the repaired defect (/repo 7f1ddd3): compare(None, target) over a workspace with an untracked file at a
    # target path whose source object is missing from the cache
    *[{"stream": "checkout", "link": link, "update_meta": um, "files": {"a": 0, "b": 1, "d/x": 2},
       "trees": {"t": {"p": 7, "r/s": 0}}, "prior": {"b": 4, "t/p": 2, "u1": 3}, "missing": [1, 7],
       "missing_trees": [], "old": "none", "delete": False, "post": ["b"], "retry": True}
      for link in ("copy", "hardlink", "symlink") for um in (False, True)],
    # the repaired defect (/repo 4a7cf27): hardlink / symlink onto an existing destination is skipped silently
    *[{"stream": "checkout", "link": link, "update_meta": um, "files": {"a": 0, "c": 2},
       "trees": {"t": {"q": 1}}, "prior": {"a": 3, "t/q": 4}, "missing": [], "missing_trees": [],
       "old": "none", "delete": False, "post": [], "retry": True}
      for link in ("hardlink", "symlink") for um in (False, True)],
]


def run_checkout(ctx, case):  # noqa: C901, PLR0912, PLR0915
    """one checkout history on the real code; returns (problems [(signature, what)], flags)"""
    from dvc_objects.fs.local import localfs

    from dvc_data.hashfile.hash import hash_file
    from dvc_data.hashfile.hash_info import HashInfo
    from dvc_data.hashfile.meta import Meta
    from dvc_data.hashfile.state import State
    from dvc_data.index import DataIndex, DataIndexEntry, FileStorage, ObjectStorage
    from dvc_data.index.build import build_entries
    from dvc_data.index.checkout import apply, compare
    from lib import impl

    root = ctx.fresh("c13-co")
    ws = os.path.join(root, "ws")
    os.makedirs(ws)
    link = case["link"]
    odb = impl.local_odb(os.path.join(root, "cache"), type=[link])
    os.makedirs(odb.path, exist_ok=True)
    problems, flags = [], set()
    clock = [T0]

    def put(path, data):
        os.makedirs(os.path.dirname(path), exist_ok=True)
        tmp = os.path.join(root, "tmpw")
        with open(tmp, "wb") as f:
            f.write(data)
        clock[0] += 1_000_000_007
        os.utime(tmp, ns=(T0, clock[0]))
        if os.path.lexists(path):
            os.unlink(path)
        os.replace(tmp, path)

    def plant(data):
        oid = impl.md5hex(data)
        if not os.path.exists(odb.oid_to_path(oid)):
            impl.plant(odb.path, oid, data)
        return oid

    def build_target():
        new = DataIndex()
        for rel, ci in case["files"].items():
            k = tuple(rel.split("/"))
            new[k] = DataIndexEntry(key=k, meta=Meta(), hash_info=HashInfo("md5", plant(CO_CONTENTS[ci])))
        for rel, tree in case["trees"].items():
            k = tuple(rel.split("/"))
            lst = [(sub, plant(CO_CONTENTS[ci])) for sub, ci in tree.items()]
            doid = impl.dir_oid(lst)
            if not os.path.exists(odb.oid_to_path(doid)):
                impl.plant(odb.path, doid, impl.canon_listing(lst))
            treeoids[rel] = doid
            new[k] = DataIndexEntry(key=k, meta=Meta(isdir=True), hash_info=HashInfo("md5", doid))
        new.storage_map.add_cache(ObjectStorage((), odb))
        new.onerror = lambda entry, exc: flags.add("unloadable-directory-object")
        return new

    treeoids = {}
    new = build_target()
    removed = {}
    for ci in case["missing"]:
        pth = odb.oid_to_path(impl.md5hex(CO_CONTENTS[ci]))
        if os.path.exists(pth):
            os.chmod(pth, 0o644)
            os.unlink(pth)
            removed[pth] = CO_CONTENTS[ci]
    for rel in case["missing_trees"]:
        pth = odb.oid_to_path(treeoids[rel])
        if os.path.exists(pth):
            with open(pth, "rb") as f:
                removed[pth] = f.read()
            os.chmod(pth, 0o644)
            os.unlink(pth)
    for rel, ci in case["prior"].items():
        put(os.path.join(ws, *rel.split("/")), CO_CONTENTS[ci])
    prior_bytes = {os.path.join(ws, *rel.split("/")): CO_CONTENTS[ci] for rel, ci in case["prior"].items()}
    st = State(root_dir=ws, tmp_dir=os.path.join(root, "state"))
    reported = set()

    def onerror(src, dest, exc):
        reported.add(dest)

    def ws_files():
        out = {}
        for dp, _, fns in os.walk(ws):
            for fn in fns:
                pth = os.path.join(dp, fn)
                try:
                    with open(pth, "rb") as f:
                        out[pth] = f.read()
                except OSError:
                    pass        # a dangling link has no bytes: nothing can be claimed about it
        return out

    def sig_for(pth, data):
        if pth in reported:
            return CO_SIG_FAILED
        if link != "copy" and prior_bytes.get(pth) == data:
            return CO_SIG_SKIPPED
        return CO_SIG_FAILED

    def bad(route, pth, name, val, data):
        rel = os.path.relpath(pth, ws)
        problems.append((sig_for(pth, data),
                         f"after index checkout ({link}, update_meta={case['update_meta']}): {route} answered "
                         f"{name}:{val} for {rel}, whose bytes {data!r} hash to "
                         f"{digest(name, data) if name in ALGS else '?'}"
                         + (" (its transfer was reported through onerror)" if pth in reported else "")))

    def judge(label):
        cur = ws_files()
        paths = sorted(cur)
        ask = paths + [os.path.join(ws, "nosuch")]
        for pth, meta, hi in st.get_many(ask, localfs, {}):
            if hi is None and meta is None:
                continue
            flags.add("row-served:" + label)
            if pth not in cur or hi.name not in ALGS or hi.value != digest(hi.name, cur[pth]):
                bad(f"{label}: State.get_many", pth, hi.name, hi.value, cur.get(pth, b""))
        for pth in paths:
            meta, hi = st.get(pth, localfs)
            if hi is not None and (hi.name not in ALGS or hi.value != digest(hi.name, cur[pth])):
                bad(f"{label}: State.get", pth, hi.name, hi.value, cur[pth])
        for alg in ("md5", "md5-dos2unix", "sha256", "md5"):
            for pth in paths:
                _, hi = hash_file(pth, localfs, alg, state=st)
                if hi.name != alg or hi.value != digest(alg, cur[pth]):
                    bad(f"{label}: hash_file({alg})", pth, hi.name, hi.value, cur[pth])
        for pth, meta, hi in st.get_many(paths, localfs, {pth: localfs.info(pth) for pth in paths[::2]}):
            if hi is not None and (hi.name not in ALGS or hi.value != digest(hi.name, cur[pth])):
                bad(f"{label}: State.get_many (2)", pth, hi.name, hi.value, cur[pth])

    def judge_index(index, label):
        """update_meta: every (meta, hash) pair left in the index is consistent with the file, or makes no claim"""
        try:
            ents = list(index.iteritems())
        except Exception:  # noqa: BLE001  (an unloadable directory object)
            return
        for key, e in ents:
            hi, m = e.hash_info, e.meta
            if hi is None or not hi.value or hi.value.endswith(".dir") or m is None or m.isdir:
                continue
            pth = os.path.join(ws, *key)
            try:
                stt = os.stat(pth)
                with open(pth, "rb") as f:
                    data = f.read()
            except OSError:
                continue
            if (m.inode, m.mtime, m.size) == (stt.st_ino, stt.st_mtime, stt.st_size):
                flags.add("index-meta-is-file-stat")
                if hi.name not in ALGS or hi.value != digest(hi.name, data):
                    problems.append((sig_for(pth, data),
                                     f"{label}: the index pairs {hi.name}:{hi.value} with the stat of "
                                     f"{os.path.relpath(pth, ws)}, whose bytes {data!r} hash to "
                                     f"{digest(hi.name, data) if hi.name in ALGS else '?'}"))

    def checkout(index, label):
        old = None
        if case["old"] == "ws":
            old = DataIndex()
            old.storage_map.add_data(FileStorage(key=(), fs=localfs, path=ws))
            for entry in build_entries(ws, localfs, compute_hash=True, state=st):
                old.add(entry)
        before = ws_files()
        try:
            diff = compare(old, index, delete=case["delete"])
            apply(diff, ws, localfs, onerror=onerror, update_meta=case["update_meta"], state=st, links=[link])
        except Exception as exc:  # noqa: BLE001  (kind conflicts etc. are C09's business; the cache must still be right)
            flags.add("apply-raised:" + type(exc).__name__)
        after = ws_files()
        for pth in reported:
            if pth in after and after[pth] == before.get(pth):
                flags.add("failed-transfer-over-older-file")
        if link != "copy" and any(pth in prior_bytes and after.get(pth) == prior_bytes[pth] and pth not in reported
                                  for pth in after):
            flags.add("linking-skipped-existing-destination")
        judge(label)
        if case["update_meta"]:
            judge_index(index, label)

    try:
        checkout(new, "checkout")
        # writes after the checkout: the rows it recorded must not outlive the bytes
        for rel in case["post"]:
            pth = os.path.join(ws, *rel.split("/"))
            if os.path.isfile(pth):
                with open(pth, "rb") as f:
                    data = f.read()
                twin = [b for b in CO_CONTENTS if len(b) == len(data) and b != data]
                put(pth, twin[0] if twin else data + b"!")
                flags.add("post-write")
        if case["post"]:
            judge("after writes")
        if case["retry"]:
            # the missing objects have arrived: the same history again, same State, a fresh target index
            for pth, data in removed.items():
                impl.plant(odb.path, os.path.basename(os.path.dirname(pth)) + os.path.basename(pth), data)
            reported.clear()
            prior_bytes.update(ws_files())
            checkout(build_target(), "second checkout")
    finally:
        st.close()
    return problems, flags


def run_checkout_stream(ctx):
    cases = list(CO_CORPUS) + [gen_checkout(ctx) for _ in range(ctx.n(24, 300))]
    nprob = 0
    for case in cases:
        try:
            problems, flags = run_checkout(ctx, case)
        except Exception as exc:  # noqa: BLE001
            problems, flags = [(f"C13:route-raised:checkout:{type(exc).__name__}", f"checkout stream raised {exc!r}")], set()
        ctx.case(case, bool(flags & {"failed-transfer-over-older-file", "linking-skipped-existing-destination",
                                     "row-served:checkout", "post-write"}))
        ctx.count("checkout:cases")
        ctx.count("checkout:link:" + case["link"])
        for fl in sorted(flags):
            ctx.count("checkout:" + fl)
        seen = set()
        for sig, what in problems:
            nprob += 1
            if sig not in seen:
                seen.add(sig)
                ctx.oracle_fail(sig, what, case)
    ctx.obligation("oracle:checkout-rows-truthful", nprob == 0,
                   f"{len(cases)} index checkouts with a real State (copy/hardlink/symlink, update_meta on/off, missing "
                   "sources, pre-existing files): every cached answer (get_many, get, hash_file x md5/md5-dos2unix/sha256) "
                   "for every path under the workspace equals hashlib on the current bytes; index (meta, hash) pairs consistent")


def run(ctx):
    from props import _c13_audit

    audit = _c13_audit.run_audit(ctx)
    run_checkout_stream(ctx)
    items = []
    # 1. corpus + stored regression cases
    corpus = list(CORPUS)
    cdir = os.path.join(os.path.dirname(os.path.dirname(os.path.dirname(os.path.abspath(__file__)))), "corpus", "C13")
    if os.path.isdir(cdir):
        for fn in sorted(os.listdir(cdir)):
            if fn.endswith(".json"):
                with open(os.path.join(cdir, fn)) as f:
                    corpus.append(json.load(f))
    # 2. generated histories; batches across the 999 boundary
    gen = []
    if ctx.tier == "quick":
        bigs = [ctx.rng.choice([999, 1000, 1001]), ctx.rng.choice([998, 1998, 2001])]
        n_small = ctx.n(40, 400)
    else:
        bigs = [0, 1, 998, 999, 1000, 1001, 1997, 1998, 1999, 2000, 2001, 2997, 3000, 3000]
        n_small = ctx.n(70, 400)
    for b in bigs:
        gen.append(gen_history(ctx, big=b))
    for _ in range(n_small):
        gen.append(gen_history(ctx))
    n_problem = 0
    for case in corpus + gen:
        inp, exp, problems, flags = run_history(ctx, case)
        ctx.case(case, nontrivial(flags))
        ctx.count("histories")
        for fl in sorted(flags):
            ctx.count("flag:" + fl)
        for sig, what in problems:
            n_problem += 1
            ctx.oracle_fail(sig, what, case)
        if inp is not None:
            items.append((case, inp, exp))
    ctx.obligation("oracle:never-stale", n_problem == 0,
                   f"{len(items)} histories; every answer of every route compared with a hashlib recomputation at the same instant")
    # 3. the two probes at the edge of the environment hypothesis
    probes = {}
    for case in (TOUCH_BACK, SUB_RESOLUTION):
        inp, exp, problems, flags = run_history(ctx, case)
        stale = [p for p in problems if p[0].startswith("C13:stale")]
        probes[case["probe"]] = {"stale_answer_observed": bool(stale), "what": [w for _, w in stale][:1]}
        if inp is not None:
            items.append((case, inp, exp))
        if case["probe"] == "sub-resolution" and stale and SUBRES_SIG in ctx.known:
            ctx.oracle_fail(SUBRES_SIG, stale[0][1], case)
    probes.update(audit.probes)
    ctx.extra["assumption_probes"] = probes
    # what this run actually exercised (tools/COVERAGE_AUDIT.md): dimension -> number of cases that had it
    dims = dict(audit.dims)
    for k, v in ctx.dist.items():
        if k.startswith(("flag:", "batch:", "checkout:", "unit:")) or k in ("op:stsave", "op:hash_file_w", "op:mklink"):
            dims["histories:" + k if not k.startswith("checkout:") else k] = v
    ctx.extra["input_dimensions"] = dims
    ctx.obligation("probe:touch-back-is-outside-Ticks", probes["touch-back"]["stale_answer_observed"],
                   "a touch back to the recorded mtime (same size, inode) is served from the cache: the model rejects "
                   "the history (ticks_b = false) and reproduces the stale answer; stated assumption, not a finding")
    ctx.obligation("probe:mtime-resolution", True,
                   "mtime + 1 ns, same size and inode: "
                   + ("stale answer observed - the float st_mtime does not change, the token is not new (outside Ticks as "
                      "observed by the implementation)" if probes["sub-resolution"]["stale_answer_observed"]
                      else "no stale answer"))
    validate_units(ctx)
    ctx.correspond("history", IMPORTS, "(list (name * bytes * oid)) * list op",
                   "fun c => enc_run (tableH (fst c)) (snd c)", items, shard=ctx.n(12, 40))


def replay_case(ctx, case):
    if case.get("stream") == "checkout":
        problems, flags = run_checkout(ctx, case)
        return {"problems": problems, "flags": sorted(flags), "violates": bool(problems)}
    inp, exp, problems, flags = run_history(ctx, case)
    return {"problems": problems, "flags": sorted(flags), "violates": bool(problems)}
