"""C05, entries that change their kind (oracle only): the tracked path is a FILE in the workspace and a
directory in the target (a Tree), or a DIRECTORY in the workspace and a file in the target.  The model covers
kind-agreeing workspaces; here only the property itself is judged on the real run: whatever the call does -
on the current code a file in the way of a directory makes makedirs raise FileExistsError, which loses
nothing and is NOT an alarm - an unforced, unprompted checkout must not lose bytes that are in no cache
object."""

from __future__ import annotations

import hashlib
import os

from lib import impl

A, B, USER = b"cached version A\n", b"cached version B, longer\n", b"user bytes that exist nowhere else\n"


def md5(b):
    return hashlib.md5(b).hexdigest()  # noqa: S324


def gen_kind_cases():
    out = []
    for direction in ("file2dir", "dir2file", "dir2empty"):
        for cls in ("local", "base"):
            for ty in ("copy", "hardlink", "symlink"):
                for uncached in (True, False):
                    for dir_cached in (True, False):
                        for relink in (False, True):
                            for pm in ("none", "no"):
                                out.append({"kind_change": direction, "cls": cls, "types": [ty], "uncached": uncached,
                                            "dir_object_cached": dir_cached, "relink": relink, "prompt": pm})
    return out


def _files(root):
    out = {}
    for r, _, fs in os.walk(root):
        for n in fs:
            p = os.path.join(r, n)
            try:
                with open(p, "rb") as f:
                    out[os.path.relpath(p, root)] = f.read()
            except FileNotFoundError:
                pass
    return out


def run_kind_case(ctx, case):
    import dvc_data.hashfile.checkout as co
    from dvc_objects.fs.local import localfs

    from dvc_data.hashfile.hash_info import HashInfo
    from dvc_data.hashfile.meta import Meta
    from dvc_data.hashfile.tree import Tree

    root = ctx.fresh("kind")
    cache, wsd = os.path.join(root, "cache"), os.path.join(root, "ws")
    os.makedirs(cache)
    os.makedirs(wsd)
    for b in (A, B):
        impl.plant(cache, md5(b), b)
    odb = impl.make_odb(case["cls"], cache, type=list(case["types"]))

    def tree(d, plant):
        tr = Tree()
        for rel, b in sorted(d.items()):
            tr.add(tuple(rel.split("/")), Meta(size=len(b)), HashInfo("md5", md5(b)))
        tr.digest()
        if plant:
            impl.plant(cache, tr.hash_info.value, tr.as_bytes())
        return tr

    path = os.path.join(wsd, "data")
    mine = USER if case["uncached"] else A
    if case["kind_change"] == "file2dir":
        with open(path, "wb") as f:
            f.write(mine)
        obj = tree({"a": A, "sub/c": B}, case["dir_object_cached"])
    elif case["kind_change"] == "dir2empty":
        # the target is the EMPTY directory (oid d751713988987e9331980363e24189ce.dir): every entry and ROOT are deleted
        os.makedirs(os.path.join(path, "sub"))
        old = {"x": A, "sub/y": mine, "z": A}
        for rel, b in old.items():
            with open(os.path.join(path, *rel.split("/")), "wb") as f:
                f.write(b)
        tree(old, case["dir_object_cached"])
        obj = tree({}, False)
    else:
        os.makedirs(os.path.join(path, "sub"))
        old = {"x": A, "sub/y": mine}
        for rel, b in old.items():
            with open(os.path.join(path, *rel.split("/")), "wb") as f:
                f.write(b)
        tree(old, case["dir_object_cached"])           # the .dir object of the workspace's own tree
        obj = odb.get(md5(B))
    before = _files(wsd)
    cbefore = {o: v[0] for o, v in impl.walk_store(cache).items()}
    try:
        r = co.checkout(path, localfs, obj, odb, force=False, relink=case["relink"], quiet=True,
                        prompt=None if case["prompt"] == "none" else (lambda msg: False))
        out = "returned " + repr(r)
    except Exception as exc:  # noqa: BLE001
        out = type(exc).__name__
    after = _files(wsd)
    problems = []
    for rel, b in before.items():
        if after.get(rel) == b:
            continue
        if cbefore.get(md5(b)) == b:
            continue
        problems.append(("C05:unrecoverable-lost:kind-change",
                         f"{case['kind_change']}: '{rel}' held {b[:40]!r} (in no cache object); the unforced, unprompted checkout "
                         f"({out}) left {after.get(rel)!r} there"))
    impl.rm_rf(root)
    return problems, out


def run_kinds(ctx, n):
    cases = gen_kind_cases()
    fixed = [c for c in cases if c["uncached"] and c["dir_object_cached"] and c["prompt"] == "none" and not c["relink"]
             and (c["cls"], c["types"][0]) in (("local", "copy"), ("base", "symlink"))]   # 2 per direction
    rest = [c for c in cases if c not in fixed]
    chosen = fixed + (rest if n >= len(rest) else ctx.rng.sample(rest, n))
    for case in chosen:
        problems, out = run_kind_case(ctx, case)
        ctx.case(case, True)
        ctx.count("kind-change:" + case["kind_change"] + ":" + out.split(" ")[0])
        dd = ctx.extra.setdefault("input_dimensions", {})
        for d in ("ws:" + {"file2dir": "file-where-directory-wanted", "dir2file": "directory-where-file-wanted",
                           "dir2empty": "target-is-the-empty-directory"}[case["kind_change"]],):
            dd[d] = dd.get(d, 0) + 1
        for sig, what in problems:
            ctx.oracle_fail(sig, what, case)
    ctx.obligation("oracle:kind-change-no-loss",
                   not any(v.kind == "oracle" and v.signature.startswith("C05:unrecoverable-lost:kind-change") for v in ctx.violations),
                   f"{len(chosen)} unforced checkouts over a path that changes kind (file <-> directory) judged by the oracle only")


def run_large_files(ctx):
    """ONE fixed case: three files above the 1 MiB large-file threshold of build._build_files (hashed by the thread
    pool), of different sizes, the FIRST-LISTED one the largest and the user's uncached data; the others cached.  An
    unforced checkout of small cached versions must refuse and leave the user's file (its hash must be its own)."""
    import dvc_data.hashfile.checkout as co
    from dvc_objects.fs.local import localfs

    from dvc_data.hashfile.hash_info import HashInfo
    from dvc_data.hashfile.meta import Meta
    from dvc_data.hashfile.tree import Tree

    root = ctx.fresh("large")
    cache, wsd = os.path.join(root, "cache"), os.path.join(root, "ws", "data")
    os.makedirs(cache)
    os.makedirs(wsd)
    names = ["big-one.bin", "big-two.bin", "big-three.bin"]
    for n in names:
        open(os.path.join(wsd, n), "wb").close()
    listed = [n for _, _, fs in localfs.walk(wsd) for n in fs]          # the order build() lists them in
    sizes = [6 * 2**20, 2 * 2**20, 2**20 + 2**17]
    blobs = {}
    for i, n in enumerate(listed):
        blobs[n] = (b"%d-" % i) * 3 + bytes([65 + i]) * sizes[i]
        with open(os.path.join(wsd, n), "wb") as f:
            f.write(blobs[n])
    user = listed[0]                                                    # the largest, first-listed: the user's data
    for n in listed[1:]:
        impl.plant(cache, md5(blobs[n]), blobs[n])
    for b in (A, B):
        impl.plant(cache, md5(b), b)
    odb = impl.make_odb("local", cache, type=["copy"])
    tr = Tree()
    for n in sorted(names):
        tr.add((n,), Meta(size=len(A)), HashInfo("md5", md5(A)))
    tr.digest()
    try:
        r = co.checkout(wsd, localfs, tr, odb, force=False, quiet=True)
        out = "returned " + repr(r)
    except Exception as exc:  # noqa: BLE001
        out = type(exc).__name__
    try:
        with open(os.path.join(wsd, user), "rb") as f:
            kept = f.read() == blobs[user]
    except FileNotFoundError:
        kept = False
    case = {"large_files": True, "listed": listed, "sizes": sizes, "uncached": user}
    ctx.case(case, True)
    dd = ctx.extra.setdefault("input_dimensions", {})
    dd["ws:files-above-the-large-file-threshold"] = dd.get("ws:files-above-the-large-file-threshold", 0) + 1
    if not kept:
        ctx.oracle_fail("C05:unrecoverable-lost:large-files",
                        f"'{user}' ({sizes[0]} bytes, in no cache object, hashed by the large-file pool next to cached files of "
                        f"{sizes[1]} and {sizes[2]} bytes) did not survive an unforced, unprompted checkout ({out})", case)
    ctx.obligation("oracle:large-file-pool-no-loss", kept, f"1 workspace with three files above the large-file threshold ({out})")
    impl.rm_rf(root)
