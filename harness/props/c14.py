"""C14 - hashing is correct, chunking-independent, and a faithful pass-through.

Real code driven: get_hash_stream / HashStreamFile.read / Dos2UnixHashStreamFile.read (explicit
read-size sequences over a file object whose short reads are imposed by the harness), fobj_md5
(the chunked driver), hash_file / file_md5 on real files, istextblock, dos2unix.

Observation without repository hooks: `hash.get_hasher` is wrapped in the harness process so that
every hasher records what it is fed, and the two `read` methods are wrapped so that every chunk
handed on is seen.  The model (Gen/Hash.v generated from the current source + Model/HashStream.v)
is evaluated by vm_compute inside coqc on the same inputs; the oracle below uses nothing but
hashlib / blake3 and integer arithmetic.
"""

import contextlib
import hashlib
import os

from lib import impl
from lib.core import cbytes, clist, vB, vL, vN, vbool

PROPERTY = "C14"
GEN = ["hash"]
RULE = (
    "contents: styles text / CRLF text / binary / mixed (CR, LF, NUL, high bytes) / lone CR and CR CR LF / "
    "binary head followed by CRLF text / non-text ratio at the 30% threshold, lengths 0,1,2, around the "
    "512-byte sniffing window, around the read size and multiples of it; HISTORIES on one stream object "
    "(made by get_hash_stream, HashStreamFile or Dos2UnixHashStreamFile directly): read sizes drawn from "
    "-1, 0, 1, 2, 7, 511, 512, 513, 1024, 4096 (plain streams) and >=512 with an occasional <512 (legacy "
    "stream) interleaved with 0-3 queries of hash_value/total_read at random points, every intermediate "
    "answer judged against hashlib over the bytes handed out so far; short reads of the underlying file "
    "imposed by a cut oracle; algorithm names = every fixed-length algorithm of this interpreter's "
    "hashlib.algorithms_available (incl. the ones only hashlib.new resolves: md5-sha1, sha512_224, sm3, "
    "ripemd160, ...; shake_* skipped), i.e. md5, sha1, "
    "sha224..sha512, sha3, blake2, sha512_256, blake3, md5-dos2unix in exact, upper, capitalised and "
    "mixed-case spellings; LF/CRLF twins; real files through hash_file incl. files of 2^20 +- 1 bytes. "
    "A case is non-trivial when the content is non-empty and it was read in >= 2 chunks or through the "
    "legacy normalising stream or decided at the sniffing threshold."
)
ASSUMPTIONS = [
    "hashlib / blake3 contract: update appends, hexdigest is a function of everything fed (the digest "
    "is abstract in the theorems; the harness checks hexdigest == reference(fed) on every run)",
    "fobj.read(n): n<0 -> everything left; n>=0 -> at most n bytes, empty only when n == 0 or at end "
    "of file (io.RawIOBase contract; short reads are imposed by the harness' cut oracle)",
    "algorithm names are ASCII (str.lower = ASCII lower-casing); shake_* (variable-length digests) "
    "are not supported algorithms",
    "'binary content' for the legacy stream is judged on the first 512 bytes of the whole content "
    "(the istextfile definition), 'text file that fits in one read' on a single read of the whole file",
    "the legacy stream's total_read counts the bytes *hashed* (len(data)); the counting clause of the "
    "property is checked for the plain stream, the legacy counter only by correspondence",
]

IMPORTS = ("From Coq Require Import NArith ZArith List.\n"
           "From DvcData Require Import Base.Val Base.PyBase Base.PyStream Gen.Hash Model.HashStream.")
IMPORTS_MD5 = IMPORTS + "\nFrom DvcData Require Import Proofs.HashStreamMD5."

TEXT = frozenset(range(32, 127)) | {10, 13, 9, 12, 8}
D2U = "md5-dos2unix"
# the algorithm pool is asked of this interpreter's hashlib itself (not of dvc_data): every name in
# hashlib.algorithms_available that hashlib.new can construct with a fixed-length digest and that
# reports itself under that name (shake_* need a length and are skipped), plus blake3 and the
# legacy name.  FALLBACK = the names hashlib has no constructor attribute for (md5-sha1,
# sha512_224, sm3, ...): get_hasher reaches them only through its hashlib.new fallback.


def _hashlib_pool():
    pool = []
    for a in sorted(hashlib.algorithms_available):
        try:
            h = hashlib.new(a)
            if h.name == a and a == a.lower() and len(h.hexdigest()) > 0:
                pool.append(a)
        except (TypeError, ValueError):
            continue
    return pool


PLAIN = _hashlib_pool()
FALLBACK = [a for a in PLAIN if not hasattr(hashlib, a)]
ALGS = PLAIN + ["blake3", D2U]


# ------------------------------------------------------------------------------------------
# independent reference (nothing from dvc_data)


def ref_istext(block: bytes) -> bool:
    if not block:
        return True
    if 0 in block:
        return False
    k = sum(1 for c in block if c not in TEXT)
    return 10 * k <= 3 * len(block)


def ref_dos2unix(b: bytes) -> bytes:
    out = bytearray()
    i = 0
    while i < len(b):
        if b[i] == 13 and i + 1 < len(b) and b[i + 1] == 10:
            out.append(10)
            i += 2
        else:
            out.append(b[i])
            i += 1
    return bytes(out)


def ref_unix2dos(b: bytes) -> bytes:
    out = bytearray()
    for c in b:
        if c == 10:
            out += b"\r\n"
        else:
            out.append(c)
    return bytes(out)


def ref_digest(name: str, data: bytes) -> str:
    low = name.lower()
    if low == "blake3":
        import blake3

        return blake3.blake3(data).hexdigest()
    if low == D2U:
        low = "md5"
    return hashlib.new(low, data).hexdigest()


def legacy_expected(content: bytes) -> str:
    """reference digest of the legacy text-normalising MD5 for a file that fits in one read"""
    return hashlib.md5(ref_dos2unix(content) if ref_istext(content[:512]) else content).hexdigest()  # noqa: S324


# ------------------------------------------------------------------------------------------
# driving and observing the real code


class CutFile:
    """binary file object with a short-read oracle - the rule of Base/PyStream.v fobj_read"""

    def __init__(self, content: bytes, cuts):
        self.rest = bytes(content)
        self.cuts = list(cuts)
        self.pos = 0
        self.log = []
        self.limit = len(self.rest) + 16  # a consumer that never stops is cut off deterministically

    def read(self, n=-1):
        if len(self.log) >= self.limit:
            raise RuntimeError("runaway consumer: more reads than bytes")
        if n is None or n < 0:
            out, self.rest = self.rest, b""
        else:
            cut = n
            if self.cuts:
                cut = min(n, max(1, self.cuts.pop(0)))
            out, self.rest = self.rest[:cut], self.rest[cut:]
        self.pos += len(out)
        self.log.append(out)
        return out

    def tell(self):
        return self.pos


class LogFile:
    """thin logging proxy around a real file object (BytesIO, buffered / unbuffered disk file):
    forwards read, records what was returned, cuts off a runaway consumer"""

    def __init__(self, inner, size):
        self.inner = inner
        self.log = []
        self.limit = size + 16

    def read(self, *a):
        if len(self.log) >= self.limit:
            raise RuntimeError("runaway consumer: more reads than bytes")
        out = self.inner.read(*a)
        self.log.append(out)
        return out

    def tell(self):
        return self.inner.tell()

    @property
    def rest(self):
        return self.inner.read()


_SCRATCH = [None]


def make_fobj(case, content):
    """the file object of a reads / drive case: 'cut' (default; short reads imposed), 'bytesio',
    'file' (buffered disk file), 'rawfile' (unbuffered disk file).  Only 'cut' has a cut oracle."""
    import io
    import tempfile

    kind = case.get("fobj", "cut")
    if kind == "cut":
        return CutFile(content, case["cuts"])
    assert not case["cuts"], "only the cut file object takes a short-read oracle"
    if kind == "bytesio":
        return LogFile(io.BytesIO(content), len(content))
    fd, path = tempfile.mkstemp(prefix="c14-", dir=_SCRATCH[0])
    with os.fdopen(fd, "wb") as fh:
        fh.write(content)
    inner = open(path, "rb") if kind == "file" else open(path, "rb", buffering=0)  # noqa: SIM115
    os.unlink(path)
    return LogFile(inner, len(content))


def close_fobj(f):
    inner = getattr(f, "inner", None)
    if inner is not None:
        inner.close()


class RecHasher:
    def __init__(self, inner):
        self.inner = inner
        self.fed = bytearray()

    def update(self, data):
        self.fed += bytes(data)
        self.inner.update(data)

    def hexdigest(self):
        return self.inner.hexdigest()

    def digest(self):
        return self.inner.digest()

    @property
    def name(self):
        return self.inner.name


@contextlib.contextmanager
def observed():
    import dvc_data.hashfile.hash as H

    rec = {"hashers": [], "chunks": [], "streams": []}
    orig = H.get_hasher

    def get_hasher(name):
        r = RecHasher(orig(name))
        rec["hashers"].append(r)
        return r

    H.get_hasher = get_hasher
    saved = {}

    def wrap(o):
        def read(self, *a, **k):
            if not rec["streams"] or rec["streams"][-1] is not self:
                rec["streams"].append(self)
            out = o(self, *a, **k)
            rec["chunks"].append(out)
            return out

        return read

    for cls in (H.HashStreamFile, H.Dos2UnixHashStreamFile):
        if "read" in cls.__dict__:
            saved[cls] = cls.__dict__["read"]
            cls.read = wrap(saved[cls])
    try:
        yield rec
    finally:
        H.get_hasher = orig
        for cls, o in saved.items():
            cls.read = o


def content_of(case) -> bytes:
    if "content" in case:
        return bytes.fromhex(case["content"])
    sp = case["spec"]  # big contents are stored as a recipe: [[hex, repeat], ...]
    return b"".join(bytes.fromhex(h) * k for h, k in sp)


def ops_of(case):
    """the history of a reads case: ints = read sizes, "q" = query hash_value and total_read"""
    return case["ops"] if "ops" in case else list(case["ns"])


def is_legacy(case):
    """does this case go through the text-normalising class (decided by the harness' own call)"""
    ctor = case.get("ctor", "get_hash_stream")
    return ctor == "Dos2UnixHashStreamFile" or (ctor == "get_hash_stream" and case["name"] == D2U)


def run_reads(case):
    """a history on ONE stream object: reads interleaved with hash_value / total_read queries"""
    from dvc_data.hashfile import hash as H

    content = content_of(case)
    f = make_fobj(case, content)
    obs = {"kind": "reads", "cls": None, "alg": None, "answers": []}
    with observed() as rec:
        try:
            stream = getattr(H, case.get("ctor", "get_hash_stream"))(f, case["name"])
            obs["cls"] = type(stream).__name__
            obs["alg"] = stream.hash_name
            chunks = []
            obs["chunks_so_far"] = chunks
            for op in ops_of(case):
                if op == "q":
                    obs["answers"].append({"k": len(chunks), "digest": stream.hash_value, "total": stream.total_read,
                                           "fed": bytes(rec["hashers"][0].fed)})
                elif op == "d":
                    chunks.append(stream.read())  # no argument: the default n=-1
                elif op == "n":
                    chunks.append(stream.read(None))  # io convention: None = everything (plain class only)
                else:
                    chunks.append(stream.read(op))
            obs.update(status="ok", chunks=chunks, total=stream.total_read, digest=stream.hash_value)
        except AssertionError:
            obs["status"] = "assert"
        except Exception as exc:  # noqa: BLE001
            obs.update(status="exc", exc=type(exc).__name__, code=impl.err_code(exc))
        obs["fed"] = bytes(rec["hashers"][0].fed) if rec["hashers"] else b""
        obs["handed"] = list(f.log)
        obs["rest"] = f.rest
    close_fobj(f)
    return obs


def run_drive(case):
    """fobj_md5(fobj, chunk_size, name)"""
    from dvc_data.hashfile.hash import fobj_md5

    content = content_of(case)
    f = make_fobj(case, content)
    obs = {"kind": "drive"}
    with observed() as rec:
        try:
            if case["chunk"] is None:  # the default chunk_size (2**20)
                d = fobj_md5(f, name=case["name"])
            else:
                d = fobj_md5(f, chunk_size=case["chunk"], name=case["name"])
            obs.update(status="ok", digest=d)
        except AssertionError:
            obs["status"] = "assert"
        except Exception as exc:  # noqa: BLE001
            obs.update(status="exc", exc=type(exc).__name__, code=impl.err_code(exc))
        st = rec["streams"][0] if rec["streams"] else None
        obs["cls"] = type(st).__name__ if st is not None else None
        obs["alg"] = rec["hashers"][0].name if rec["hashers"] else None
        obs["fed"] = bytes(rec["hashers"][0].fed) if rec["hashers"] else b""
        ch = list(rec["chunks"])
        obs["all_chunks"] = ch
        obs["chunks"] = ch[:-1] if ch and not ch[-1] else ch  # the loop's last read is the empty one
        obs["total"] = st.total_read if st is not None else None
        obs["handed"] = list(f.log)
        obs["rest"] = f.rest
    close_fobj(f)
    return obs


def run_hash_file(ctx, case):
    from dvc_objects.fs.local import localfs

    from dvc_data.hashfile.hash import hash_file

    content = content_of(case)
    d = ctx.fresh("hf")
    p = os.path.join(d, "data.bin")
    with open(p, "wb") as fh:
        fh.write(content)
    obs = {"kind": "hashfile"}
    with observed() as rec:
        try:
            meta, hi = hash_file(p, localfs, case["name"])
            obs.update(status="ok", digest=hi.value, hname=hi.name, size=meta.size)
        except NotImplementedError:
            obs["status"] = "notimpl"
        except AssertionError:
            obs["status"] = "assert"
        except Exception as exc:  # noqa: BLE001
            obs.update(status="exc", exc=type(exc).__name__, code=impl.err_code(exc))
        st = rec["streams"][0] if rec["streams"] else None
        obs["cls"] = type(st).__name__ if st is not None else None
        obs["alg"] = rec["hashers"][0].name if rec["hashers"] else None
        obs["fed"] = bytes(rec["hashers"][0].fed) if rec["hashers"] else b""
        ch = list(rec["chunks"])
        obs["chunks"] = ch[:-1] if ch and not ch[-1] else ch
        obs["total"] = st.total_read if st is not None else None
    with open(p, "rb") as fh:
        obs["file_after"] = fh.read()
    impl.rm_rf(d)
    return obs


# ------------------------------------------------------------------------------------------
# the oracle: the property itself, judged on what the real code did


def judge(case, obs):
    """-> [(signature, what)]"""
    out = []
    content = content_of(case)
    name = case["name"]
    kind = obs["kind"]
    if obs["status"] == "exc":
        return [(f"C14:unexpected-exception:{obs['exc']}", f"{kind} with {name!r} raised {obs['exc']}")]
    if obs["status"] == "assert":
        legacy = is_legacy(case)
        small = (kind == "reads" and any(n != "q" and (n in ("d", "n") or n < 512) for n in ops_of(case))) or \
            (kind == "drive" and case["chunk"] is not None and case["chunk"] < 512)
        if not (legacy and small):
            out.append(("C14:spurious-assertion", f"{kind} with {name!r} raised AssertionError although "
                        "every read size is >= 512 or the stream is not the legacy one"))
        return out
    if obs["status"] == "notimpl":
        return out  # judged by the caller against algorithms_available
    chunks = obs["chunks"]
    joined = b"".join(chunks)
    legacy = is_legacy(case)
    # every intermediate answer of the history is about exactly the bytes handed out before it
    for a in obs.get("answers", []):
        sofar = b"".join(chunks[:a["k"]])
        if legacy:
            ok = a["digest"] == hashlib.md5(a["fed"]).hexdigest() and \
                (any(b"\r\n" in c for c in chunks[:a["k"]]) or a["fed"] == sofar)  # noqa: S324
        else:
            ok = a["digest"] == ref_digest(name, sofar) and a["total"] == len(sofar)
        if not ok:
            out.append(("C14:history:intermediate-answer",
                        f"hash_value / total_read asked after {a['k']} reads ({len(sofar)} bytes handed out) answered "
                        f"{a['digest']} / {a['total']}: not the reference digest / count of those bytes"))
            break
    # pass-through (both classes): every chunk is literally what the file object returned
    if kind in ("reads", "drive"):
        handed = obs["handed"]
        got = chunks if kind == "reads" else obs["all_chunks"]
        if got != handed[:len(got)]:
            out.append(("C14:passthrough:chunk-altered",
                        "a chunk returned by the stream differs from the bytes the file object returned"))
        if joined + obs["rest"] != content:
            out.append(("C14:passthrough:bytes-lost-or-invented",
                        "chunks handed on + unread rest differ from the content"))
    else:
        if joined != content or obs["file_after"] != content:
            out.append(("C14:passthrough:bytes-lost-or-invented", "hash_file did not read exactly the file's bytes"))
    drained = kind != "reads" or (obs["rest"] == b"" and joined == content)
    if kind == "drive" and case["chunk"] != 0 and joined != content:  # (None = default size)
        out.append(("C14:driver:incomplete", "the chunked driver stopped before the end of the content"))
    if kind == "hashfile" and (obs.get("hname") != name or obs.get("size") != len(content)):
        out.append(("C14:hash_file:wrong-name-or-size", f"HashInfo name {obs.get('hname')!r}, size {obs.get('size')}"))
    if not legacy:
        if obs["total"] != len(joined):
            out.append(("C14:count", f"total_read {obs['total']} after reading {len(joined)} bytes"))
        want = ref_digest(name, joined)
        if obs["digest"] != want:
            exact = name.lower() != D2U
            if exact or obs["digest"] != hashlib.md5(ref_dos2unix(joined)).hexdigest():  # noqa: S324
                out.append((f"C14:digest:{name.lower()}",
                            f"digest {obs['digest']} differs from the reference {want} of the {len(joined)} bytes read"))
        return out
    # ---- the legacy text-normalising MD5
    md5 = lambda b: hashlib.md5(b).hexdigest()  # noqa: E731, S324
    single = len([c for c in chunks if c]) <= 1 and drained
    if single:
        want = legacy_expected(content)
        if obs["digest"] != want:
            out.append(("C14:dos2unix:single-read-digest",
                        f"content of {len(content)} bytes read at once: digest {obs['digest']}, "
                        f"reference (normalised iff the first 512 bytes are text) {want}"))
    if drained and all(b"\r\n" not in c for c in chunks) and obs["digest"] != md5(content):
        out.append(("C14:dos2unix:altered-without-crlf",
                    "no chunk contains CR LF, yet the digest is not the MD5 of the content"))
    if drained and content and not ref_istext(content[:512]) and obs["digest"] != md5(content):
        out.append(("C14:dos2unix:binary-altered:per-chunk-sniff",
                    f"binary content (first 512 bytes are not text) of {len(content)} bytes read in "
                    f"{len(chunks)} chunks: digest {obs['digest']} is not the MD5 {md5(content)} of the "
                    "content (a later chunk was sniffed on its own, taken for text and normalised)"))
    return out


# ------------------------------------------------------------------------------------------
# generators


def gen_content(rng, style, n):
    if n <= 0:
        return b""
    if style == "text":
        return bytes(rng.choice(b"abcdefg xyz\n\t.,") for _ in range(n))
    if style == "crlf":
        out = bytearray()
        while len(out) < n:
            out += bytes(rng.choice(b"abc de") for _ in range(rng.randint(0, 12))) + b"\r\n"
        return bytes(out[:n])
    if style == "bin":
        return bytes(rng.randrange(256) for _ in range(n))
    if style == "mixed":
        return bytes(rng.choice(b"ab\r\n\x00\x80\xff") for _ in range(n))
    if style == "lonecr":
        parts = [b"a", b"\r", b"\r\r\n", b"\n", b"b\r", b"\n\r", b"xyz"]
        return b"".join(rng.choice(parts) for _ in range(n))[:n]
    if style == "binhead":
        # binary head, then CRLF text: the later chunks look like text when sniffed on their own
        k = min(n, rng.choice([512, 513, 520, 600]))
        head = bytes(rng.choice(b"\x80\x81\xfe\xff\x01") for _ in range(k))
        tail = (b"line one\r\nline two\r\n" * (n // 20 + 1))[:n - k]
        return head + tail
    if style == "threshold":
        # no NUL; non-text share within one byte of 30% of the sniffing window
        w = min(n, 512)
        k = max(0, min(w, (3 * w) // 10 + rng.choice([-1, 0, 0, 1])))
        win = [0x80] * k + [rng.choice(b"ab\r\n") for _ in range(w - k)]
        rng.shuffle(win)
        rest = bytes(rng.choice(b"a\r\n") for _ in range(n - w))
        return bytes(win) + rest
    raise ValueError(style)


STYLES = ["text", "crlf", "bin", "mixed", "lonecr", "binhead", "threshold"]


def spell(rng, alg):
    r = rng.random()
    if r < 0.45:
        return alg
    if r < 0.6:
        return alg.upper()
    if r < 0.75:
        return alg.capitalize()
    return "".join(c.upper() if rng.random() < 0.5 else c for c in alg)


def pick_alg(rng, legacy_share=0.4):
    if rng.random() < legacy_share:
        return D2U
    if FALLBACK and rng.random() < 0.2:
        return rng.choice(FALLBACK)  # names only the hashlib.new fallback of get_hasher can resolve
    return rng.choice(ALGS[:-1])


def gen_reads(ctx, k):
    rng = ctx.rng
    out = []
    for _ in range(k):
        alg = pick_alg(rng, 0.35)
        name = alg if alg == D2U and rng.random() < 0.85 else spell(rng, alg)
        ctor = "get_hash_stream"
        r = rng.random()
        if r < 0.25:
            ctor = "HashStreamFile"          # the class itself, any spelling of any algorithm
        elif r < 0.33 and name.lower() in ("md5", D2U):
            ctor = "Dos2UnixHashStreamFile"  # the legacy class itself (MD5 family only: the oracle's reference)
        case = {"kind": "reads", "name": name, "ctor": ctor}
        legacy = is_legacy(case)
        style = rng.choice(STYLES)
        if legacy:
            n = rng.choice([0, 1, 100, 511, 512, 513, 700, 1023, 1024, 1025, 1300, 1536, 1600])
            sizes = [512, 512, 513, 600, 1024, 4096, -1 if rng.random() < 0.5 else 512]
            ns = [rng.choice(sizes) for _ in range(rng.randint(1, 5))]
            if rng.random() < 0.12:
                ns.insert(rng.randrange(len(ns) + 1), rng.choice([0, 1, 511, -1]))
        else:
            n = rng.choice([0, 1, 2, 100, 511, 512, 513, 1023, 1024, 1025, 1400])
            if ctx.tier == "quick" and n > 513 and rng.random() < 0.6:
                n = rng.choice([17, 60, 300])  # the plain class is size-agnostic: keep Coq literals small
            small = n <= 100
            sizes = [-1, 0, 1, 2, 7, 511, 512, 513, 1024, 4096] if small else [-1, 0, 7, 100, 511, 512, 513, 1024, 4096]
            ns = [rng.choice(sizes) for _ in range(rng.randint(1, 8))]
        # queries of hash_value / total_read at random points of the history (0..3 of them; a
        # third of the histories has none, so the digest-only behaviour stays covered)
        ops = list(ns)
        for _ in range(rng.choice([0, 1, 1, 2, 2, 3])):
            ops.insert(rng.randrange(len(ops) + 1), "q")
        cuts = [rng.choice([1, 3, 200, 512, 600, 10**6]) for _ in range(rng.randint(0, 3))] if rng.random() < 0.4 else []
        if ctx.tier == "quick" and n > 1100:
            n = 1030  # still three reads of 512; the long ones are left to the thorough tier
        case.update(style=style, content=gen_content(rng, style, n).hex(), cuts=cuts, ops=ops)
        out.append(case)
    return out


def gen_drive(ctx, k):
    rng = ctx.rng
    out = []
    for _ in range(k):
        alg = pick_alg(rng, 0.45)
        name = alg if alg == D2U and rng.random() < 0.85 else spell(rng, alg)
        legacy = name == D2U
        style = rng.choice(STYLES)
        if legacy:
            chunk = rng.choice([512, 513, 600, 1024, 2048, 2**20]) if rng.random() < 0.92 else rng.choice([0, 1, 511, -1])
            base = chunk if 0 < chunk <= 1024 else 512
            n = rng.choice([0, 1, 100, 511, 512, 513, base - 1, base, base + 1, base + 2, 2 * base, 2 * base + 1, 1500])
        else:
            chunk = rng.choice([1, 2, 3, 7, 64, 511, 512, 513, 1024, 2**20, -1, 0])
            if chunk in (1, 2, 3):
                n = rng.choice([0, 1, 2, 3, 5, 24, 60])
            else:
                base = chunk if 0 < chunk <= 1024 else 512
                n = rng.choice([0, 1, 100, base - 1, base, base + 1, 2 * base, 2 * base + 1, 511, 512, 513, 1300])
        n = min(n, 2100 if ctx.tier != "quick" else 1100)
        cuts = [rng.choice([1, 5, 300, 512, 700, 10**6]) for _ in range(rng.randint(0, 3))] if rng.random() < 0.35 else []
        out.append({"kind": "drive", "name": name, "style": style, "content": gen_content(rng, style, n).hex(),
                    "cuts": cuts, "chunk": chunk})
    return out


def gen_twins(ctx, k):
    """LF text u (no CR LF) and its CRLF variant, each in one read"""
    rng = ctx.rng
    out = []
    for _ in range(k):
        n = rng.choice([1, 2, 30, 200, 340, 400, 511, 512, 513, 700])
        u = bytes(rng.choice(b"abc def\n\n\t") for _ in range(n))
        if rng.random() < 0.3:
            u = u.replace(b"a", b"\r")  # lone CRs are fine
        while b"\r\n" in u:
            u = u.replace(b"\r\n", b"\n\n")
        out.append({"kind": "twin", "u": u.hex()})
    return out


def gen_hashfile(ctx, k):
    rng = ctx.rng
    out = []
    for _ in range(k):
        alg = pick_alg(rng, 0.3)
        name = spell(rng, alg) if rng.random() < 0.3 else alg
        style = rng.choice(STYLES)
        n = rng.choice([0, 1, 100, 511, 512, 513, 900])
        out.append({"kind": "hashfile", "name": name, "style": style, "content": gen_content(rng, style, n).hex()})
    return out


def big_cases(ctx):
    """files around the driver's real read size 2^20 (oracle only: too big for Coq literals)"""
    M = 2**20
    rng = ctx.rng
    blk = bytes(rng.randrange(1, 256) for _ in range(64)).hex()
    out = [
        {"kind": "hashfile", "name": "md5", "style": "big", "spec": [[blk, M // 64], ["0d0a", 1]]},
        {"kind": "hashfile", "name": "blake3", "style": "big", "spec": [[blk, M // 64 * 2], ["61", 5]]},
        {"kind": "hashfile", "name": "sha256", "style": "big", "spec": [[blk, M // 64 - 1], ["62", 63]]},
        {"kind": "hashfile", "name": D2U, "style": "big-binary-then-crlf", "spec": [["00", M], ["610d0a62", 1]]},
        {"kind": "hashfile", "name": D2U, "style": "big-binary", "spec": [["ff00", M // 2], ["80", 700]]},
        {"kind": "hashfile", "name": D2U, "style": "big-text-lf", "spec": [["6162630a", M // 4], ["640a", 9]]},
    ]
    return out


def istext_blocks(ctx):
    """dense enumeration for the translation validation of istextblock"""
    rng = ctx.rng
    out = [bytes([b]) for b in range(256)]
    out.append(b"")
    # every byte value as the deciding byte of a 10-byte block with 3 non-text bytes (30% / 40% / NUL)
    out += [b"\x80\x80\x80a\r\nbcd" + bytes([b]) for b in range(256)]
    lens = [2, 3, 4, 9, 10, 11, 19, 20, 21, 99, 100, 101, 333, 510, 511, 512, 513, 1000]
    for n in lens:
        t = (3 * n) // 10
        for k in sorted({0, max(0, t - 1), t, min(n, t + 1), min(n, t + 2), n}):
            blk = [rng.choice([0x80, 0xFF, 0x01, 0x7F, 0x1B]) for _ in range(k)] + \
                  [rng.choice(b"az ~\n\r\t\f\b") for _ in range(n - k)]
            rng.shuffle(blk)
            out.append(bytes(blk))
        blk = [rng.choice(b"abc\n") for _ in range(n)]
        blk[rng.randrange(n)] = 0
        out.append(bytes(blk))
    return out


def d2u_strings(ctx):
    import itertools

    rng = ctx.rng
    out = []
    for n in range(0, 6):
        for t in itertools.product(b"\r\na", repeat=n):
            out.append(bytes(t))
    for _ in range(ctx.n(40, 300)):
        out.append(gen_content(rng, rng.choice(["crlf", "mixed", "lonecr"]), rng.choice([6, 7, 20, 64, 200])))
    return out


# ------------------------------------------------------------------------------------------
# input-space audit (tools/COVERAGE_AUDIT.md): fixed cases that every run reaches, judged by the
# same oracle and the same correspondence as the random ones; "dims" names what a case is for


def audit_cases():
    hx = bytes.hex
    reads, drives, hfiles = [], [], []
    text = b"line one\r\nline two\r\n"          # 20 bytes, CRLF text
    t600 = (b"abcdefgh\r\n" * 60)                 # 600 bytes, CRLF text
    plain_algs = ["md5", "sha256", "blake3"]

    def R(name, ctor, content, ops, dims, fobj="cut", cuts=()):
        reads.append({"kind": "reads", "name": name, "ctor": ctor, "style": "audit", "content": hx(content),
                      "cuts": list(cuts), "ops": ops, "fobj": fobj, "dims": dims})

    def D(name, content, chunk, dims, fobj="cut", cuts=()):
        drives.append({"kind": "drive", "name": name, "style": "audit", "content": hx(content), "cuts": list(cuts),
                       "chunk": chunk, "fobj": fobj, "dims": dims})

    # ---- read-size sequences: read(0) probes at start / middle / end, read(-1), read() without an
    # argument, size 1, size > len; each with a digest query right after the probe
    for i, alg in enumerate(plain_algs):
        for ctor in ("HashStreamFile", "get_hash_stream"):
            R(alg, ctor, text, [0, "q", 7, 0, "q", 100, 0, "q"], ["read(0)@start", "read(0)@middle", "read(0)@end"])
            R(alg, ctor, text, [1, 1, "q", -1, "q", -1], ["read(1)", "read(-1)", "read(-1)@eof"])
            R(alg, ctor, text, ["d", "q", "d"], ["read()-no-argument"])
            R(alg, ctor, text, [3, "q", "n", "q", "n"], ["read(None)"])
            R(alg, ctor, text, [21, "q", 4096], ["read(n>len)"])
            R(alg, ctor, b"", [0, "q", 5, "d", -1, "q"], ["content:empty", "read(0)@start"])
    for ctor in ("Dos2UnixHashStreamFile", "get_hash_stream"):
        R(D2U, ctor, t600, [512, "q", 512, "q", 512, "q"], ["legacy:read-after-eof", "legacy:multi-read"])
        R(D2U, ctor, t600, [4096, "q"], ["legacy:read(n>len)"])
        R(D2U, ctor, t600, [0], ["legacy:read(0)-refused"])
        R(D2U, ctor, t600, [512, 0], ["legacy:read(0)-refused"])
        R(D2U, ctor, t600, ["d"], ["legacy:read()-no-argument-refused"])
        R(D2U, ctor, t600, [-1], ["legacy:read(-1)-refused"])
        R(D2U, ctor, t600, [1], ["legacy:read(1)-refused"])
        R(D2U, ctor, b"", [512, "q", 512], ["content:empty", "legacy"])

    # ---- file-object kinds under both classes and the driver
    for fobj in ("bytesio", "file", "rawfile"):
        R("sha1", "HashStreamFile", t600, [0, 100, "q", "d", "q", 5], ["fobj:" + fobj], fobj=fobj)
        R(D2U, "get_hash_stream", t600, [512, "q", 1024], ["fobj:" + fobj, "legacy"], fobj=fobj)
        D("md5", t600, 64, ["fobj:" + fobj, "entry:fobj_md5(chunk_size)"], fobj=fobj)
        D(D2U, t600, None, ["fobj:" + fobj, "entry:fobj_md5(default-chunk)"], fobj=fobj)
    R("sha512", "HashStreamFile", t600, [100, "q", 100, -1], ["fobj:short-reading"], cuts=[1, 33])
    D("blake3", t600, 512, ["fobj:short-reading", "entry:fobj_md5(chunk_size)"], cuts=[1, 511, 2])
    D(D2U, t600, 600, ["fobj:short-reading", "legacy"], cuts=[5, 300])
    for alg in plain_algs:
        D(alg, text, None, ["entry:fobj_md5(default-chunk)"])
        D(alg, text, 1, ["entry:fobj_md5(chunk_size)", "chunk=1"])
        D(alg, text, 20, ["entry:fobj_md5(chunk_size)", "chunk=len"])
        D(alg, text, -1, ["entry:fobj_md5(chunk_size)", "chunk=-1"])

    # ---- the text sniff.  Every byte value as the DECIDING byte at the 30% threshold: 3 non-text
    # bytes, 6 text bytes (with a CR LF, so the decision shows in the digest), then the byte:
    # text byte -> 3/10 -> text; non-text byte -> 4/10 -> binary; NUL -> binary
    for b in range(256):
        D(D2U, b"\x80\x80\x80a\r\nbcd" + bytes([b]), 512, ["sniff:deciding-byte@30%(len 10)"])
    # the same at the full window: 153 non-text of 512 is text (29.9%), 154 is binary (30.1%)
    for b in (0, 1, 8, 9, 10, 11, 12, 13, 14, 27, 31, 32, 126, 127, 128, 255):
        win = b"\x80" * 153 + (b"ab\r\n" * 90)[:358] + bytes([b])
        D(D2U, win, 512, ["sniff:deciding-byte@30%(len 512)", "content:exactly-512"])
        D(D2U, win + b"tail\r\n", 1024, ["sniff:deciding-byte@30%(len 512)", "content:window+tail"])
    base = bytearray(b"abcdefgh\r\n" * 60)
    for pos in (0, 511, 512):
        c = bytearray(base)
        c[pos] = 0
        D(D2U, bytes(c), 1024, [f"sniff:NUL@{pos}"])
    # a TEXT whose first CR comes late: LF-only preamble of 511 / 512 / 513 / 2000 bytes (a long CSV
    # header, a comment block), then CRLF lines - the first CR is outside / at the edge of the window
    for pre in (511, 512, 513, 2000):
        body = (b"0123456789abcde\n" * (pre // 16 + 1))[:pre - 1] + b"\n" + b"col1,col2\r\nv1,v2\r\n"
        dd = [f"sniff:first-CR@{pre}(LF preamble then CRLF)"]
        D(D2U, body, 4096, dd + ["one read"])
        D(D2U, body, None, dd + ["one read"])
        D(D2U, body, 512, dd + ["several reads"])
        D(D2U, body, 4096, dd + ["fobj:file"], fobj="file")
        R(D2U, "get_hash_stream", body, [4096, "q", 512], dd + ["one read"])
        R(D2U, "Dos2UnixHashStreamFile", body, [1024, "q", 1024, "q", 1024], dd + ["several reads"])
        hfiles.append({"kind": "hashfile", "name": D2U, "style": "audit", "content": hx(body), "dims": dd + ["entry:hash_file"]})
    c = bytearray(b"a" * 600)
    c[511:513] = b"\r\n"
    D(D2U, bytes(c), 1024, ["crlf-straddles-window(one read)"])
    D(D2U, bytes(c), 512, ["crlf-straddles-read-boundary"])
    D("md5", bytes(c), 512, ["crlf-straddles-read-boundary"])
    for alg in ("md5", D2U):
        D(alg, b"a\rb\rc\r", 512, ["content:lone-CR"])
        D(alg, b"a\nb\nc\n", 512, ["content:lone-LF"])
        D(alg, b"\r", 512, ["content:lone-CR"])
        D(alg, b"\n", 512, ["content:lone-LF"])
        D(alg, b"\r\n", 512, ["content:only-CRLF"])
        D(alg, b"", 512, ["content:empty"])
        D(alg, (b"x" * 510) + b"\r\n", 512, ["content:exactly-512"])
        D(alg, (b"x" * 510) + b"\r\n", 513, ["content:exactly-512"])
        hfiles.append({"kind": "hashfile", "name": alg, "style": "audit", "content": "", "dims": ["content:empty", "entry:hash_file"]})
        hfiles.append({"kind": "hashfile", "name": alg, "style": "audit", "content": hx((b"x" * 510) + b"\r\n"),
                       "dims": ["content:exactly-512", "entry:hash_file"]})
    return reads, drives, hfiles


def op_dims(case):
    """dimensions read off the case itself (random and fixed cases alike)"""
    out = set(case.get("dims", []))
    content = content_of(case) if ("content" in case or "spec" in case) else b""
    if case["kind"] == "reads":
        out.add("ctor:" + case.get("ctor", "get_hash_stream"))
        out.add("fobj:" + ("short-reading" if case.get("cuts") else case.get("fobj", "cut") + ("(full reads)" if case.get("fobj", "cut") == "cut" else "")))
        rs = [(i, o) for i, o in enumerate(ops_of(case)) if o != "q"]
        for j, (i, o) in enumerate(rs):
            if o == 0:
                out.add("read(0)@" + ("start" if j == 0 else "end" if j == len(rs) - 1 else "middle"))
            elif o == "d":
                out.add("read()-no-argument")
            elif o == "n":
                out.add("read(None)")
            elif o == -1:
                out.add("read(-1)")
            elif o == 1:
                out.add("read(1)")
            elif isinstance(o, int) and o > len(content):
                out.add("read(n>len)")
        if any(o == "q" for o in ops_of(case)[:-1]):
            out.add("query-mid-history")
    if case["kind"] == "drive":
        out.add("entry:fobj_md5(default-chunk)" if case["chunk"] is None else "entry:fobj_md5(chunk_size)")
        out.add("fobj:" + ("short-reading" if case.get("cuts") else case.get("fobj", "cut") + ("(full reads)" if case.get("fobj", "cut") == "cut" else "")))
    if case["kind"] == "hashfile":
        out.add("entry:hash_file")
    if "name" in case:
        nm = case["name"]
        out.add("name:" + ("exact" if nm == nm.lower() else "case-variant"))
        if nm.lower() == "blake3":
            out.add("name:blake3")
        if nm.lower() in FALLBACK:
            out.add("name:only-via-hashlib.new")
        if nm.lower() == D2U:
            out.add("name:md5-dos2unix")
    if not content:
        out.add("content:empty")
    if len(content) == 512:
        out.add("content:exactly-512")
    return out


def ready_made_hashes(ctx, dims, note, guarded):
    """file systems whose info() reports ready-made hashes.  For a requested name N the answer must be
    the reference digest for N of the content (normalised for md5-dos2unix): a field of info() may
    stand in for reading only when it IS the digest for N.  By design (not judged): for N == "md5"
    the code trusts an `md5` field as it is; honest fields make that agree with the reference."""
    from dvc_objects.fs import as_filesystem
    from dvc_objects.fs.local import LocalFileSystem

    from dvc_data.fs import DataFileSystem
    from dvc_data.hashfile import hash as H
    from dvc_data.hashfile.db import HashFileDB
    from dvc_data.hashfile.hash_info import HashInfo
    from dvc_data.hashfile.meta import Meta
    from dvc_data.index import DataIndex, DataIndexEntry, ObjectStorage

    lf = b"line one\nline two\nline three\n"
    contents = {"lf.txt": lf, "crlf.txt": ref_unix2dos(lf), "blob.bin": b"\x00\x01\x02\r\n\xff\xfe" * 20,
                "empty": b"", "w512.txt": (b"y" * 510) + b"\r\n", "highbin.bin": b"\x80\x81\r\n" * 40}
    root = ctx.fresh("readymade")
    local = LocalFileSystem()
    odb = HashFileDB(local, os.path.join(root, "odb"))
    entries = {}
    for fname, data in contents.items():
        src = os.path.join(root, fname)
        with open(src, "wb") as fh:
            fh.write(data)
        oid = hashlib.md5(data).hexdigest()  # noqa: S324
        odb.add(src, local, oid)
        entries[(fname,)] = DataIndexEntry(key=(fname,), meta=Meta(size=len(data)), hash_info=HashInfo("md5", oid))
    index = DataIndex(entries)
    index.storage_map.add_cache(ObjectStorage((), odb))
    dfs = as_filesystem(DataFileSystem(index))

    class InjectingFS(LocalFileSystem):
        """local files; info() additionally reports hash-like fields, honest or stale"""

        def __init__(self, stale=False):
            super().__init__()
            self.stale = stale

        def info(self, path, **kw):
            i = dict(super().info(path, **kw))
            if i.get("type") == "file":
                with open(path, "rb") as fh:
                    data = fh.read()
                i["md5"] = "0" * 32 if self.stale else hashlib.md5(data).hexdigest()  # noqa: S324
                i["sha256"] = "1" * 64 if self.stale else hashlib.sha256(data).hexdigest()
                i["etag"] = "2" * 32
                i["checksum"] = "3" * 32
            return i

    def want_for(alg, data):
        return legacy_expected(data) if alg == D2U else ref_digest(alg, data)

    def ask(fs, path, alg):
        def go():
            meta, hi = H.hash_file(path, fs, alg)
            return (hi.name, hi.value)
        return guarded(go)

    for fname, data in contents.items():
        for alg in ALGS:
            want = (alg, want_for(alg, data))
            case = {"kind": "entry", "name": alg, "content": fname}
            note("fs:info-carries-md5(DataFileSystem over an index)", {**case, "entry": "hash_file@DataFileSystem"},
                 ask(dfs, "/" + fname, alg), want, "hash_file through a DataFileSystem whose info() reports md5")
            p = os.path.join(root, fname)
            note("fs:info-injects(md5,sha256,etag,checksum)", {**case, "entry": "hash_file@info-with-hash-fields"},
                 ask(InjectingFS(), p, alg), want, "hash_file on a filesystem whose info() carries honest hash fields")
            if alg == "md5":
                ctx.count("by-design:md5-field-of-info-trusted-for-name-md5")
                continue
            note("fs:info-md5-field-stale", {**case, "entry": "hash_file@info-with-stale-hash-fields"},
                 ask(InjectingFS(stale=True), p, alg), want,
                 "hash_file on a filesystem whose info() carries md5/sha256 fields that are not the digest asked for")
    impl.rm_rf(root)


def run_entrypoints(ctx, dims):
    """the remaining entry points and their flags, oracle only (digest against hashlib / blake3 over the
    whole content): get_hasher for every pool name; file_md5 with / without callback and size; hash_file
    with state absent / noop / real (first and repeated call, algorithm switched on the same path), info
    absent / given, callback given, sizes around LargeFileHashingCallback.LARGE_FILE_SIZE claimed by
    info; a non-local (memory) filesystem"""
    from dvc_objects.fs.local import localfs
    from dvc_objects.fs.memory import MemoryFileSystem
    from fsspec.callbacks import Callback

    from dvc_data.hashfile import hash as H
    from dvc_data.hashfile.state import State, StateNoop

    def note(dim, case, got, want, what):
        dims[dim] = dims.get(dim, 0) + 1
        ctx.case(case, nontrivial=True)
        ctx.count("kind:entrypoint")
        if got != want:
            ctx.oracle_fail("C14:entrypoint:" + case.get("entry", dim),
                            f"{what}: got {got!r}, reference {want!r}", case)

    def guarded(fn):
        try:
            return fn()
        except Exception as exc:  # noqa: BLE001
            return f"raised {type(exc).__name__}: {exc}"

    samples = {"crlf-text": b"line one\r\nline two\r\n" * 3, "binary": bytes(range(256)) + b"\r\n", "empty": b"",
               "exactly-512": (b"y" * 510) + b"\r\n",
               "lf-preamble-then-crlf": (b"0123456789abcde\n" * 40) + b"col1,col2\r\nv1,v2\r\n"}
    # get_hasher, every pool name (as get_hash_stream / HashStreamFile pass it: lower-cased)
    for alg in ALGS:
        for cname, data in (("binary", samples["binary"]),):
            def go(alg=alg, data=data):
                h = H.get_hasher(alg)
                h.update(data[:100])
                h.update(data[100:])
                return h.hexdigest()
            note("entry:get_hasher", {"kind": "entry", "entry": "get_hasher", "name": alg, "content": cname},
                 guarded(go), ref_digest(alg, data), f"get_hasher({alg!r}) fed in two updates")
    import io

    for cname, data in samples.items():
        want = ref_digest("md5", data)
        case = {"kind": "entry", "name": "(omitted: default md5)", "content": cname}

        def via_stream(make, data=data):
            st = make(io.BytesIO(data))
            got = st.read(7) + st.read()
            return (st.hash_value, st.hash_name, got == data, st.total_read)
        note("name:omitted(default)", {**case, "entry": "fobj_md5(fobj)"}, guarded(lambda: H.fobj_md5(io.BytesIO(data))), want,
             "fobj_md5 with every default")
        note("name:omitted(default)", {**case, "entry": "HashStreamFile(fobj)"}, guarded(lambda: via_stream(H.HashStreamFile)),
             (want, "md5", True, len(data)), "HashStreamFile with the default algorithm")
        note("name:omitted(default)", {**case, "entry": "get_hash_stream(fobj)"}, guarded(lambda: via_stream(H.get_hash_stream)),
             (want, "md5", True, len(data)), "get_hash_stream with the default algorithm")
    root = ctx.fresh("entry")
    names = ["md5", "sha256", "blake3", D2U] + FALLBACK[:1]
    for cname, data in samples.items():
        path = os.path.join(root, cname + ".bin")
        with open(path, "wb") as fh:
            fh.write(data)
        for alg in names:
            want = legacy_expected(data) if alg == D2U else ref_digest(alg, data)
            case = {"kind": "entry", "name": alg, "content": cname}
            note("entry:file_md5(no callback)", {**case, "entry": "file_md5"},
                 guarded(lambda: H.file_md5(path, localfs, name=alg)), want, "file_md5")
            note("entry:file_md5(callback)", {**case, "entry": "file_md5+callback"},
                 guarded(lambda: H.file_md5(path, localfs, callback=Callback(), name=alg)), want, "file_md5 with a callback")
            note("entry:file_md5(callback,size)", {**case, "entry": "file_md5+callback+size"},
                 guarded(lambda: H.file_md5(path, localfs, callback=Callback(), name=alg, size=len(data))), want,
                 "file_md5 with a callback and a size")

            def hf(**kw):
                return guarded(lambda: H.hash_file(path, localfs, alg, **kw)[1].value)
            note("entry:hash_file(state absent)", {**case, "entry": "hash_file"}, hf(), want, "hash_file")
            note("entry:hash_file(state noop)", {**case, "entry": "hash_file+StateNoop"}, hf(state=StateNoop()), want,
                 "hash_file with StateNoop")
            note("entry:hash_file(info given)", {**case, "entry": "hash_file+info"}, hf(info=localfs.info(path)), want,
                 "hash_file with the caller's info")
            note("entry:hash_file(callback given)", {**case, "entry": "hash_file+callback"}, hf(callback=Callback()), want,
                 "hash_file with a callback")
            big = H.LargeFileHashingCallback.LARGE_FILE_SIZE
            for claimed in (0, big - 1, big, big + 1):
                info = dict(localfs.info(path), size=claimed)
                note("entry:hash_file(info.size around LARGE_FILE_SIZE)",
                     {**case, "entry": "hash_file+info.size", "claimed_size": claimed}, hf(info=info), want,
                     f"hash_file with info claiming size {claimed}")
        # a real state database: first call computes and records, the repeated call must answer the same;
        # switching the algorithm on the same path must not serve the other algorithm's record
        st = State(root_dir=root, tmp_dir=ctx.fresh("state"))
        try:
            for alg in ["md5", D2U, "md5", "sha256", "sha256", D2U]:
                want = legacy_expected(data) if alg == D2U else ref_digest(alg, data)
                got = guarded(lambda: H.hash_file(path, localfs, alg, state=st)[1])
                got = (got.name, got.value) if hasattr(got, "value") else got
                note("entry:hash_file(real state, repeated / algorithm switched)",
                     {"kind": "entry", "entry": "hash_file+State", "name": alg, "content": cname}, got, (alg, want),
                     "hash_file with a real State")
        finally:
            st.close()
        # a non-local filesystem
        mem = MemoryFileSystem(global_store=False)
        mpath = "/c14/" + cname
        mem.fs.pipe_file(mpath, data)
        for alg in names:
            want = legacy_expected(data) if alg == D2U else ref_digest(alg, data)
            note("fs:non-local(memory)", {"kind": "entry", "entry": "hash_file@memfs", "name": alg, "content": cname},
                 guarded(lambda: H.hash_file(mpath, mem, alg)[1].value), want, "hash_file on a memory filesystem")
            note("fs:non-local(memory)", {"kind": "entry", "entry": "file_md5@memfs", "name": alg, "content": cname},
                 guarded(lambda: H.file_md5(mpath, mem, name=alg)), want, "file_md5 on a memory filesystem")
    ready_made_hashes(ctx, dims, note, guarded)
    impl.rm_rf(root)


# ------------------------------------------------------------------------------------------
# Coq terms


def cZ(n):
    return f"({n})%Z"


def enc_obs(obs):
    """expected val of enc_sel ++ enc_reads/enc_drive for an observation"""
    sel = vL([vB(obs["alg"] or ""), vbool(obs["cls"] == "Dos2UnixHashStreamFile")])
    if obs["status"] == "ok":
        parts = [vN(0), vL([vB(obs["fed"]), vN(obs["total"]), vB(obs["rest"])]),
                 vL([vB(c) for c in obs["chunks"]])]
        if obs["kind"] == "reads":
            parts.append(vL([vL([vN(a["k"]), vB(a["fed"]), vN(a["total"])]) for a in obs["answers"]]))
        body = vL(parts)
    elif obs["status"] == "assert":
        body = vL([vN(10)])
    else:
        body = vL([vN(obs.get("code", 99))])
    return sel, body


def lenbucket(n):
    for b in (0, 1, 510, 513, 1022, 1025):
        if n <= b:
            return f"<={b}"
    return ">1025"


def nontrivial(case, obs):
    content = content_of(case)
    if not content or obs["status"] != "ok":
        return bool(content) and obs["status"] == "assert"
    return len(obs.get("chunks", [])) >= 2 or is_legacy(case) or bool(obs.get("answers"))


# ------------------------------------------------------------------------------------------


def run(ctx):
    from dvc_data.hashfile import hash as H
    from dvc_data.hashfile.istextfile import istextblock

    avail = sorted(H.algorithms_available)
    corpus = load_corpus()
    _SCRATCH[0] = ctx.tmpdir()
    a_reads, a_drives, a_hfiles = audit_cases()
    dims = ctx.extra.setdefault("input_dimensions", {})

    # ---- streams with explicit read sequences, the chunked driver
    reads = [c for c in corpus if c["kind"] == "reads"] + a_reads + gen_reads(ctx, ctx.n(50, 1000))
    drives = [c for c in corpus if c["kind"] == "drive"] + a_drives + gen_drive(ctx, ctx.n(50, 1000))
    items_r, items_d, digests_d = [], [], []
    for case in reads:
        obs = run_reads(case)
        book(ctx, case, obs)
        sel, body = enc_obs(obs)
        ctor = {"get_hash_stream": "ViaGetHashStream", "HashStreamFile": "DirectPlain",
                "Dos2UnixHashStreamFile": "DirectDos2Unix"}[case.get("ctor", "get_hash_stream")]
        inp = "(%s, %s, %s, %s, %s)" % (ctor, cbytes(case["name"]), cbytes(content_of(case)),
                                          clist([str(c) for c in case["cuts"]]),
                                          clist(["SQuery" if o == "q" else f"SRead {cZ(-1 if o in ('d', 'n') else o)}" for o in ops_of(case)]))
        items_r.append((case, inp, vL([sel, body])))
    for case in drives:
        obs = run_drive(case)
        book(ctx, case, obs)
        sel, body = enc_obs(obs)
        inp = "(%s, %s, %s, %s)" % (cbytes(case["name"]), cZ(2**20 if case["chunk"] is None else case["chunk"]),
                                      cbytes(content_of(case)),
                                      clist([str(c) for c in case["cuts"]]))
        items_d.append((case, inp, vL([sel, body])))
        digests_d.append(obs.get("digest") if obs["status"] == "ok" else None)

    # ---- LF / CRLF twins, each in a single read (fobj_md5 with its default read size)
    for case in [c for c in corpus if c["kind"] == "twin"] + gen_twins(ctx, ctx.n(40, 600)):
        run_twin(ctx, case)

    # ---- hash_file on real files
    items_h = []
    hf = [c for c in corpus if c["kind"] == "hashfile"] + a_hfiles + gen_hashfile(ctx, ctx.n(30, 300))
    for case in hf + big_cases(ctx):
        obs = run_hash_file(ctx, case)
        book(ctx, case, obs, avail)
        if "content" in case:
            if obs["status"] == "ok":
                obs["rest"] = b""
                sel, body = enc_obs(obs)
                exp = vL([vN(0), vB(obs["hname"]), sel, body])
            elif obs["status"] == "notimpl":
                exp = vL([vN(13)])
            else:
                exp = vL([vN(obs.get("code", 10))])
            inp = "(%s, %s)" % (cbytes(case["name"]), cbytes(content_of(case)))
            items_h.append((case, inp, exp))

    run_entrypoints(ctx, dims)
    ctx.extra["input_dimensions"] = dict(sorted(dims.items()))
    ctx.obligation("oracle:streams", not any(v.kind == "oracle" for v in ctx.violations),
                   f"{len(reads)} read sequences, {len(drives)} driver runs, twins and {len(hf) + 6} real files "
                   "judged against hashlib/blake3 on the whole content, literal pass-through and the counter")

    ctx.correspond(
        "reads", IMPORTS, "ctor * list N * list N * list N * list sop",
        "fun i => let '(c, name, content, cuts, ops) := i in enc_history c name content cuts ops",
        items_r, shard=max(ctx.n(12, 25), -(-len(items_r) // 12)))
    ctx.correspond(
        "driver", IMPORTS, "list N * Z * list N * list N",
        "fun i => let '(name, chunk, content, cuts) := i in "
        "VL [enc_sel name; enc_drive (fobj_md5 name chunk content cuts)]",
        items_d, shard=max(ctx.n(12, 25), -(-len(items_d) // 12)))
    avail_term = clist([cbytes(a) for a in avail])
    ctx.correspond(
        "hash_file", IMPORTS, "list N * list N",
        f"fun i => enc_hash_file (hash_file {avail_term} (fst i) (snd i))", items_h, shard=ctx.n(13, 25))

    # ---- translation validation of the generated pure functions on dense enumerations
    blocks = istext_blocks(ctx)
    items = []
    bad_ref = 0
    for b in blocks:
        r = bool(istextblock(b))
        if len(b) <= 512 and r != ref_istext(b):
            bad_ref += 1
            ctx.oracle_fail("C14:istextblock:threshold", f"istextblock disagrees with 10*nontext <= 3*len on a "
                            f"block of {len(b)} bytes", {"kind": "istext", "block": b.hex()})
        ctx.count("istext:" + ("text" if r else "binary"))
        items.append(({"kind": "istext", "block": b.hex()}, cbytes(b), vbool(r)))
        ctx.case({"kind": "istext", "block": b.hex()}, nontrivial=len(b) > 1)
    ctx.correspond("tv_istextblock", IMPORTS, "list N", "fun b => enc_bool (istextblock b)", items, shard=100)
    strs = d2u_strings(ctx)
    items = []
    for s in strs:
        r = H.dos2unix(s)
        if r != ref_dos2unix(s):
            ctx.oracle_fail("C14:dos2unix:function", "dos2unix(data) is not data with every CR LF replaced by LF",
                            {"kind": "d2u", "data": s.hex()})
        items.append(({"kind": "d2u", "data": s.hex()}, cbytes(s), vB(r)))
        ctx.case({"kind": "d2u", "data": s.hex()}, nontrivial=b"\r\n" in s)
    ctx.correspond("tv_dos2unix", IMPORTS, "list N", "fun b => VB (dos2unix b)", items, shard=250)
    ctx.obligation("oracle:istextblock+dos2unix", bad_ref == 0,
                   f"{len(blocks)} blocks against the integer threshold test, {len(strs)} strings against a scan")

    # ---- the digest of what the model feeds, computed by the Gallina MD5 (md5 names only)
    items = []
    for (case, inp, _), dg in zip(items_d, digests_d):
        if dg is not None and case["name"].lower() in ("md5", D2U) and 0 < len(content_of(case)) <= 700:
            items.append((case, inp, vB(dg)))
        if len(items) >= ctx.n(10, 60):
            break
    if items:
        ctx.correspond(
            "md5_gallina", IMPORTS_MD5, "list N * Z * list N * list N",
            "fun i => let '(name, chunk, content, cuts) := i in md5_fobj name chunk content cuts",
            items, shard=5)
    ctx.extra["algorithms_available"] = avail
    ctx.extra["algorithm_pool"] = {"from_hashlib": PLAIN, "only_via_hashlib_new": FALLBACK, "extra": ["blake3", D2U]}


def strip(case):
    return {k: v for k, v in case.items() if not k.startswith("_")}


def book(ctx, case, obs, avail=None):
    """register the case, run the oracle, record the distribution"""
    content = content_of(case)
    ctx.case(strip(case), nontrivial(case, obs))
    ctx.count("kind:" + case["kind"])
    dd = ctx.extra.setdefault("input_dimensions", {})
    for d in op_dims(case):
        dd[d] = dd.get(d, 0) + 1
    if case["kind"] == "reads":
        ctx.count("ctor:" + case.get("ctor", "get_hash_stream"))
        ctx.count("queries-in-history:%d" % sum(1 for o in ops_of(case) if o == "q"))
    ctx.count("alg:" + case["name"].lower())
    ctx.count("spelling:" + ("exact" if case["name"] == case["name"].lower() else "case-variant"))
    ctx.count("class:" + str(obs.get("cls")))
    ctx.count("style:" + case.get("style", "?"))
    ctx.count("len:" + lenbucket(len(content)))
    ctx.count("result:" + obs["status"])
    if obs["status"] == "ok":
        ctx.count("chunks:" + (str(len(obs["chunks"])) if len(obs["chunks"]) < 3 else ">=3"))
        if case["name"] == D2U and obs["fed"] != b"".join(obs["chunks"]):
            ctx.count("legacy:normalised")
        # hashlib contract on the recorded feed (keeps `fed` honest as an observation)
        if ref_digest(case["name"], obs["fed"]) != obs["digest"] and case["name"].lower() != D2U:
            ctx.oracle_fail("C14:hasher-contract", "hexdigest is not the reference digest of the bytes fed", strip(case))
        if case["name"].lower() == D2U and hashlib.md5(obs["fed"]).hexdigest() != obs["digest"]:  # noqa: S324
            ctx.oracle_fail("C14:hasher-contract", "hexdigest is not the MD5 of the bytes fed", strip(case))
    problems = judge(case, obs)
    if case["kind"] == "hashfile" and avail is not None:
        supported = case["name"] in avail
        if supported and obs["status"] == "notimpl":
            problems.append(("C14:hash_file:supported-name-refused",
                             f"hash_file raised NotImplementedError for the available algorithm {case['name']!r}"))
        if not supported and obs["status"] == "ok":
            want = ref_digest(case["name"], content) if case["name"].lower() != D2U else None
            if want is None or obs["digest"] != want:
                problems.append(("C14:hash_file:unknown-name-digest", f"unlisted name {case['name']!r} produced a digest "
                                 "that is not the reference digest"))
    for sig, what in problems:
        small = shrink(ctx, case, sig)
        if small != strip(case):  # describe the case that is stored, not the one it was shrunk from
            runner = run_reads if small["kind"] == "reads" else run_drive
            what = next((w for s2, w in judge(small, runner(small)) if s2 == sig), what)
        ctx.oracle_fail(sig, what, small)
    return problems


def run_twin(ctx, case):
    from dvc_data.hashfile.hash import fobj_md5

    u = bytes.fromhex(case["u"])
    twin = ref_unix2dos(u)
    ctx.case(case, nontrivial=b"\n" in u)
    ctx.count("kind:twin")
    ctx.count("twin-sniff:" + ("text" if ref_istext(twin[:512]) else "binary"))
    try:
        a = fobj_md5(CutFile(u, []), name=D2U)
        b = fobj_md5(CutFile(twin, []), name=D2U)
    except Exception as exc:  # noqa: BLE001
        ctx.oracle_fail(f"C14:unexpected-exception:{type(exc).__name__}", "fobj_md5 raised on a small text", case)
        return
    md5u = hashlib.md5(u).hexdigest()  # noqa: S324
    if a != md5u:
        ctx.oracle_fail("C14:dos2unix:lf-text-altered", "a text without CR LF does not hash to its own MD5", case)
    if ref_istext(twin[:512]) and b != a:
        ctx.oracle_fail("C14:dos2unix:crlf-lf-differ",
                        "the CRLF variant of a text that fits in one read hashes differently from the LF variant", case)
    if not ref_istext(twin[:512]) and b != hashlib.md5(twin).hexdigest():  # noqa: S324
        ctx.oracle_fail("C14:dos2unix:single-read-digest", "binary twin was altered", case)


def shrink(ctx, case, sig):
    """delta-debug the case while the same signature reproduces: drop the short-read oracle,
    drop reads, remove blocks of the content (halves down to single bytes), bounded effort"""
    if "content" not in case or case["kind"] not in ("reads", "drive"):
        return strip(case)
    k = ctx.known.get(sig)
    if (k is not None and k.get("status") == "known") or any(v.signature == sig for v in ctx.violations):
        return strip(case)  # only the first report of a signature is kept
    best = strip(case)
    runner = run_reads if case["kind"] == "reads" else run_drive
    budget = [400]

    def fails(c):
        if budget[0] <= 0:
            return False
        budget[0] -= 1
        try:
            return any(s == sig for s, _ in judge(c, runner(c)))
        except Exception:  # noqa: BLE001
            return False

    if best.get("cuts") and fails({**best, "cuts": []}):
        best = {**best, "cuts": []}
    if case["kind"] == "reads":
        best = {**{k: v for k, v in best.items() if k != "ns"}, "ops": ops_of(best)}
        i = 0
        while i < len(best["ops"]) and len(best["ops"]) > 1:
            c = {**best, "ops": best["ops"][:i] + best["ops"][i + 1:]}
            if fails(c):
                best = c
            else:
                i += 1
    b = bytes.fromhex(best["content"])
    size = max(1, len(b) // 2)
    while size >= 1 and budget[0] > 0:
        i = 0
        progressed = False
        while i < len(b):
            cand = b[:i] + b[i + size:]
            if fails({**best, "content": cand.hex()}):
                b = cand
                best = {**best, "content": cand.hex()}
                progressed = True
            else:
                i += size
        if size == 1 and not progressed:
            break
        size = size // 2 if size > 1 else (1 if progressed else 0)
    return best


def load_corpus():
    import json

    d = os.path.join(os.path.dirname(os.path.dirname(os.path.dirname(os.path.abspath(__file__)))), "corpus", "C14")
    out = []
    if os.path.isdir(d):
        for n in sorted(os.listdir(d)):
            if n.endswith(".json"):
                with open(os.path.join(d, n)) as f:
                    data = json.load(f)
                out.extend(data if isinstance(data, list) else [data])
    # a stored case that names an algorithm this interpreter's hashlib does not offer is skipped
    return [c for c in out if "name" not in c or c["name"].lower() in ALGS]


def replay_case(ctx, case):
    from dvc_data.hashfile import hash as H

    kind = case.get("kind")
    _SCRATCH[0] = ctx.tmpdir()
    if kind == "reads":
        obs = run_reads(case)
    elif kind == "drive":
        obs = run_drive(case)
    elif kind == "hashfile":
        obs = run_hash_file(ctx, case)
    elif kind == "twin":
        before = len(ctx.violations)
        run_twin(ctx, case)
        new = ctx.violations[before:]
        return {"problems": [(v.signature, v.what) for v in new], "violates": bool(new)}
    elif kind == "istext":
        b = bytes.fromhex(case["block"])
        r = bool(H.istextblock(b))
        return {"istextblock": r, "reference": ref_istext(b), "violates": len(b) <= 512 and r != ref_istext(b)}
    elif kind == "d2u":
        b = bytes.fromhex(case["data"])
        return {"dos2unix": H.dos2unix(b).hex(), "reference": ref_dos2unix(b).hex(),
                "violates": H.dos2unix(b) != ref_dos2unix(b)}
    else:
        return {"violates": False, "note": "unknown case kind"}
    problems = judge(case, obs)
    show = {k: (v.hex() if isinstance(v, bytes) else [x.hex() for x in v] if isinstance(v, list) and v and
                isinstance(v[0], bytes) else v) for k, v in obs.items() if k not in ("all_chunks", "file_after", "chunks_so_far", "answers")}
    show["answers"] = [{**a, "fed": a["fed"].hex()} for a in obs.get("answers", [])]
    return {"observation": show, "problems": problems, "violates": bool(problems)}
