"""Shared machinery of C04 and C11 (hashfile.transfer): scenario format, generators, the
fault-injecting driver of the real code, the encoding into Model/Transfer.v terms and the
oracles.  The oracles use only os / json / hashlib (through lib.impl.walk_store): nothing from
dvc_data takes part in judging.

A *scenario* (the case JSON, self-contained) is

  {"prop": "C04"|"C11",
   "files": {"f0": hex, ...}          genuine file contents; the object id is md5(content)
   "dirs":  {"d0.dir": [[relpath, "f0"], ...]}   genuine listings; id = md5(canonical json)+".dir"
   "src" / "dst" / "cache": {token: null | hex}   objects of a store; null = genuine bytes,
                                      hex = these raw bytes are stored under the id (corrupt);
                                      "cache": null = no cache_odb is passed
   "src_cls"/"dst_cls": "local"|"base",  "req": [token...], "shallow", "verify", "dix", "six",
   "rounds": [{"fails": [token...], "partial": [token...], "crash": n|null, "reset": bool,
               "delete": [token...], "req": [token...]}]}
   (further optional keys: "jobs": null|1|2|4 (default 1), "hardlink": bool, "fail_kind": "eio"|"eperm"|"eexist-honest" (the object is placed, THEN FileExistsError is raised)|"eexist"
    (raised without the object: contract-violating, observation only), "observation": name - the scenario is run
    UNJUDGED and recorded in coverage.observations,
    "dst_unprot": [token...] objects of "dst" left unprotected (0o644), "dst_junk": [[token, name, hex]...] stray
    files <first 2 chars of token's id>/<name>, "dst_dir_at": [token...] a DIRECTORY at the object's path,
    "dix_init": {"dirs": [...], "files": [...]} destination index pre-seeded, "plain_dst": true destination on a
    plain LocalFileSystem (real links, no fault injection, no per-attempt snapshots), "read_only_dst": true,
    "hash_name": "md5-dos2unix" legacy stores on both sides (requested ids carry that name by default),
    "req_names": {token: hash name} requested HashInfo name other than the stores' one, "oracle_only": reason - the scenario
    is judged by the oracles only (no correspondence item); round keys "kill_state": ["before"|"after", k] abort
    around the k-th state.save_many of the destination, "query_fault": true the destination's existence queries
    raise OSError during status, "raise_in_validate": true the validate_status callback raises;
    "labels": {token: label} - the requested HashInfo of that id carries obj_name=label, as DVC sets it;
    "dst_rot": {token: hex} - the (local-class) destination initially holds these bytes under the id with
    mode 0o644: an unprotected copy that does not hash to its id, which status() re-hashes and removes;
    "dst_state": true = the destination odb gets a real hash State (sqlite), persisted across the rounds;
    "dix"/"six": false | true (a real ObjectDBIndex, empty at the start, persisted across the rounds) |
   "noop" (ObjectDBIndexNoop); "vanish": [file tokens] - objects deleted from the SOURCE by the
   validate_status hook if status counted them new, i.e. between the status phase and the uploads, and
   restored after the round;
   "partial" (subset of "fails"): the failing upload first leaves a strict prefix of the bytes under
   the final name - a non-atomic remote; "req": this round's request, default = the scenario's)

Rounds run one after the other on the same destination and the same persisted index(es);
"reset" restores the destination to "dst" and empties the destination index first; "delete"
removes objects from the destination behind the index's back (C11 only).
"""

from __future__ import annotations

import glob
import hashlib
import itertools
import json
import os
import re

from lib import impl
from lib.core import VERIF, cbool, cbytes, clist, cpair, vL, vN

IMPORTS = "From Coq Require Import NArith List.\nFrom DvcData Require Import Model.Transfer."
INPUT_TYPE = "static * list round"
MODEL_FN = "run_scen"

KNOWN_SIG = "C11:transferred-but-absent:dir-with-file-missing-on-both-sides"


class Abort(BaseException):
    """the process is killed right after an upload attempt"""


# --------------------------------------------------------------------------------------
# fault-injecting destination file system


class Recorder:
    def __init__(self, dest_path, fails, crash):
        self.dest = dest_path
        self.fails = set(fails)
        self.crash = crash
        self.calls = 0
        self.eperm = False  # injected failures are PermissionError (transfer._add._error looks at it)
        self.aborted = False
        self.partial = set()  # failing uploads that leave a truncated object under the final name
        self.partial_skipped = set()  # ... downgraded to plain failures: the final name was occupied
        self.events = []  # ("put", oid, ok) | ("partial", oid) | ("drop", oid)
        self.snaps = []  # {oid: bytes} after every upload attempt
        self.depth = 0
        self.kind = "eio"  # error kind of the injected failures: eio | eperm | eexist
        self.query_fault = False  # existence queries of the destination raise during the status phase
        self.batch = 0  # dest.add calls so far
        self.batch_pos = 0  # upload attempts inside the current dest.add call
        self.positions = []  # (batch, position in batch) per upload attempt
        self.phase = "status"  # -> "upload" once validate_status has run
        self.status_drops = []  # objects status() removed from the destination (unvouched copies)

    def oid_of(self, path):
        parts = str(path).replace(os.sep, "/").split("/")
        return "".join(parts[-2:])

    def attempt(self, oid, ok, partial=False):
        self.batch_pos += 1
        self.positions.append((self.batch, self.batch_pos))
        self.events.append(("partial", oid) if partial else ("put", oid, ok))
        self.snaps.append(store_bytes(self.dest))


_FAULTFS = None


def faultfs_class():
    global _FAULTFS
    if _FAULTFS is not None:
        return _FAULTFS
    from dvc_objects.fs.local import LocalFileSystem

    class FaultFS(LocalFileSystem):
        rec: Recorder = None  # set on the instance

        def put_file(self, lpath, rpath, callback=None, **kwargs):
            rec = self.rec
            if rec.aborted:
                raise Abort
            oid = rec.oid_of(rpath)
            rec.calls += 1
            partial = False
            placed = False
            try:
                if oid in rec.fails:
                    if oid in rec.partial:
                        try:
                            with open(lpath, "rb") as f:
                                data = f.read()
                        except OSError:
                            data = b""
                        if data and os.path.lexists(rpath):
                            # an object already sits under the final name (only when it is re-sent): the
                            # simulated non-atomic writer does not clobber it (as root it could, keeping the
                            # protected mode) - a plain failure
                            rec.partial_skipped.add(oid)
                        elif data:
                            os.makedirs(os.path.dirname(rpath), exist_ok=True)
                            with open(rpath, "wb") as f:
                                f.write(data[:-1])
                            partial = True
                    if rec.eperm or rec.kind == "eperm":
                        raise PermissionError(13, "injected upload failure")
                    if rec.kind == "eexist-honest":
                        # honours the exception's contract: the genuine object IS under the final name
                        super().put_file(lpath, rpath, callback=callback, **kwargs)
                        placed = True
                        raise FileExistsError(17, "the object is already there")
                    if rec.kind == "eexist":
                        raise FileExistsError(17, "injected upload failure")
                    raise OSError(5, "injected upload failure")
                super().put_file(lpath, rpath, callback=callback, **kwargs)
            except Exception:
                rec.attempt(oid, placed, partial)
                if rec.crash is not None and rec.calls >= rec.crash:
                    rec.aborted = True
                    raise Abort from None
                raise
            rec.attempt(oid, True)
            if rec.crash is not None and rec.calls >= rec.crash:
                rec.aborted = True
                raise Abort

        def _query(self):
            rec = self.rec
            if rec is not None and rec.query_fault and rec.phase == "status":
                raise OSError(5, "injected existence-query failure")

        def exists(self, path, *a, **kw):
            self._query()
            return super().exists(path, *a, **kw)

        def isfile(self, path, *a, **kw):
            self._query()
            return super().isfile(path, *a, **kw)

        def info(self, path, *a, **kw):
            self._query()
            return super().info(path, *a, **kw)

        def find(self, path, *a, **kw):
            self._query()
            return super().find(path, *a, **kw)

        def ls(self, path, *a, **kw):
            self._query()
            return super().ls(path, *a, **kw)

        def _removing(self, path):
            rec = self.rec
            if rec is None or rec.depth:
                return
            for p in [path] if isinstance(path, str) else list(path):
                if os.path.lexists(p):
                    if rec.phase == "status":
                        rec.status_drops.append(rec.oid_of(p))
                    else:
                        rec.events.append(("drop", rec.oid_of(p)))

        def remove(self, path, *a, **kw):
            self._removing(path)
            self.rec.depth += 1
            try:
                return super().remove(path, *a, **kw)
            finally:
                self.rec.depth -= 1

        def rm(self, path, *a, **kw):
            self._removing(path)
            self.rec.depth += 1
            try:
                return super().rm(path, *a, **kw)
            finally:
                self.rec.depth -= 1

        def rm_file(self, path):
            self._removing(path)
            self.rec.depth += 1
            try:
                return super().rm_file(path)
            finally:
                self.rec.depth -= 1

    _FAULTFS = FaultFS
    return FaultFS


# --------------------------------------------------------------------------------------
# independent observers


_OID = re.compile(r"^[0-9a-f]{32}(\.dir)?$")


def store_bytes(path) -> dict:
    """{oid: bytes} of a store directory; stray files whose name is not an object id (temporary
    leftovers like <2>/tmpXXXX, <2>/<rest>.tmp) are not objects"""
    return {o: b for o, (b, _m) in impl.walk_store(path).items() if _OID.match(o)}


def effective_store(path, cls) -> dict:
    """what a destination store vouches for at the start of a round.  ONE rule (os.stat + hashlib):
    in a local-class store an unprotected copy (mode != 0o444) whose bytes do not hash to its id
    counts as ABSENT - status() re-hashes and removes it; base-class stores: existence only."""
    out = {}
    for o, (b, mode) in impl.walk_store(path).items():
        if not _OID.match(o):
            continue
        if cls == "local" and mode != 0o444 and not genuine(o, b):
            continue
        out[o] = b
    return out


def parse_listing(b: bytes):
    """ids listed by a directory object's bytes (json only); None = not a listing"""
    try:
        raw = json.loads(b.decode("utf-8"))
    except (ValueError, UnicodeDecodeError):
        return None
    if not isinstance(raw, list):
        return None
    out = []
    for e in raw:
        if not isinstance(e, dict) or not isinstance(e.get("md5"), str):
            return None
        out.append(e["md5"])
    return out


def genuine(oid: str, b: bytes) -> bool:
    return hashlib.md5(b).hexdigest() == oid.split(".")[0]  # noqa: S324


def is_dir(o: str) -> bool:
    return o.endswith(".dir")


def open_dirs(store: dict):
    """[(dir oid, [listed ids absent])] for parseable directory objects of a store listing"""
    out = []
    for o, b in store.items():
        if is_dir(o):
            lst = parse_listing(b)
            if lst is not None:
                gone = sorted({f for f in lst if f not in store})
                if gone:
                    out.append((o, gone))
    return out


def index_items(ix):
    if ix is None:
        return None
    real = getattr(ix, "index", None)  # the no-op index stores nothing
    return {} if real is None else dict(real.items())


def noop_fields(case):
    """the r_dnoop / r_snoop fields of the model's round record (emitted once the model declares them)"""
    from lib import core

    try:
        with open(os.path.join(core.THEORIES, "Model", "Transfer.v")) as f:
            declared = "r_dnoop" in f.read()
    except OSError:
        declared = False
    if not declared:
        return ""
    return "r_dnoop := %s; r_snoop := %s; " % (cbool(case.get("dix") == "noop"), cbool(case.get("six") == "noop"))


# --------------------------------------------------------------------------------------
# scenario


class Scenario:
    def __init__(self, ctx, case):
        self.ctx = ctx
        self.case = case
        self.gen = {}  # token -> genuine bytes
        self.oid = {}  # token -> oid
        for t, hx in case["files"].items():
            b = bytes.fromhex(hx)
            self.gen[t] = b
            self.oid[t] = impl.md5hex(b)
        for t, lst in case["dirs"].items():
            entries = [(rp, self.oid[f]) for rp, f in lst]
            self.gen[t] = impl.canon_listing(entries)
            self.oid[t] = impl.dir_oid(entries)
        self.tokens = list(case["files"]) + list(case["dirs"])
        self.tok = {o: t for t, o in self.oid.items()}
        assert len(self.tok) == len(self.oid), "two tokens with one id"
        self.root = ctx.fresh("tr")
        self.p_src = os.path.join(self.root, "src")
        self.p_dst = os.path.join(self.root, "dst")
        self.p_cache = os.path.join(self.root, "cache")
        os.makedirs(self.p_src)
        os.makedirs(self.p_dst)
        self._plant(self.p_src, case["src"])
        self.has_cache = case.get("cache") is not None
        if self.has_cache:
            os.makedirs(self.p_cache)
            self._plant(self.p_cache, case["cache"])
        self._plant(self.p_dst, case["dst"])
        self._plant_rot()
        self.src0 = store_bytes(self.p_src)
        self.src_modes0 = {o: m for o, (_b, m) in impl.walk_store(self.p_src).items()}
        self.cache0 = store_bytes(self.p_cache) if self.has_cache else None
        self.dix = self.six = None
        if case.get("dix") or case.get("six"):
            from dvc_data.hashfile.db.index import ObjectDBIndex, ObjectDBIndexNoop

            def mk(kind, name):
                if kind == "noop":
                    return ObjectDBIndexNoop(None, "x")
                return ObjectDBIndex(os.path.join(self.root, "ix"), name)

            if case.get("dix"):
                self.dix = mk(case["dix"], "dest")
            if case.get("six"):
                self.six = mk(case["six"], "src")
        self._seed_index()
        self.dst_state = None
        if case.get("dst_state"):
            from dvc_data.hashfile.state import State

            self.dst_state = State(root_dir=self.root, tmp_dir=os.path.join(self.root, "state"))
        self.external = False  # objects were deleted behind the index's back
        self.excluded = {}  # oracle checks skipped, by reason
        self.rounds = []  # observations

    def bytes_of(self, t, v):
        return self.gen[t] if v is None else bytes.fromhex(v)

    def _plant(self, path, objs):
        for t, v in objs.items():
            impl.plant(path, self.oid[t], self.bytes_of(t, v))

    def _plant_rot(self):
        case = self.case
        for t, hx_ in (case.get("dst_rot") or {}).items():
            # any mode other than 0o444 is "not write-protected by this library" (0o544 / 0o555: read-only but executable)
            impl.plant(self.p_dst, self.oid[t], bytes.fromhex(hx_), mode=int(case.get("dst_rot_mode", 0o644)))
        for t in case.get("dst_unprot") or []:
            os.chmod(os.path.join(self.p_dst, self.oid[t][:2], self.oid[t][2:]), 0o644)
        for t, name, hx_ in case.get("dst_junk") or []:
            d = os.path.join(self.p_dst, self.oid[t][:2])
            os.makedirs(d, exist_ok=True)
            with open(os.path.join(d, name), "wb") as f:
                f.write(bytes.fromhex(hx_))
        for t in case.get("dst_dir_at") or []:
            os.makedirs(os.path.join(self.p_dst, self.oid[t][:2], self.oid[t][2:], "inside"), exist_ok=True)

    def _seed_index(self):
        init = self.case.get("dix_init")
        if init and self.dix is not None:
            self.dix.update([self.oid[t] for t in init.get("dirs") or []], [self.oid[t] for t in init.get("files") or []])

    def reset_dest(self):
        # remove the objects, keep the fan-out directories (rmdir is slow; empty ones are invisible)
        for d in os.listdir(self.p_dst):
            dp = os.path.join(self.p_dst, d)
            for n in os.listdir(dp):
                fp = os.path.join(dp, n)
                if os.path.isdir(fp) and not os.path.islink(fp):
                    impl.rm_rf(fp)
                else:
                    os.unlink(fp)
        self._plant(self.p_dst, self.case["dst"])
        self._plant_rot()
        if self.dix is not None:
            self.dix.clear()
            self._seed_index()

    def close(self):
        for ix in (self.dix, self.six, self.dst_state):
            if ix is not None:
                try:
                    ix.close()
                except Exception:  # noqa: BLE001
                    pass
        impl.rm_rf(self.root)

    # ---- one round on the real code
    def run_round(self, rs):
        from dvc_data.hashfile import transfer as T
        from dvc_data.hashfile.db import HashFileDB
        from dvc_data.hashfile.db.local import LocalHashFileDB
        from dvc_data.hashfile.hash_info import HashInfo

        case = self.case
        if rs.get("reset"):
            self.reset_dest()
        for t in rs.get("delete") or []:
            p = os.path.join(self.p_dst, self.oid[t][:2], self.oid[t][2:])
            if os.path.lexists(p):
                os.chmod(p, 0o644)
                os.unlink(p)
                self.external = True
        ob = {"spec": rs, "external": self.external}
        ob["dst_before_raw"] = store_bytes(self.p_dst)
        ob["dst_before"] = effective_store(self.p_dst, case["dst_cls"])
        ob["dix_before"] = index_items(self.dix)
        ob["six_before"] = index_items(self.six)
        rec = Recorder(self.p_dst, [self.oid[t] for t in rs.get("fails") or []], rs.get("crash"))
        rec.eperm = bool(self.case.get("eperm"))
        rec.partial = {self.oid[t] for t in rs.get("partial") or []}
        rec.kind = case.get("fail_kind") or "eio"
        rec.query_fault = bool(rs.get("query_fault"))
        ob["req"] = list(rs.get("req") or case["req"])
        if case.get("plain_dst"):
            from dvc_objects.fs.local import LocalFileSystem

            fs = LocalFileSystem()  # real links, no fault injection
        else:
            fs = faultfs_class()()
            fs.rec = rec
        dcls = LocalHashFileDB if case["dst_cls"] == "local" else HashFileDB
        cfg = {}
        if self.dst_state is not None:
            cfg["state"] = self.dst_state
        if case.get("read_only_dst"):
            cfg["read_only"] = True
        hn = case.get("hash_name") or "md5"  # "md5-dos2unix": legacy stores on both sides
        if hn != "md5":
            cfg["hash_name"] = hn
        dest = dcls(fs, self.p_dst, **cfg)
        real_add = dest.add

        def counting_add(*a, **kw):  # one dest.add call = one batch
            rec.batch += 1
            rec.batch_pos = 0
            return real_add(*a, **kw)

        dest.add = counting_add
        kill = rs.get("kill_state")
        real_save_many = None
        if kill and self.dst_state is not None:
            real_save_many = self.dst_state.save_many
            calls = [0]

            def killing_save_many(*a, **kw):
                calls[0] += 1
                if calls[0] == kill[1]:
                    rec.aborted = True
                    if kill[0] == "before":
                        raise Abort
                    real_save_many(*a, **kw)
                    raise Abort
                return real_save_many(*a, **kw)

            self.dst_state.save_many = killing_save_many
        hcfg = {"hash_name": hn} if hn != "md5" else {}
        src = impl.make_odb(case["src_cls"], self.p_src, **hcfg)
        cache = impl.make_odb(case.get("cache_cls", "local"), self.p_cache, **hcfg) if self.has_cache else None
        labels = case.get("labels") or {}
        names = case.get("req_names") or {}
        obj_ids = {HashInfo(names.get(t, hn), self.oid[t], obj_name=labels[t]) if t in labels
                   else HashInfo(names.get(t, hn), self.oid[t]) for t in ob["req"]}
        ob["req_order"] = [h.value for h in obj_ids]
        seen = []
        dirorder = []
        orig = T.find_tree_by_obj_id
        vanish = [self.oid[t] for t in rs.get("vanish") or []]
        removed = {}

        def on_status(st):
            # runs exactly between the status phase and the uploads: a concurrent gc of the source
            seen.append(st)
            rec.phase = "upload"
            if rs.get("raise_in_validate"):
                raise RuntimeError("validate_status refuses")
            new = {h.value for h in st.new}
            for o in vanish:
                sp = os.path.join(self.p_src, o[:2], o[2:])
                if not is_dir(o) and o in new and os.path.isfile(sp):
                    with open(sp, "rb") as f:
                        removed[o] = (f.read(), os.stat(sp).st_mode & 0o777)
                    os.chmod(sp, 0o644)
                    os.unlink(sp)

        def recording(odbs, obj_id):
            dirorder.append(obj_id.value)
            return orig(odbs, obj_id)

        T.find_tree_by_obj_id = recording
        try:
            try:
                res = T.transfer(src, dest, obj_ids, jobs=case.get("jobs", 1), verify=bool(case["verify"]),
                                 hardlink=bool(case.get("hardlink")),
                                 shallow=bool(case["shallow"]), src_index=self.six,
                                 dest_index=self.dix, cache_odb=cache, validate_status=on_status)
                ob["outcome"] = ("ok", {h.value for h in res.transferred}, {h.value for h in res.failed})
            except Abort:
                ob["outcome"] = ("crash",)
            except Exception as exc:  # noqa: BLE001
                ob["outcome"] = ("err", impl.err_code(exc), repr(exc)[:200])
        finally:
            T.find_tree_by_obj_id = orig
            if real_save_many is not None:
                del self.dst_state.save_many  # the instance attribute; the class method is back
            for o, (b, mode) in removed.items():  # the source is static across rounds
                impl.plant(self.p_src, o, b, mode)
        ob["vanished"] = sorted(removed)
        if seen:
            st = seen[0]
            ob["status"] = tuple({h.value for h in s} for s in (st.ok, st.missing, st.new, st.deleted))
        else:
            ob["status"] = None
        ob["crash"] = rec.calls if rec.aborted else None
        ob["events"] = rec.events
        ob["status_drops"] = rec.status_drops
        ob["positions"] = rec.positions
        ob["partial_skipped"] = sorted(rec.partial_skipped)
        ob["snaps"] = rec.snaps
        ob["dirorder"] = dirorder
        ob["putorder"] = [e[1] for e in rec.events if e[0] in ("put", "partial")]
        ob["dst_after"] = store_bytes(self.p_dst)
        ob["dst_after_eff"] = effective_store(self.p_dst, case["dst_cls"])
        ob["dix_after"] = index_items(self.dix)
        ob["six_after"] = index_items(self.six)
        ob["src_after"] = store_bytes(self.p_src)
        ob["cache_after"] = store_bytes(self.p_cache) if self.has_cache else None
        self.rounds.append(ob)
        return ob

    def run_all(self):
        for rs in self.case["rounds"]:
            self.run_round(rs)
        return self.rounds

    # ---- encoding into the model's terms
    def terms(self):
        """(coq input term, expected val literal) of the rounds run so far"""
        tokens = list(self.tokens)
        tokidx = {t: i for i, t in enumerate(tokens)}
        contents = []
        cidx = {}

        def ck(b):
            if b not in cidx:
                cidx[b] = len(contents)
                contents.append(b)
            return cidx[b]

        def T(o):  # oid -> token (ids foreign to the scenario get a fresh token)
            t = self.tok.get(o)
            if t is None:
                t = "x%d" % len(tokens) + (".dir" if is_dir(o) else "")
                self.tok[o] = t
                tokidx[t] = len(tokens)
                tokens.append(t)
            return t

        def I(o):
            return tokidx[T(o)]

        def cstore(st):
            return clist([cpair(cbytes(T(o)), "[%d]" % ck(b)) for o, b in sorted(st.items())])

        def cix(items):
            if items is None:
                return "None"
            return "(Some %s)" % clist([cpair(cbytes(T(o)), cbool(bool(v))) for o, v in sorted(items.items())])

        def coids(oids):
            return clist([cbytes(T(o)) for o in oids])

        def voids(oids):
            return vL(["VB [%d]" % i for i in sorted({I(o) for o in oids})])

        def vstore(st):
            return vL(["VB [%d;%d]" % p for p in sorted({(I(o), ck(b)) for o, b in st.items()})])

        def vix(items):
            if items is None:
                return vL([])
            return vL([voids([o for o, v in items.items() if v]), voids(items.keys())])

        src_term = cstore(self.src0)
        cache_term = "None" if self.cache0 is None else "(Some %s)" % cstore(self.cache0)
        corrupt = [o for o, b in sorted(self.src0.items()) if not genuine(o, b)]
        rterms = []
        rvals = []
        nf = noop_fields(self.case).replace("%", "%%")
        for ob in self.rounds:
            rs = ob["spec"]
            rterms.append(
                ("{| r_dst := %s; r_req := %s; r_shallow := %s; r_verify := %s; r_dix := %s; r_six := %s; " + nf +
                 "r_fails := %s; r_partial := %s; r_dirorder := %s; r_putorder := %s; r_crash := %s |}")
                % (cstore(ob["dst_before"]), coids(ob["req_order"]), cbool(self.case["shallow"]),
                   cbool(self.case["verify"]), cix(ob["dix_before"]), cix(ob["six_before"]),
                   coids(list(dict.fromkeys([self.oid[t] for t in rs.get("fails") or []] + ob.get("vanished", [])))),
                   clist([cpair(cbytes(T(self.oid[t])), "[%d]" % ck(self.src0[self.oid[t]][:-1]))
                          for t in rs.get("partial") or []
                          if self.src0.get(self.oid[t]) and self.oid[t] not in ob.get("vanished", [])
                          and self.oid[t] not in ob.get("partial_skipped", [])]),
                   coids(ob["dirorder"]),
                   coids(ob["putorder"]), "None" if ob["crash"] is None else "(Some %d)" % ob["crash"]))
            st = ob["status"]
            v_status = vL([]) if st is None else vL([vL([voids(s) for s in st])])
            v_events = vL([vL([vN(0), vN(I(e[1])), vN(1 if e[2] else 0)]) if e[0] == "put"
                           else vL([vN(4), vN(I(e[1]))]) if e[0] == "partial"
                           else vL([vN(1), vN(I(e[1]))]) for e in ob["events"]])
            v_snaps = vL([voids(s.keys()) for s in ob["snaps"]])
            oc = ob["outcome"]
            if oc[0] == "crash":
                v_out = vL([vN(2)])
            elif oc[0] == "err":
                v_out = vL([vN(0), vN(oc[1])])
            else:
                v_out = vL([vN(1), voids(oc[1]), voids(oc[2])])
            rvals.append(vL([v_status, v_events, v_snaps, v_out, vstore(ob["dst_after"]),
                             vL([]) if st is None else vix(ob["dix_after"]),
                             vL([]) if st is None else vix(ob["six_after"]),
                             vstore(ob["src_after"])]))
        # every content seen anywhere is in the table by now; directory-object contents that parse
        parse = []
        for b in list(contents):
            lst = parse_listing(b)
            if lst is not None and self._dir_content(b):
                parse.append(cpair("[%d]" % cidx[b], coids(lst)))
        static = ("{| s_tbl := %s; s_ctbl := %s; s_src := %s; s_cache := %s; s_parse := %s; s_corrupt := %s |}"
                  % (clist([cbytes(t) for t in tokens]), clist(["[%d]" % i for i in range(len(contents))]),
                     src_term, cache_term, clist(parse), coids(corrupt)))
        return "(%s, %s)" % (static, clist(rterms)), vL(rvals)

    def _dir_content(self, b):
        """is b stored under a directory id anywhere (only those are ever parsed)"""
        stores = [self.src0, self.cache0 or {}]
        for ob in self.rounds:
            stores.append(ob["dst_before"])
        return any(is_dir(o) and x == b for st in stores for o, x in st.items())


# --------------------------------------------------------------------------------------
# oracles


def _listing_for_transfer(S, o):
    """listing transfer() works with for directory id o: cache_odb first, then the source"""
    for st in ([S.cache0] if S.cache0 is not None else []) + [S.src0]:
        if o in st:
            lst = parse_listing(st[o])
            if lst is not None:
                return lst
    return None


def _status_listing(S, o):
    """listing status(dest) expands directory id o with (cache_odb, else the source; no fall-back)"""
    st = S.cache0 if S.cache0 is not None else S.src0
    return parse_listing(st[o]) if o in st else None


def index_hypothesis(S, ob):
    """the destination index at the start of the round is sound, or stale in the way the real
    validation detects and repairs (a directory is requested and an indexed directory object is
    gone: the index is cleared) - the Coq hypothesis ix_sound.  Returns "none" | "truthful" |
    "detected" | None (= outside the hypothesis)."""
    dixb = ob["dix_before"]
    before = ob["dst_before"]
    if dixb is None:
        return "none"
    if all(k in before for k in dixb):
        return "truthful"
    if any(is_dir(S.oid[t]) for t in ob["req"]) and any(v and k not in before for k, v in dixb.items()):
        return "detected"
    return None


def c04_preconditions(S, ob):
    """None if the round is inside C04's quantifier, else the reason it is not"""
    if index_hypothesis(S, ob) is None:
        return "stale index the validation cannot detect"
    for st in (S.src0, S.cache0 or {}, ob["dst_before"]):
        for o, b in st.items():
            if is_dir(o) and (not genuine(o, b) or parse_listing(b) is None):
                return "corrupt directory object in play"
            if is_dir(o) and any(is_dir(f) for f in parse_listing(b)):
                return "non-flat listing in play"
    if open_dirs(ob["dst_before"]):
        return "destination not closed at the start"
    req = {S.oid[t] for t in ob["req"]}
    if S.case["shallow"]:
        for t in ob["req"]:
            if is_dir(t):
                lst = parse_listing(S.gen[t])
                if any(f not in req for f in lst):
                    return "request not closed"
    return None


def judge_c04(S):
    """[(signature, what)] over the rounds of a scenario that has been run"""
    problems = []
    prev = None
    for ri, ob in enumerate(S.rounds):
        why = c04_preconditions(S, ob)
        if why is not None:
            S.excluded["c04:" + why] = S.excluded.get("c04:" + why, 0) + 1
            prev = None
            continue
        if index_hypothesis(S, ob) == "detected":
            S.excluded["judged:stale-index-detected"] = S.excluded.get("judged:stale-index-detected", 0) + 1
        # closure at every observation point
        for si, snap in enumerate(ob["snaps"]):
            od = open_dirs(snap)
            if od:
                problems.append(("C04:open-directory",
                                 f"round {ri}: after upload attempt {si + 1} ({S.tok.get(ob['putorder'][si])}) directory object "
                                 f"{S.tok.get(od[0][0])} is present without {[S.tok.get(f, f) for f in od[0][1]]}"))
                break
        od = open_dirs(ob["dst_after"])
        if od:
            problems.append(("C04:open-directory",
                             f"round {ri} ({ob['outcome'][0]}): at the end directory object {S.tok.get(od[0][0])} is present "
                             f"without {[S.tok.get(f, f) for f in od[0][1]]}"))
        oc = ob["outcome"]
        if oc[0] == "ok" and ob["status"] is not None:
            new = ob["status"][2]
            failed = oc[2]
            undelivered = {e[1] for e in ob["events"] if (e[0] == "put" and not e[2]) or e[0] in ("drop", "partial")}
            for t in ob["req"]:
                D = S.oid[t]
                if not is_dir(t) or D not in new:
                    continue
                lst = parse_listing(S.gen[t])
                gone = [f for f in lst if f not in ob["dst_after"]]
                if gone and D in ob["dst_after"]:
                    problems.append(("C04:not-withheld",
                                     f"round {ri}: {t} uploaded although {[S.tok.get(f, f) for f in gone]} did not arrive"))
                elif D not in ob["dst_after"] and D not in failed and any(f in undelivered for f in lst):
                    problems.append(("C04:not-withheld",
                                     f"round {ri}: {t} withheld because a listed file failed, but it is not reported failed"))
        # fault-free retry of the same request on the resulting destination
        rs = ob["spec"]
        if (prev is not None and prev["req"] == ob["req"] and not rs.get("reset") and not rs.get("fails") and rs.get("crash") is None
                and oc[0] == "ok"):
            verify = bool(S.case["verify"])

            blocked = {S.oid[t] for t in S.case.get("dst_dir_at") or []}  # a directory sits at the object's path

            def deliverable(o):
                return o in S.src0 and o not in blocked and not (verify and not genuine(o, S.src0[o]))

            wanted = set()
            for t in ob["req"]:
                wanted.add(S.oid[t])
                if is_dir(t) and not S.case["shallow"]:
                    wanted.update(parse_listing(S.gen[t]))
            for o in sorted(wanted):
                if o in ob["dst_after"]:
                    continue
                if is_dir(o):
                    lst = parse_listing(S.gen[S.tok[o]])
                    avail = deliverable(o) and all(f in ob["dst_before"] or deliverable(f) for f in lst)
                else:
                    avail = deliverable(o)
                if avail:
                    problems.append(("C04:retry-incomplete",
                                     f"round {ri}: fault-free retry left available object {S.tok.get(o, o)} out of the destination"))
        prev = ob
    return problems


def judge_c11(S):
    problems = []
    for ri, ob in enumerate(S.rounds):
        # the source (and cache_odb) must never change, whatever the outcome
        if ob["src_after"] != S.src0:
            problems.append(("C11:source-modified", f"round {ri}: the source store changed"))
        if S.cache0 is not None and ob["cache_after"] != S.cache0:
            problems.append(("C11:source-modified", f"round {ri}: the cache_odb store changed"))
        oc = ob["outcome"]
        rs = ob["spec"]
        if rs.get("raise_in_validate") and oc[0] != "err":
            problems.append(("C11:validate-exception-swallowed",
                             f"round {ri}: validate_status raised, transfer() returned {oc[0]}"))
        if oc[0] == "err" and (ob["status"] is None or rs.get("raise_in_validate")) and \
                ob["dst_after_eff"] != ob["dst_before"]:
            problems.append(("C11:error-but-modified",
                             f"round {ri}: transfer() raised {oc[2]} before any upload, yet the destination changed"))
        if S.case.get("read_only_dst"):
            q = {S.oid[t] for t in ob["req"]}
            anything_new = any(o in S.src0 and o not in ob["dst_before"] for o in q)
            if ob["dst_after"] != ob["dst_before_raw"]:
                problems.append(("C11:readonly-modified", f"round {ri}: the read-only destination changed"))
            if anything_new and oc[:2] != ("err", 1):
                problems.append(("C11:readonly-not-refused",
                                 f"round {ri}: read-only destination, new objects requested, outcome {oc[:2]}"))
            if not anything_new and not (oc[0] == "ok" and not oc[1] and not oc[2]):
                problems.append(("C11:readonly-not-refused",
                                 f"round {ri}: read-only destination, nothing new, outcome {oc[:2]} instead of the empty result"))
        if oc[0] != "ok":
            continue
        transferred, failed = oc[1], oc[2]
        # the four status sets are what the validate_status callback RECEIVED in this round; a
        # round that returned a result without calling it has told the caller nothing
        hint = ""
        if ob["status"] is None:
            s_ok, s_missing, s_new, s_deleted = set(), set(), set(), set()
            hint = " (validate_status was not called: nothing was reported missing)"
        else:
            s_ok, s_missing, s_new, s_deleted = ob["status"]
        before, after = ob["dst_before"], ob["dst_after"]
        indexed = ob["dix_before"] is not None or ob["six_before"] is not None
        name = lambda o: S.tok.get(o, o)  # noqa: E731
        # the ids the request is about
        hashes = set()
        same_view = True
        expand_ok = True
        for t in ob["req"]:
            o = S.oid[t]
            hashes.add(o)
            if is_dir(o) and not S.case["shallow"]:
                lst = _status_listing(S, o)
                if lst is None:
                    expand_ok = False
                else:
                    hashes.update(lst)
                if S.cache0 is not None and S.cache0.get(o) != S.src0.get(o):
                    same_view = False
        if not expand_ok:
            continue
        if transferred & failed or (transferred | failed) != s_new:
            problems.append(("C11:not-a-partition",
                             f"round {ri}: transferred={sorted(map(name, transferred))} failed={sorted(map(name, failed))} "
                             f"new={sorted(map(name, s_new))}"))
        if not indexed and same_view:
            want_new = {o for o in hashes if o in S.src0 and o not in before}
            if s_new != want_new:
                problems.append(("C11:new-wrong",
                                 f"round {ri}: status.new={sorted(map(name, s_new))}, in source and not in destination: "
                                 f"{sorted(map(name, want_new))}"))
        dropped = {e[1] for e in ob["events"] if e[0] == "drop"}
        for o in sorted(transferred):
            if o not in after:
                lst = _listing_for_transfer(S, o) if is_dir(o) else None
                if lst is not None and any(f not in S.src0 and f not in before for f in lst):
                    problems.append((KNOWN_SIG,
                                     f"round {ri}: {name(o)} lists a file missing on both sides, is withheld, yet reported transferred"))
                elif o in dropped:
                    problems.append(("C11:transferred-but-absent:verify-dropped",
                                     f"round {ri}: {name(o)} was removed by verification, yet reported transferred"))
                else:
                    problems.append(("C11:transferred-but-absent:other",
                                     f"round {ri}: {name(o)} reported transferred but absent from the destination"))
            elif after[o] != S.src0.get(o):
                problems.append(("C11:transferred-wrong-bytes",
                                 f"round {ri}: {name(o)} reported transferred; destination bytes differ from the source's"))
            elif S.case["verify"] and not genuine(o, after[o]):
                problems.append(("C11:transferred-corrupt",
                                 f"round {ri}: verify=True, {name(o)} reported transferred, but the bytes that arrived "
                                 f"do not hash to the id"))
        # an upload that left a truncated object behind did not deliver: it must be reported failed
        for o in sorted({e[1] for e in ob["events"] if e[0] == "partial"}):
            if o not in failed:
                problems.append(("C11:partial-not-failed",
                                 f"round {ri}: the upload of {name(o)} failed after writing a truncated object, "
                                 f"but it is not reported failed"
                                 + (" (reported transferred)" if o in transferred else "")))
        # absent afterwards => failed or missing.  Hypothesis when a destination index answers:
        # closed destination, coherent directory copies, and an index that is either truthful or
        # stale in the way the real validation detects (a directory is requested and an indexed
        # directory object is gone: the index is cleared)
        closed_before = not open_dirs(before)
        st_view = S.cache0 if S.cache0 is not None else S.src0
        views_agree = all(st_view[o] == b for o, b in before.items() if is_dir(o) and o in st_view)
        ih = index_hypothesis(S, ob)
        hyp = ih == "none" or (ih is not None and closed_before and views_agree)
        if hyp and ih == "detected":
            S.excluded["judged:stale-index-detected"] = S.excluded.get("judged:stale-index-detected", 0) + 1
        if not same_view:
            S.excluded["absent-unreported:cache-source-disagree"] = S.excluded.get("absent-unreported:cache-source-disagree", 0) + 1
        elif not hyp:
            S.excluded["absent-unreported:index-hypothesis"] = S.excluded.get("absent-unreported:index-hypothesis", 0) + 1
        else:
            for o in sorted(hashes):
                if o not in after and o not in failed and o not in s_missing and o not in transferred:
                    problems.append(("C11:absent-unreported",
                                     f"round {ri}: {name(o)} is absent afterwards but neither failed nor missing" + hint))
        attempted = set(ob["putorder"])
        if not same_view:
            # cache_odb and the source disagree about a requested directory's bytes: the two
            # status calls expand different listings (reported to the owner; see ASSUMPTIONS)
            S.excluded["resent:cache-source-disagree"] = S.excluded.get("resent:cache-source-disagree", 0) + 1
        for o in sorted(before) if same_view else []:
            if o in attempted or o in transferred or o in failed:
                problems.append(("C11:resent",
                                 f"round {ri}: {name(o)} was already in the destination but was "
                                 f"{'uploaded again' if o in attempted else 'reported'}"))
    return problems


def features(S):
    """facts about a run scenario: distribution buckets + the non-triviality verdict"""
    f = set()
    uploads = 0
    for ob in S.rounds:
        uploads += sum(1 for e in ob["events"] if e[0] == "put" and e[2])
        if any(e[0] == "put" and not e[2] for e in ob["events"]):
            f.add("failure")
        if any(e[0] == "drop" for e in ob["events"]):
            f.add("drop")
        if any(e[0] == "partial" for e in ob["events"]):
            f.add("partial")
            f.add("failure")
        if ob["spec"].get("req"):
            f.add("per-round-request")
        if ob.get("vanished"):
            f.add("vanished-source-object")
        if any(e[0] == "put" and not e[2] and e[1] not in S.src0 for e in ob["events"]):
            f.add("upload-of-lost-source-file")
        if ob["crash"] is not None:
            f.add("crash")
        if ob["status"] is not None and ob["status"][1]:
            f.add("missing-both")
        if ob["dst_before"] and ob["spec"].get("reset"):
            f.add("prepopulated")
        if ob["outcome"][0] == "err":
            f.add("error%d" % ob["outcome"][1])
        if ob["spec"].get("delete"):
            f.add("external-delete")
    if uploads:
        f.add("upload")
    nontrivial = uploads > 0 and bool(f & {"failure", "crash", "drop", "missing-both", "prepopulated"})
    return f, nontrivial


# --------------------------------------------------------------------------------------
# reporting, observations, input dimensions

def report(ctx, problems, case):
    """every oracle failure is a violation (inputs the check does not judge are not generated as judged:
    they run as OBSERVATIONS, see observe())"""
    for sig, what in problems:
        ctx.oracle_fail(sig, what, case)
    return list(problems)


def observe(ctx, S, name, static):
    """an UNJUDGED run: record what the real code did on this input (evidence: coverage.observations)"""
    parts = []
    for ri, ob in enumerate(S.rounds):
        oc = ob["outcome"]
        if oc[0] == "ok":
            res = "transferred=%s failed=%s" % (sorted(S.tok.get(o, o) for o in oc[1]), sorted(S.tok.get(o, o) for o in oc[2]))
        elif oc[0] == "err":
            res = "raised " + oc[2]
        else:
            res = "aborted"
        od = open_dirs(ob["dst_after"])
        parts.append("round %d: %s; destination afterwards %s%s" % (
            ri, res, sorted(S.tok.get(o, o) for o in ob["dst_after"]),
            "; directory object %s present without %s" % (S.tok.get(od[0][0]), [S.tok.get(f, f) for f in od[0][1]]) if od else ""))
    ctx.extra.setdefault("observations", []).append(
        {"name": name, "what the real code did": static + " Observed: " + " | ".join(parts), "case": S.case})
    count_dims(ctx, {"observation:" + name})
    ctx.count("observation:" + name)


NOTE_DIMS = {"chain": "stream:sharing-chain", "history": "stream:multi-round-history", "corpus": "stream:fixed-corpus"}


def count_dims(ctx, dims):
    dims = {NOTE_DIMS.get(k, k) for k in dims}
    d = ctx.extra.setdefault("input_dimensions", {})
    for k in sorted(set(dims)):
        d[k] = d.get(k, 0) + 1


def name_dims(relpaths):
    import unicodedata

    out = set()
    rps = list(relpaths)
    parts = [p for rp in rps for p in rp.split("/")]
    for p in parts:
        if "\\" in p:
            out.add("name:backslash")
        if " " in p:
            out.add("name:space")
        if p.startswith("."):
            out.add("name:leading-dot")
        if any("\u0400" <= c <= "\u04ff" for c in p):
            out.add("name:cyrillic")
        if any("\u3040" <= c <= "\u9fff" for c in p):
            out.add("name:cjk")
        if any(ord(c) >= 0x1F300 for c in p):
            out.add("name:emoji")
        if p.endswith(".dir"):
            out.add("name:ends-with-.dir")
        if len(p) == 1:
            out.add("name:1-char")
        if len(p) >= 200:
            out.add("name:200-chars")
        if any(ord(c) < 32 for c in p) or '"' in p:
            out.add("name:json-escaped")
    sp = set(parts)
    if any(unicodedata.normalize("NFC", p) != p and unicodedata.normalize("NFC", p) in sp for p in sp):
        out.add("name:non-NFC-next-to-composed-twin")
    if any(a != b and a.lower() == b.lower() for a in sp for b in sp):
        out.add("name:case-twins")
    if any(a != b and b.startswith(a) for a in sp for b in sp if len(a) > 1):
        out.add("name:prefix-siblings")
    if any(rp.replace("\\", "/") == other for rp in rps for other in rps if rp != other):
        out.add("name:slash-backslash-twins")
    if any(rp.count("/") >= 2 for rp in rps):
        out.add("shape:depth>=3")
    return out


def dimensions(S):
    """input dimensions (tools/COVERAGE_AUDIT.md) a run scenario had"""
    case = S.case
    d = set()
    req = set()
    for ob in S.rounds:
        req.update(ob["req"])
    for t in req:
        if is_dir(t) and t in case["dirs"]:
            d |= name_dims([rp for rp, _ in case["dirs"][t]])
            lst = case["dirs"][t]
            if not lst:
                d.add("shape:empty-listing-requested")
                if len([x for x in req if is_dir(x)]) == 1:
                    d.add("shape:empty-listing-alone")
            if len(lst) == 1:
                d.add("shape:one-file-directory")
            if len({f for _, f in lst}) < len(lst):
                d.add("shape:duplicate-content-in-one-directory")
            if any(is_dir(f) for _, f in lst):
                d.add("shape:non-flat-listing")
            for u in req:
                if is_dir(u) and u != t and u in case["dirs"] and lst and \
                        {f for _, f in lst} == {f for _, f in case["dirs"][u]}:
                    d.add("shape:directories-sharing-all-files")
    if any(case["files"].get(t) == "" for t in case["files"]):
        d.add("shape:zero-length-file")
    if shared_files(case):
        d.add("shape:file-shared-across-directories")
    if case.get("labels"):
        d.add("id:labelled-" + ("dir+file" if any(is_dir(t) for t in case["labels"]) and
                                  any(not is_dir(t) for t in case["labels"]) else "some"))
    if case.get("hash_name") and case["hash_name"] != "md5":
        d.add("store:legacy-hash-name(%s)" % case["hash_name"])
        if case.get("req_names"):
            d.add("id:legacy-store-directory-requested-as-md5")
    elif case.get("req_names"):
        d.add("id:mixed-hash-names")
    d.add("flag:jobs=%s" % case.get("jobs", 1))
    d.add("flag:verify=%d,hardlink=%d%s" % (bool(case["verify"]), bool(case.get("hardlink")),
                                            "(real links)" if case.get("plain_dst") and case.get("hardlink") else ""))
    d.add("flag:shallow=%d,dest_index=%d" % (bool(case["shallow"]), bool(case["dix"])))
    d.add("class:%s->%s" % (case["src_cls"], case["dst_cls"]))
    for side, key in (("dest", "dix"), ("src", "six")):
        if case.get(key):
            d.add("index:%s=%s" % (side, "noop" if case[key] == "noop" else "real"))
    d.add("cache_odb:" + ("none" if case.get("cache") is None else
                          "all-dirs" if set(case["cache"]) >= set(case["dirs"]) else "some-dirs"))
    if case.get("dst_state"):
        d.add("state:destination-real")
    if case.get("read_only_dst"):
        d.add("store:read-only-destination")
    if case.get("dst_rot"):
        d.add("pre:corrupt-unprotected-copy")
        if any(v == "" for v in case["dst_rot"].values()):
            d.add("pre:empty-leftover(%s)" % case["dst_cls"])
    if case.get("dst_unprot"):
        d.add("pre:right-object-unprotected(%s)" % case["dst_cls"])
    if any(v is not None for v in case["dst"].values()):
        d.add("pre:corrupt-protected-copy")
    if case.get("dst_junk"):
        d.add("pre:temp-leftovers")
    if case.get("dst_dir_at"):
        d.add("pre:directory-at-object-path")
    if case["dst"]:
        d.add("pre:right-object-protected")
    if case.get("dix_init"):
        d.add("dest-index:lists-directory-without-files" if not case["dix_init"].get("files") else "dest-index:pre-seeded")
    kind = case.get("fail_kind") or ("eperm" if case.get("eperm") else "eio")
    first_faulty = None
    for ri, ob in enumerate(S.rounds):
        rs = ob["spec"]
        if ob["dix_before"] == {} and case.get("dix") is True:
            d.add("dest-index:empty")
        if ob["dix_before"]:
            if any(k not in ob["dst_before"] for k in ob["dix_before"]):
                d.add("dest-index:stale")
            if any((not v) and k in ob["dix_before"] for k, v in ob["dix_before"].items()) and \
                    any(v and k not in ob["dst_before"] for k, v in ob["dix_before"].items()):
                d.add("dest-index:files-of-an-absent-directory")
        if rs.get("delete"):
            d.add("stream:history-external-deletion")
        if rs.get("query_fault"):
            d.add("fault:existence-query(%s)" % case["dst_cls"])
        if rs.get("raise_in_validate"):
            d.add("flag:validate_status-raises")
        if rs.get("kill_state"):
            d.add("kill:state.save_many-" + rs["kill_state"][0])
        elif ob["crash"] is not None:
            d.add("kill:after-upload-attempt")
        if rs.get("partial"):
            d.add("fault:partial-upload")
        if ob.get("vanished"):
            d.add("fault:source-object-vanishes-after-status")
        if ob.get("status_drops"):
            d.add("pre:unvouched-copy-removed-by-status")
        if rs.get("req"):
            d.add("stream:per-round-request")
        sizes = {}
        for b, pos in ob.get("positions") or []:
            sizes[b] = max(sizes.get(b, 0), pos)
        attempts = [e for e in ob["events"] if e[0] in ("put", "partial")]
        faulty = False
        for e, (b, pos) in zip(attempts, ob.get("positions") or []):
            if e[0] == "put" and e[2]:
                continue
            faulty = True
            k = "enoent" if (e[1] in ob.get("vanished", []) or e[1] not in S.src0) else kind
            if is_dir(e[1]):
                where = "directory-object"
            elif pos == 1:
                where = "first-of-batch"
            elif pos == sizes[b]:
                where = "last-of-batch"
            else:
                where = "middle-of-batch"
            d.add("fault:%s@%s" % (k, where))
        if faulty and first_faulty is None:
            first_faulty = ri
        if faulty and ri > 0 and not rs.get("reset") and first_faulty == ri and ob["crash"] is None:
            d.add("fault:only-on-retry")
    return d


# --------------------------------------------------------------------------------------
# generators


SPECIAL_RELPATHS = ["back\\slash", "dir\\file.txt", "a\\b\\c", ".hidden", "sub/..x", "with space/na me",
                    "\u00e9/\u65e5\u672c", 'quo"te', "tab\there", "ctl\x01x", "sub/.dot", " lead", "trail "]
TWINS = [("sub/data", "sub\\data"), ("a/b/c", "a\\b\\c"), ("x/y", "x\\y"), ("t/u/v", "t/u\\v")]


def special_relpaths(rng, lst):
    """relpath SHAPES (in place): ~20% of the listings get a special name (backslash, leading dots,
    spaces, unicode, characters json escapes), ~8% a twin pair `x/y` vs `x\\y` naming two different
    files.  Stored relpaths are opaque strings for the harness: the listing the model and the closure
    audit use is json.loads of the real bytes."""
    used = {rp for rp, _ in lst}
    if lst and rng.random() < 0.2:
        for _ in range(rng.choice([1, 1, 2])):
            name = rng.choice(SPECIAL_RELPATHS)
            if name not in used:
                i = rng.randrange(len(lst))
                used.discard(lst[i][0])
                lst[i][0] = name
                used.add(name)
    distinct = list(dict.fromkeys(f for _, f in lst))
    if len(distinct) >= 2 and rng.random() < 0.08:
        a, b = rng.choice(TWINS)
        if a not in used and b not in used:
            fa, fb = rng.sample(distinct, 2)
            ia = next(i for i, e in enumerate(lst) if e[1] == fa)
            ib = next(i for i, e in enumerate(lst) if e[1] == fb)
            lst[ia][0], lst[ib][0] = a, b


def gen_universe(rng, prop):
    """files, listings and the source/cache stores of one scenario"""
    salt = "%08x" % rng.getrandbits(32)
    nf = rng.randint(3, 6)
    files = {}
    for i in range(nf):
        if i == 0 and rng.random() < 0.4:
            b = b""
        else:
            b = f"{salt}-file-{i}".encode() * rng.choice([1, 1, 2])
        files[f"f{i}"] = b.hex()
    ftoks = list(files)
    dirs = {}
    seen = set()
    nd = rng.randint(1, 4)
    for j in range(nd):
        if j > 0 and "empty" not in seen and rng.random() < 0.06:
            seen.add("empty")
            dirs[f"d{j}.dir"] = []  # an empty directory
            continue
        for _ in range(5):
            k = rng.randint(1, min(4, nf))
            chosen = rng.sample(ftoks, k)
            lst = []
            for n, f in enumerate(chosen):
                lst.append([rng.choice(["", "sub/", f"s{j}/"]) + f"p{n}", f])
            if rng.random() < 0.35:
                lst.append(["dup/again", rng.choice(chosen)])
            special_relpaths(rng, lst)
            key = tuple(sorted((rp, f) for rp, f in lst))
            if key not in seen:
                seen.add(key)
                dirs[f"d{j}.dir"] = lst
                break
    dtoks = list(dirs)
    listed = sorted({f for lst in dirs.values() for _, f in lst})
    src = {t: None for t in ftoks + dtoks}
    notes = []
    r = rng.random()
    if r < 0.3 and listed:
        f = rng.choice(listed)
        del src[f]
        notes.append("src-missing-file")
    elif r < 0.35 and prop == "C11":
        for f in rng.sample(ftoks, min(2, len(ftoks))):
            src.pop(f, None)
        notes.append("src-missing-files")
    r = rng.random()
    if r < 0.3:
        cands = [f for f in listed if f in src] or [f for f in ftoks if f in src]
        if cands:
            f = rng.choice(cands)
            src[f] = (bytes.fromhex(files[f]) + b"#bitrot").hex()
            notes.append("src-corrupt-file")
    if prop == "C11":
        r = rng.random()
        d = rng.choice(dtoks)
        if r < 0.12:
            other = [[rp, f] for rp, f in dirs[d]][:-1] + [["intruder", rng.choice(ftoks)]]
            src[d] = _listing_hex(files, other)
            notes.append("src-corrupt-dir")
        elif r < 0.16:
            src[d] = rng.choice([b"{not json", b'{"a": 1}']).hex()
            notes.append("src-unparseable-dir")
        elif r < 0.20:
            del src[d]
            notes.append("src-missing-dir")
    cache = None
    r = rng.random()
    if r < 0.2:
        cache = {d: None for d in dtoks}
        notes.append("cache-all-dirs")
    elif r < 0.3:
        cache = {d: None for d in dtoks if rng.random() < 0.6}
        notes.append("cache-some-dirs")
    return {"files": files, "dirs": dirs, "src": src, "cache": cache}, notes


def _listing_hex(files, lst):
    entries = [(rp, impl.md5hex(bytes.fromhex(files[f]))) for rp, f in lst]
    return impl.canon_listing(entries).hex()


def gen_dest(rng, prop, uni):
    files, dirs = uni["files"], uni["dirs"]
    ftoks, dtoks = list(files), list(dirs)
    dst = {}
    r = rng.random()
    if prop == "C04":
        if r < 0.4:
            kind = "empty"
        elif r < 0.7:
            kind = "some-files"
            for f in ftoks:
                if rng.random() < 0.4:
                    dst[f] = None
        else:
            kind = "whole-dirs"
            for d in rng.sample(dtoks, rng.randint(1, max(1, len(dtoks) - 1))):
                dst[d] = None
                for _, f in dirs[d]:
                    dst[f] = None
            for f in ftoks:
                if rng.random() < 0.15:
                    dst[f] = None
    else:
        if r < 0.25:
            kind = "empty"
        else:
            kind = "arbitrary"
            p = rng.choice([0.15, 0.35, 0.6])
            for t in ftoks + dtoks:
                if rng.random() < p:
                    dst[t] = None
            if dst and rng.random() < 0.2:
                t = rng.choice([t for t in dst])
                if not is_dir(t):
                    dst[t] = (bytes.fromhex(files[t]) + b"#dest-bitrot").hex()
                    kind = "arbitrary+corrupt"
    return dst, kind


def gen_request(rng, prop, uni):
    files, dirs = uni["files"], uni["dirs"]
    ftoks, dtoks = list(files), list(dirs)
    r = rng.random()
    some_dirs = rng.sample(dtoks, rng.randint(1, len(dtoks)))
    if prop == "C04" or r < 0.6:
        if rng.random() < 0.6:
            req = list(some_dirs)
            for d in some_dirs:
                for _, f in dirs[d]:
                    if f not in req:
                        req.append(f)
            for f in ftoks:
                if f not in req and rng.random() < 0.25:
                    req.append(f)
            return req, True, "closed-shallow"
        req = list(some_dirs) + [f for f in ftoks if rng.random() < 0.25]
        return req, False, "expand"
    if r < 0.75:
        return list(some_dirs), True, "dirs-only-shallow"
    if r < 0.88:
        k = rng.randint(1, len(ftoks))
        return rng.sample(ftoks, k), rng.random() < 0.5, "files-only"
    req = list(some_dirs) + [f for f in ftoks if rng.random() < 0.5]
    return req, True, "mixed-shallow"


def gen_base(rng, prop):
    """one base scenario (no rounds yet) + distribution notes"""
    uni, notes = gen_universe(rng, prop)
    dst, dkind = gen_dest(rng, prop, uni)
    req, shallow, rkind = gen_request(rng, prop, uni)
    if prop == "C11" and rng.random() < 0.15:
        # an id that exists on neither side
        uni["files"]["g0"] = ("ghost-" + next(iter(uni["files"].values()))).encode().hex()
        req.append("g0")
        notes.append("ghost-id")
    rng.shuffle(req)
    p_verify = 0.75 if any(n.startswith("src-corrupt") for n in notes) else 0.4
    case = {"prop": prop, **uni, "dst": dst, "req": req, "shallow": shallow,
            "verify": rng.random() < p_verify, "src_cls": rng.choice(["local", "base"]),
            "dst_cls": "local", "dix": False, "six": False, "rounds": []}
    # fetch direction: a source index makes the source-side status trust "directory present =>
    # files present": a listed file the source has lost is counted new and its upload cannot succeed
    lost = any(n.startswith("src-missing-file") for n in notes)
    if rng.random() < (0.6 if lost else 0.08):
        case["six"] = rng.choice([True, "noop"])
        notes.append("src-index:" + ("noop" if case["six"] == "noop" else "real") + ("+lost-file" if lost else ""))
    resend = "src-corrupt-dir" in notes and uni["cache"] is not None
    if rng.random() < 0.3 and not resend:
        # the failure is a PermissionError: _add._error then asks whether the destination object is
        # protected (a concurrent writer's object); with a single writer it never is - EXCEPT when an
        # object already present (protected) is re-sent, which only happens when cache_odb and the source
        # disagree about a directory's listing: there the real code (truthfully) reports it transferred,
        # the model reports it failed; that combination is not generated (reported to the owner)
        case["eperm"] = True
        notes.append("fail-kind:PermissionError")
    case["jobs"] = rng.choice([None, 1, 1, 2, 4])
    if rng.random() < 0.25:
        case["hardlink"] = True  # through the fault-injecting file system this degenerates to copy
    if rng.random() < 0.4:
        # requested ids carry a descriptive label (HashInfo.obj_name), as DVC sets it
        toks = list(req) if rng.random() < 0.6 else [t for t in req if rng.random() < 0.5]
        case["labels"] = make_labels(rng, case, toks)
        notes.append("labels:" + ("all" if len(toks) == len(req) else "some" if toks else "none"))
    return case, notes + ["dest:" + dkind, "req:" + rkind]


def make_labels(rng, case, toks):
    out = {}
    for t in toks:
        if is_dir(t):
            out[t] = rng.choice(["dir/", "data", "data/" + t.split(".")[0], "donn\u00e9es/\u65e5\u672c"])
        else:
            rps = [rp for lst in case["dirs"].values() for rp, f in lst if f == t]
            out[t] = rng.choice(["data/" + (rps[0] if rps else t), t, "donn\u00e9es/" + t, "a label with spaces"])
    return out


ROT_UNSAFE = ("src-unparseable-dir", "src-missing-dir", "src-corrupt-dir", "cache-some-dirs")


def query_tokens(case):
    """tokens the status query of the scenario's request covers (listed files too when expanded)"""
    q = list(case["req"])
    if not case["shallow"]:
        for t in case["req"]:
            if is_dir(t):
                q += [f for _, f in case["dirs"][t]]
    return list(dict.fromkeys(q))


def add_rot(rng, case, notes, prop):
    """pre-seed a LOCAL destination (no index) with 1-2 damaged, not write-protected copies (mode
    0o644) of objects the status query covers: status() re-hashes and removes them, they count as
    absent.  C04: files that no directory present in the destination lists (the effective destination
    stays closed); C11: any queried id, the requested directory object itself included."""
    if case["dst_cls"] != "local" or case["dix"] or any(n in ROT_UNSAFE for n in notes):
        return False
    q = query_tokens(case)
    if prop == "C04":
        cands = [t for t in q if not is_dir(t) and t not in case["dst"]]
    else:
        cands = list(q)
    if not cands:
        return False
    rot = {}
    for t in rng.sample(cands, min(len(cands), rng.choice([1, 1, 2]))):
        if is_dir(t):
            b = bytes.fromhex(_listing_hex(case["files"], case["dirs"][t]))[:-1] or b"["
        else:
            g = bytes.fromhex(case["files"][t])
            b = g[:-1] if len(g) > 1 and rng.random() < 0.5 else g + b"#rot"
        rot[t] = b.hex()
        case["dst"].pop(t, None)
    case["dst_rot"] = rot
    m = rng.choice([0o644, 0o644, 0o544, 0o555, 0o600, 0o664])
    if m != 0o644:
        case["dst_rot_mode"] = m
    return True


def closed_req(case, d):
    """directory token d together with the files it lists"""
    out = [d]
    for _, f in case["dirs"][d]:
        if f not in out:
            out.append(f)
    return out


def gen_history(rng):
    """C11: a multi-round history on ONE persistent destination index with per-round requests and
    deletions behind the index's back: push directory A; A's directory object (and some of its
    files) vanish from the destination; then a different request (another directory B and a file x
    of A) is answered with the same index.  Returns (case, notes)."""
    salt = "%08x" % rng.getrandbits(32)
    nf = rng.randint(4, 6)
    files = {f"f{i}": f"{salt}-hist-{i}".encode().hex() for i in range(nf)}
    ftoks = list(files)
    ka = rng.randint(1, 3)
    a_files = ftoks[:ka]
    b_files = ftoks[ka:ka + rng.randint(1, 2)]
    dirs = {"d0.dir": [[f"a{n}", f] for n, f in enumerate(a_files)],
            "d1.dir": [[f"sub/b{n}", f] for n, f in enumerate(b_files)]}
    notes = ["history"]
    if rng.random() < 0.3:
        # a third directory sharing a file with A
        dirs["d2.dir"] = [["c0", a_files[-1]], ["c1", ftoks[-1]]]
        notes.append("history:shared-dir")
    case = {"prop": "C11", "files": files, "dirs": dirs, "src": {t: None for t in ftoks + list(dirs)},
            "cache": None, "dst": {f: None for f in ftoks[ka + 2:] if rng.random() < 0.3},
            "req": ["d0.dir"], "shallow": rng.random() < 0.5, "verify": rng.random() < 0.3,
            "src_cls": rng.choice(["local", "base"]), "dst_cls": rng.choice(["local", "base"]),
            "dix": True, "six": False, "rounds": []}
    sh = case["shallow"]

    def want(d):
        return closed_req(case, d) if sh else [d]

    x = a_files[0]
    r1 = {"fails": [], "crash": None, "reset": True, "req": want("d0.dir")}
    if rng.random() < 0.15:
        r1["fails"] = [rng.choice(closed_req(case, "d0.dir"))]
        notes.append("history:first-round-faulty")
    rounds = [r1]
    r = rng.random()
    if r < 0.35:
        dele = ["d0.dir", x]
    elif r < 0.55:
        dele = ["d0.dir"]
    elif r < 0.8:
        dele = ["d0.dir"] + list(a_files)
    elif r < 0.9:
        dele = [x]  # a file only: staleness the validation cannot see
    else:
        dele = ["d0.dir", x] + (["d1.dir"] if rng.random() < 0.5 else [])
    r = rng.random()
    if r < 0.45:
        req2 = want("d1.dir") + [x]
        notes.append("history:round2=B+x")
    elif r < 0.6:
        req2 = closed_req(case, "d1.dir") + [x] if sh else ["d1.dir", x] + [f for f in a_files[1:]]
        notes.append("history:round2=B+files")
    elif r < 0.75:
        req2 = [x] + [f for f in a_files[1:] if rng.random() < 0.5]
        notes.append("history:round2=files-only")
    elif r < 0.9:
        req2 = want("d0.dir")
        notes.append("history:round2=A-again")
    else:
        req2 = want("d1.dir") + want("d0.dir")
        notes.append("history:round2=A+B")
    req2 = list(dict.fromkeys(req2))
    rng.shuffle(req2)
    rounds.append({"fails": [], "crash": None, "reset": False, "delete": dele, "req": req2})
    for _ in range(rng.choice([0, 0, 1, 2])):
        rs = {"fails": [], "crash": None, "reset": False,
              "req": rng.choice([want("d0.dir"), want("d1.dir") + [x], [x], want("d0.dir") + want("d1.dir")])}
        rs["req"] = list(dict.fromkeys(rs["req"]))
        if rng.random() < 0.4:
            rs["delete"] = rng.sample(["d0.dir", "d1.dir"] + ftoks, rng.randint(1, 2))
        if rng.random() < 0.2:
            rs["fails"] = [rng.choice(rs["req"])]
        rounds.append(rs)
    case["rounds"] = rounds
    notes.append("history:rounds=%d" % len(rounds))
    return case, notes


def gen_history_c04(rng):
    """C04: push T1={a,b,..}; a "remote gc" removes T1's directory object and those of its files no
    other present directory lists (the destination STAYS closed, the persistent destination index
    goes stale); push a different tree T2 that shares `a` (closed request) on the same index; repeat.
    Returns (case, notes)."""
    salt = "%08x" % rng.getrandbits(32)
    files = {f"f{i}": f"{salt}-gc-{i}".encode().hex() for i in range(5)}
    a, b, c, e, g = list(files)
    dirs = {"d0.dir": [["a", a], ["sub/b", b]] + ([["e", e]] if rng.random() < 0.3 else []),
            "d1.dir": [["a", a], ["c", c]] + ([["again/a", a]] if rng.random() < 0.3 else [])}
    notes = ["history"]
    third = rng.random() < 0.4
    if third:
        dirs["d2.dir"] = [["b", b], ["g", g]]  # keeps b alive through the gc
        notes.append("history:third-dir-keeps-b")
    shallow = rng.random() < 0.5
    case = {"prop": "C04", "files": files, "dirs": dirs, "src": {t: None for t in list(files) + list(dirs)},
            "cache": None, "dst": {}, "req": ["d0.dir"], "shallow": shallow, "verify": rng.random() < 0.3,
            "src_cls": rng.choice(["local", "base"]), "dst_cls": rng.choice(["local", "base"]),
            "dix": True, "six": False, "rounds": []}
    if third and rng.random() < 0.5:
        case["dst"] = {"d2.dir": None, b: None, g: None}  # already there, closed
        notes.append("dest:whole-dirs")

    def want(*ds):
        out = []
        for d in ds:
            out += closed_req(case, d) if shallow else [d]
        return list(dict.fromkeys(out))

    first = want("d0.dir", "d2.dir") if third and not case["dst"] else want("d0.dir")
    rounds = [{"fails": [], "crash": None, "reset": True, "req": first}]
    t1_files = [f for _, f in dirs["d0.dir"]]
    kept = {f for _, f in dirs.get("d2.dir", [])} if third else set()
    gone = [f for f in dict.fromkeys(t1_files) if f not in kept]
    r = rng.random()
    if r < 0.6:
        dele = ["d0.dir"] + gone
        notes.append("history:gc=dir+all-unshared-files")
    elif r < 0.85:
        dele = ["d0.dir", a]
        notes.append("history:gc=dir+a")
    else:
        dele = ["d0.dir"]
        notes.append("history:gc=dir-only")
    r2 = {"fails": [], "crash": None, "reset": False, "delete": dele, "req": want("d1.dir")}
    if rng.random() < 0.25:
        r2["fails"] = [rng.choice([c, "d1.dir", a])]
        notes.append("history:second-round-faulty")
    rounds.append(r2)
    r = rng.random()
    if r < 0.5:
        rounds.append({"fails": [], "crash": None, "reset": False, "req": list(r2["req"])})
    elif r < 0.8:
        rounds.append({"fails": [], "crash": None, "reset": False, "req": want("d0.dir", "d1.dir")})
        if rng.random() < 0.5:
            rounds.append({"fails": [], "crash": None, "reset": False, "req": want("d1.dir"),
                           "delete": ["d1.dir", c]})
    case["rounds"] = rounds
    notes.append("history:rounds=%d" % len(rounds))
    notes.append("mode-history:" + ("shallow" if shallow else "expand"))
    return case, notes


def crash_variants(case, k, m, points=None):
    """scenarios that replay rounds 0..k of a history and abort round k right after upload attempt n"""
    out = []
    for n in (points if points is not None else range(1, m + 1)):
        c = json.loads(json.dumps(case))
        c["rounds"] = c["rounds"][:k + 1]
        c["rounds"] = [r for r in c["rounds"] if r.get("crash") is None]
        c["rounds"][k] = {**c["rounds"][k], "crash": n}
        out.append(c)
    return out


def fail_sets(rng, uploads, shared, exhaustive_limit, k_random):
    """non-empty fail sets over the would-be uploads (tokens)"""
    out = []
    if not uploads:
        return out
    if len(uploads) <= exhaustive_limit:
        for r in range(1, len(uploads) + 1):
            out.extend(list(c) for c in itertools.combinations(uploads, r))
        return out
    seen = set()
    for f in uploads:
        if f in shared:
            seen.add((f,))
    tries = 0
    while len(seen) < k_random and tries < 50:
        tries += 1
        k = rng.choice([1, 1, 2, 2, 3])
        seen.add(tuple(sorted(rng.sample(uploads, min(k, len(uploads))))))
    return [list(s) for s in sorted(seen)]


def shared_files(case):
    cnt = {}
    for lst in case["dirs"].values():
        for f in {f for _, f in lst}:
            cnt[f] = cnt.get(f, 0) + 1
    return {f for f, n in cnt.items() if n > 1}


def probe_uploads(ctx, case):
    """fault-free run on a fresh destination: the upload attempts, as tokens, in order"""
    S = Scenario(ctx, {**case, "dix": False, "rounds": []})
    try:
        ob = S.run_round({"fails": [], "crash": None, "reset": True})
        return [S.tok[o] for o in ob["putorder"]]
    finally:
        S.close()


def probe_round(ctx, case):
    """fault-free run on a fresh destination without destination index: (upload tokens in order,
    directory-loop order as tokens)"""
    S = Scenario(ctx, {**case, "dix": False, "rounds": []})
    try:
        ob = S.run_round({"fails": [], "crash": None, "reset": True})
        return [S.tok[o] for o in ob["putorder"]], [S.tok[o] for o in ob["dirorder"]]
    finally:
        S.close()


CHAIN_LETTER = {"d0.dir": "A", "d1.dir": "B", "d2.dir": "C", "d3.dir": "D"}


def chain_case(salt, shallow, n=3, prop="C04"):
    """a sharing chain A -f- B -g- C (-h- D): consecutive directories share exactly one file
    (A=[a,f], B=[f,g,b], C=[g,c(,h)], D=[h,e]); closed request (every directory with all its files,
    or directories only, expanded)"""
    names = ["a", "f", "b", "g", "c"] + (["h", "e"] if n == 4 else [])
    files = {f"f{i}": f"{salt}-chain-{nm}".encode().hex() for i, nm in enumerate(names)}
    dirs = {"d0.dir": [["a", "f0"], ["shared/f", "f1"]],
            "d1.dir": [["f", "f1"], ["g", "f3"], ["own/b", "f2"]],
            "d2.dir": [["g", "f3"], ["c", "f4"]]}
    if n == 4:
        dirs["d2.dir"].append(["h", "f5"])
        dirs["d3.dir"] = [["h", "f5"], ["e", "f6"]]
    req = list(dirs) + (list(files) if shallow else [])
    return {"prop": prop, "files": files, "dirs": dirs, "src": {t: None for t in list(files) + list(dirs)},
            "cache": None, "dst": {}, "req": req, "shallow": shallow, "verify": False, "src_cls": "local",
            "dst_cls": "local", "dix": False, "six": False, "rounds": []}


def chain_order(dirorder_tokens):
    """the relative order of A, B, C in an observed directory-loop order"""
    return "".join(CHAIN_LETTER[t] for t in dirorder_tokens if CHAIN_LETTER.get(t) in ("A", "B", "C"))


CORPUS_CHAIN_SALT = "c6"


def corpus_chain(ctx, shallow=True):
    """a 3-chain whose directory loop runs A, B, C (the salt was searched offline; the order is
    re-observed here and the search repeated should it have changed)"""
    for salt in [CORPUS_CHAIN_SALT] + ["c%d" % i for i in range(1, 200)]:
        case = chain_case(salt, shallow)
        _ups, order = probe_round(ctx, case)
        if chain_order(order) == "ABC":
            return case, salt
    return None, None


def run_scenario(ctx, case, crash_all=False, crash_some=0):
    """run case["rounds"]; optionally append crash rounds (one per abort point of the round that
    precedes them, each on a fresh copy of the initial destination).  Returns the Scenario (run,
    still open) - the caller closes it."""
    S = Scenario(ctx, case)
    try:
        S.run_all()
        if crash_all or crash_some:
            # abort points of the (first) faulty full round
            full = None
            for ob in S.rounds:
                if ob["crash"] is None and ob["spec"].get("fails"):
                    full = ob
                    break
            if full is None:
                full = S.rounds[0]
            m = len(full["putorder"])
            points = list(range(1, m + 1))
            if not crash_all and len(points) > crash_some:
                points = sorted(ctx.rng.sample(points, crash_some))
            for n in points:
                rs = {"fails": list(full["spec"].get("fails") or []), "crash": n, "reset": True}
                for k in ("partial", "req", "vanish"):
                    if full["spec"].get(k):
                        rs[k] = list(full["spec"][k])
                case["rounds"].append(rs)
                S.run_round(rs)
    except BaseException:
        S.close()
        raise
    return S


def corpus_cases(prop):
    """stored cases under corpus/<prop>/*.json (a case, or a replay body with a "case" member)"""
    out = []
    for p in sorted(glob.glob(os.path.join(VERIF, "corpus", prop, "*.json"))):
        with open(p) as f:
            body = json.load(f)
        if isinstance(body, dict) and isinstance(body.get("case"), dict):
            body = body["case"]
        if isinstance(body, dict) and "files" in body and "rounds" in body:
            out.append(body)
    return out


def hx(b: bytes) -> str:
    return b.hex()


def builtin_corpus(prop):
    """hand-written regression scenarios (run first in every tier)"""
    f = {"f0": hx(b"alpha"), "f1": hx(b"beta"), "f2": hx(b""), "f3": hx(b"gamma")}
    d = {"d0.dir": [["a", "f0"], ["sub/b", "f1"]], "d1.dir": [["x", "f1"], ["y/z", "f2"], ["y/z2", "f2"]]}
    allsrc = {t: None for t in list(f) + list(d)}
    closed_req = ["d0.dir", "d1.dir", "f0", "f1", "f2"]
    out = []
    # finding 7.2: a shared file fails with the first directory; with index; both classes
    for cls in ("local", "base"):
        for dix in (False, True):
            out.append({"prop": prop, "files": f, "dirs": d, "src": allsrc, "cache": None, "dst": {},
                        "req": closed_req, "shallow": True, "verify": False, "src_cls": "local", "dst_cls": cls,
                        "dix": dix, "six": False,
                        "rounds": [{"fails": ["f1"], "crash": None, "reset": True},
                                   {"fails": [], "crash": None, "reset": False}]})
    # known finding: a listed file missing on both sides
    src_nof1 = {t: None for t in allsrc if t != "f1"}
    out.append({"prop": prop, "files": f, "dirs": d, "src": src_nof1, "cache": None, "dst": {"f2": None},
                "req": closed_req, "shallow": True, "verify": False, "src_cls": "base", "dst_cls": "local",
                "dix": False, "six": False,
                "rounds": [{"fails": [], "crash": None, "reset": True},
                           {"fails": [], "crash": None, "reset": False}]})
    # corrupt source file under verify: dropped, directory withheld, both reported failed
    src_rot = dict(allsrc)
    src_rot["f0"] = hx(b"alpha#bitrot")
    out.append({"prop": prop, "files": f, "dirs": d, "src": src_rot, "cache": None, "dst": {},
                "req": ["d0.dir", "f3"], "shallow": False, "verify": True, "src_cls": "local", "dst_cls": "base",
                "dix": True, "six": False,
                "rounds": [{"fails": [], "crash": None, "reset": True},
                           {"fails": [], "crash": None, "reset": False}]})
    # fetch direction (seeded change r2/m2): the source holds d0.dir but has lost the listed file f1;
    # a source index (real / no-op) makes the source-side status count f1 present, its upload raises
    # FileNotFoundError: f1 failed, d0.dir withheld and failed
    src_lost = {t: None for t in allsrc if t != "f1"}
    for cls in ("local", "base"):
        for six in (True, "noop"):
            out.append({"prop": prop, "files": f, "dirs": d, "src": src_lost, "cache": None,
                        "dst": {} if six is True else {"f3": None},
                        "req": ["d0.dir", "f0", "f1"] if six is True else ["d0.dir", "f3"],
                        "shallow": six is True, "verify": False, "src_cls": "local" if cls == "base" else "base",
                        "dst_cls": cls, "dix": "noop" if (six == "noop" and cls == "base") else False, "six": six,
                        "rounds": [{"fails": [], "crash": None, "reset": True},
                                   {"fails": [], "crash": None, "reset": False}]})
    # a source object vanishes between the status phase and the uploads (concurrent gc of the source)
    for cls in ("local", "base"):
        out.append({"prop": prop, "files": f, "dirs": d, "src": allsrc, "cache": None, "dst": {},
                    "req": closed_req, "shallow": True, "verify": cls == "base", "src_cls": "local", "dst_cls": cls,
                    "dix": cls == "local", "six": False,
                    "rounds": [{"fails": [], "vanish": ["f1"], "crash": None, "reset": True},
                               {"fails": [], "crash": None, "reset": False}]})
    # seeded change C04/r3m1: a remote gc keeps the destination closed but leaves the persistent
    # index stale; the next push of a different tree that shares f0 must re-validate the index
    fg = {"f0": hx(b"shared-a"), "f1": hx(b"only-b"), "f2": hx(b"only-c")}
    dg = {"d0.dir": [["a", "f0"], ["b", "f1"]], "d1.dir": [["a", "f0"], ["c", "f2"]]}
    srcg = {t: None for t in list(fg) + list(dg)}
    for cls, shallow in (("local", True), ("base", False), ("base", True)):
        r1 = ["d0.dir", "f0", "f1"] if shallow else ["d0.dir"]
        r2 = ["d1.dir", "f0", "f2"] if shallow else ["d1.dir"]
        out.append({"prop": prop, "files": fg, "dirs": dg, "src": srcg, "cache": None, "dst": {},
                    "req": r1, "shallow": shallow, "verify": False, "src_cls": "local", "dst_cls": cls,
                    "dix": True, "six": False,
                    "rounds": [{"fails": [], "crash": None, "reset": True, "req": r1},
                               {"fails": [], "crash": None, "reset": False, "delete": ["d0.dir", "f0", "f1"], "req": r2},
                               {"fails": [], "crash": None, "reset": False, "req": r2}]})
    # seeded change C04/r6m1: fetch direction with ONE shared source index and TWO destinations: the
    # first EXPANDED transfer (shallow=False) makes the source status index d0.dir; the second
    # transfer of the same directory goes into ANOTHER, empty destination (reset) with the same
    # source index: the directory must still be expanded on the source side, its files are new
    # and go up before the directory object.  Third round: the retry on that second destination.
    for cls, six in (("local", True), ("base", True), ("local", "noop")):
        for reqx in (["d0.dir"], ["d0.dir", "d1.dir"]):
            out.append({"prop": prop, "files": f, "dirs": d, "src": allsrc, "cache": None, "dst": {},
                        "req": reqx, "shallow": False, "verify": False, "src_cls": "base", "dst_cls": cls,
                        "dix": False, "six": six,
                        "rounds": [{"fails": [], "crash": None, "reset": True},
                                   {"fails": [], "crash": None, "reset": True},
                                   {"fails": [], "crash": None, "reset": False},
                                   {"fails": ["f1"], "crash": None, "reset": True}]})
    # seeded change C11/r3m1: a real hash State on the destination must not vouch for an object
    # before it was verified.  f0's source copy is corrupt (mode 0o444), verify=True
    for cls in ("local", "base"):
        out.append({"prop": prop, "files": f, "dirs": d, "src": src_rot, "cache": None, "dst": {},
                    "req": ["d0.dir", "f0", "f1", "f3"], "shallow": True, "verify": True, "src_cls": "local",
                    "dst_cls": cls, "dix": False, "six": False, "dst_state": True,
                    "rounds": [{"fails": [], "crash": None, "reset": True},
                               {"fails": [], "crash": None, "reset": False}]})
    # seeded changes C04/r5m1, C11/r5m2: requested ids that carry a label (HashInfo.obj_name) are the
    # same ids: the shared-file failure and the twins scenario, labelled
    lab = {"d0.dir": "dir/", "d1.dir": "data/more", "f0": "data/a", "f1": "data/sub/b", "f2": "donn\u00e9es/\u00e9"}
    ftw = {"f0": hx(b"slash twin"), "f1": hx(b"backslash twin"), "f2": hx(b"deep slash"), "f3": hx(b"deep backslash")}
    dtw = {"d0.dir": [["sub/data", "f0"], ["sub\\data", "f1"], ["z", "f2"]],
           "d1.dir": [["a/b/c", "f2"], ["a\\b\\c", "f3"]]}
    for cls in ("local", "base"):
        out.append({"prop": prop, "files": f, "dirs": d, "src": allsrc, "cache": None, "dst": {},
                    "req": closed_req, "shallow": True, "verify": False, "src_cls": "local", "dst_cls": cls,
                    "dix": cls == "base", "six": False, "labels": lab,
                    "rounds": [{"fails": ["f1"], "crash": None, "reset": True},
                               {"fails": [], "crash": None, "reset": False}]})
        out.append({"prop": prop, "files": ftw, "dirs": dtw, "src": {t: None for t in list(ftw) + list(dtw)},
                    "cache": None, "dst": {}, "req": ["d0.dir", "d1.dir", "f0", "f1", "f2", "f3"],
                    "shallow": True, "verify": False, "src_cls": "base", "dst_cls": cls, "dix": False, "six": False,
                    "labels": {"d0.dir": "tw", "f0": "tw/sub/data", "f1": "tw/sub\\data", "f2": "tw/z", "f3": "x"},
                    "rounds": [{"fails": ["f1" if cls == "local" else "f2"], "crash": None, "reset": True},
                               {"fails": [], "crash": None, "reset": False}]})
    # seeded change C11/r5m1: a local destination holds a damaged, NOT write-protected copy of the
    # listed file f1: status() re-hashes and removes it, f1 counts as absent and is uploaded
    out.append({"prop": prop, "files": f, "dirs": d, "src": allsrc, "cache": None, "dst": {"f3": None},
                "dst_rot": {"f1": hx(b"bet")}, "dst_rot_mode": 0o544, "req": ["d0.dir", "f0", "f1"], "shallow": True, "verify": False,
                "src_cls": "base", "dst_cls": "local", "dix": False, "six": False,
                "rounds": [{"fails": [], "crash": None, "reset": True},
                           {"fails": [], "crash": None, "reset": False}]})
    if prop == "C11":
        out.append({"prop": prop, "files": f, "dirs": d, "src": allsrc, "cache": None, "dst": {"f0": None},
                    "dst_rot": {"f3": hx(b"gamma#rot"), "d0.dir": hx(b'[{"md5": "')}, "req": ["f3", "d0.dir", "f0", "f1"],
                    "shallow": True, "verify": True, "src_cls": "local", "dst_cls": "local", "dix": False, "six": False,
                    "labels": {"f3": "loose/f3"},
                    "rounds": [{"fails": [], "crash": None, "reset": True},
                               {"fails": [], "crash": None, "reset": False}]})
    if prop == "C04":
        # seeded change C04/r4m1: relpaths are opaque - `sub/data` and a file literally named
        # `sub\\data` (and `a/b/c` vs `a\\b\\c`) are different entries; every single-file failure
        ft = {"f0": hx(b"slash twin"), "f1": hx(b"backslash twin"), "f2": hx(b"deep slash"), "f3": hx(b"deep backslash")}
        dt = {"d0.dir": [["sub/data", "f0"], ["sub\\data", "f1"], ["z", "f2"]],
              "d1.dir": [["a/b/c", "f2"], ["a\\b\\c", "f3"]]}
        for cls in ("local", "base"):
            for bad in ft:
                out.append({"prop": prop, "files": ft, "dirs": dt, "src": {t: None for t in list(ft) + list(dt)},
                            "cache": None, "dst": {}, "req": ["d0.dir", "d1.dir", "f0", "f1", "f2", "f3"],
                            "shallow": True, "verify": False, "src_cls": "base", "dst_cls": cls,
                            "dix": cls == "base" and bad == "f0", "six": False,
                            "rounds": [{"fails": [bad], "crash": None, "reset": True},
                                       {"fails": [], "crash": None, "reset": False}]})
    if prop != "C11":
        return out
    # seeded change C11/r3m2: an id that exists on neither side is reported missing in EVERY round,
    # also when nothing is new (the retry)
    fgh = dict(f)
    fgh["g0"] = hx(b"ghost: nowhere")
    out.append({"prop": prop, "files": fgh, "dirs": d, "src": allsrc, "cache": None, "dst": {"f2": None},
                "req": ["d0.dir", "f0", "f1", "g0"], "shallow": True, "verify": False, "src_cls": "base",
                "dst_cls": "local", "dix": False, "six": False,
                "rounds": [{"fails": [], "crash": None, "reset": True},
                           {"fails": [], "crash": None, "reset": False}]})
    # seeded change m1: a stale index must be re-validated even when the indexed directory is not
    # part of the query.  push A; A's directory object and its file x vanish; push {B, x}
    fh = {"f0": hx(b"x-contents"), "f1": hx(b"y-contents"), "f2": hx(b"z-contents")}
    dh = {"d0.dir": [["x", "f0"], ["y", "f1"]], "d1.dir": [["z", "f2"]]}
    srch = {t: None for t in list(fh) + list(dh)}
    for cls in ("local", "base"):
        out.append({"prop": prop, "files": fh, "dirs": dh, "src": srch, "cache": None, "dst": {},
                    "req": ["d0.dir"], "shallow": False, "verify": False, "src_cls": "base", "dst_cls": cls,
                    "dix": True, "six": False,
                    "rounds": [{"fails": [], "crash": None, "reset": True, "req": ["d0.dir"]},
                               {"fails": [], "crash": None, "reset": False, "delete": ["d0.dir", "f0"],
                                "req": ["d1.dir", "f0"]},
                               {"fails": [], "crash": None, "reset": False, "req": ["d0.dir"]}]})
    out.append({"prop": prop, "files": fh, "dirs": dh, "src": srch, "cache": None, "dst": {},
                "req": ["d0.dir", "f0", "f1"], "shallow": True, "verify": False, "src_cls": "local", "dst_cls": "base",
                "dix": True, "six": False,
                "rounds": [{"fails": [], "crash": None, "reset": True, "req": ["d0.dir", "f0", "f1"]},
                           {"fails": [], "crash": None, "reset": False, "delete": ["d0.dir", "f0"],
                            "req": ["d1.dir", "f2", "f0"]}]})
    # an object the destination index already knows must count as present (not re-sent): push A,
    # then - same index, nothing deleted - push another directory B sharing file s with A (+ the bare
    # file y of A): s and y are answered by index.intersection, only B's own file and B go up
    fs2 = {"f0": hx(b"shared-s"), "f1": hx(b"only-y"), "f2": hx(b"only-z")}
    ds2 = {"d0.dir": [["s", "f0"], ["y", "f1"]], "d1.dir": [["s", "f0"], ["z", "f2"]]}
    src2 = {t: None for t in list(fs2) + list(ds2)}
    for cls, shallow in (("local", True), ("base", False)):
        r1 = ["d0.dir", "f0", "f1"] if shallow else ["d0.dir"]
        r2 = ["d1.dir", "f0", "f2", "f1"] if shallow else ["d1.dir", "f1"]
        out.append({"prop": prop, "files": fs2, "dirs": ds2, "src": src2, "cache": None, "dst": {},
                    "req": r1, "shallow": shallow, "verify": False, "src_cls": "local", "dst_cls": cls,
                    "dix": True, "six": False,
                    "rounds": [{"fails": [], "crash": None, "reset": True, "req": r1},
                               {"fails": [], "crash": None, "reset": False, "req": r2},
                               {"fails": [], "crash": None, "reset": False, "req": r2}]})
    # seeded change m2: an upload that fails after writing part of the object is a failure.  The
    # shared file f1 is partial; both directories that list it are requested
    for cls in ("local", "base"):
        for verify in (False, True):
            out.append({"prop": prop, "files": f, "dirs": d, "src": allsrc, "cache": None, "dst": {},
                        "req": ["d0.dir", "d1.dir", "f3"], "shallow": False, "verify": verify, "src_cls": "local",
                        "dst_cls": cls, "dix": False, "six": False,
                        "rounds": [{"fails": ["f1"], "partial": ["f1"], "crash": None, "reset": True},
                                   {"fails": [], "crash": None, "reset": False}]})
    return out
