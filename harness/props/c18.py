"""C18 - push and fetch through storage mappings move exactly the reachable objects.

Case JSON (self-contained):
  {"files":  {"f0": hex, ...}                       contents; object id = md5(content)
   "items":  [["file", [k...], "f0"], ["dir", [k...], [[relpath, "f0"], ...]], ...]
   "map":    [[[prefix...], {"cache": "c0"|null, "remote": "r0"|null}], ...]   insertion order
   "cls":    {"c0": "local", "r0": "base", ...}
   "pre":    {"r0": ["f0", "d0"]}                   objects a remote holds before the first push
   "topup":  bool   every group's cache holds every object under the group's prefixes
                    (false: only the cache the mapping designates for the key, as index.save does)
   "fails":  [["r0", "f1"], ...]                    uploads that raise in the first push
   "ffails": [["n0", "f1"], ...]                    uploads that raise in the first fetch (optional)
   "via_add": bool                                  the storage map is built through add_cache / add_remote (in the
                    order of "map", cache first) instead of storage_map[prefix] = StorageInfo(...); each helper
                    stores a merged copy of what the prefix resolves to at that moment
   "ro_fetch": ["r1"]                               remotes attached read_only=True on the consumer (fetch) side
   "ro_push": ["r1"]                                remotes attached read_only=True on the push side: they must
                    receive nothing (the fetch side is then not run)
   "eacces": bool                                   injected failures are PermissionError (else EIO)
   "tmp":    ["c0", "r1"]                           stores configured with a tmp_dir (optional): a remote
                    with one keeps a real persistent ObjectDBIndex; on a cache it must have no effect}
Rounds: push(fails), push (clean retry), [fetch(ffails)], fetch (clean) into fresh caches n<i>
(one per cache c<i>), index checkout through the fetch map.
"""

from __future__ import annotations

import hashlib
import itertools
import os

from lib import impl
from lib.core import cN, cbytes, clist, copt, cpair, vL, vN, vset

PROPERTY = "C18"
GEN = ["storagemap", "fetchcall"]  # Gen/FetchCall.v: the transfer() calls of fetch()/push(); Gen/StorageMap.v: StorageMapping.__getitem__ + StorageInfo, regenerated every run
RULE = (
    "indexes of 1-4 items (directory entries with nested listings sub/.., sub/deep/.., shared and empty "
    "contents, the same directory object under two keys; plain file entries) x storage maps of 1-3 prefixes "
    "(root, item keys, parents, prefixes INSIDE a directory entry, an unrelated key) in shuffled insertion "
    "order, each defining cache and/or remote (distinct temp-dir stores, LocalHashFileDB/HashFileDB), roles "
    "falling back independently x remotes empty or pre-populated with a closed subset x every subset of the "
    "first push's uploads failing (all subsets when <= 6 uploads in the thorough tier, a seeded sample "
    "otherwise) then a clean retry, a fetch into fresh caches (optionally with failures + retry) and an index "
    "checkout. A case is non-trivial when at least two objects move and (a fault fires or >= 2 stores receive)."
)
ASSUMPTIONS = [
    "every storage is an ObjectStorage over a LocalHashFileDB/HashFileDB; a share of the stores has a tmp_dir: remotes "
    "with one use a real persistent ObjectDBIndex (model: run_round_ix, index carried across groups and rounds), "
    "the others ObjectDBIndexNoop; a tmp_dir on a cache must not change anything",
    "precondition of the passing stream: every remote group is served by one cache and that cache holds every object "
    "under the group's prefixes (collect keeps the first prefix's cache per remote); remotes start closed (C04)",
    "storage maps are built directly or through add_cache/add_remote; the oracle and the model reason about the map "
    "the helpers store (simulated independently); remotes may be attached read_only on either side",
    "a FileExistsError upload fault honours its contract (the object IS there, put by somebody else) and is injected "
    "on directory objects only: dvc_objects skips it silently for the first file of a batch and reports it for the others",
    "the producer's caches are planted or filled through index.save() from a workspace; an incremental push may find "
    "the cache without an object that the (pre-populated) remote still holds",
    "upload faults are injected per (destination store, object id) through put_file of the destination file system",
    "a directory entry that some prefix covers has a remote designated for its own key (else a fetch into an empty "
    "cache cannot load it: DataIndexDirError)",
    "an entry with a designated remote has a designated cache for its own key (index.save asserts it)",
    "no two contents in play collide under md5; objects are genuine (corruption is C07's subject)",
]

IMPORTS = "From Coq Require Import NArith List.\nFrom DvcData Require Import Model.Transfer Gen.StorageMap Model.PushFetch."

# placements where a remote group would need objects from the cache of another prefix reproduce two recorded
# findings (known_findings.json); they are generated as a separate stream
MULTI_CACHE_STREAM = True
SIG_MULTI = "C18:designated-object-not-pushed:remote-group-served-by-several-caches"
SIG_SPLIT = "C18:dir-object-withheld:directory-split-across-storage-prefixes"
# oracle checks that fail as a CONSEQUENCE of a recorded finding in the finding streams (an object the
# mapping designates never arrives; a withheld directory object is nevertheless counted as moved - C11's
# finding reached through the map; the mirror images on the fetch side); every other check keeps its own
# signature in every stream
CONSEQUENCES = (
    "C18:designated-object-not-pushed", "C18:designated-object-not-fetched",
    "C18:push-moved-count-vs-arrived", "C18:fetch-moved-count-vs-arrived", "C18:checkout-differs",
)


# --------------------------------------------------------------------------------------
# fault-injecting file system (destination side)

_FS = None


def faultfs():
    global _FS
    if _FS is None:
        from dvc_objects.fs.local import LocalFileSystem

        class FaultFS(LocalFileSystem):
            fails: set = frozenset()
            attempts: list = None
            eacces: bool = False      # the injected failure is a PermissionError instead of EIO

            def put_file(self, lpath, rpath, callback=None, **kwargs):
                parts = str(rpath).replace(os.sep, "/").split("/")
                oid = "".join(parts[-2:])
                if self.attempts is not None:
                    self.attempts.append(oid)
                if oid in self.fails:
                    if self.eacces == "ENOENT":
                        raise FileNotFoundError(2, "injected upload failure (no such file)")
                    if self.eacces == "EEXIST":
                        # the contract of FileExistsError: the target IS there (a concurrent writer put the
                        # object); dvc_objects' generic.transfer skips it silently, so this is no failure
                        super().put_file(lpath, rpath, callback=callback, **kwargs)
                        raise FileExistsError(17, "injected: the object was put by somebody else meanwhile")
                    if self.eacces:
                        raise PermissionError(13, "injected upload failure (permission denied)")
                    raise OSError(5, "injected upload failure")
                return super().put_file(lpath, rpath, callback=callback, **kwargs)

        _FS = FaultFS
    return _FS()


# --------------------------------------------------------------------------------------
# independent reading of a case (nothing from dvc_data)


def is_prefix(p, k):
    return len(p) <= len(k) and tuple(k[: len(p)]) == tuple(p)


def resolve(smap, k, role):
    """role of the longest prefix of k that defines it"""
    best = None
    for p, info in smap:
        if is_prefix(p, k) and info.get(role) is not None:
            if best is None or len(p) > len(best[0]):
                best = (p, info[role])
    return None if best is None else best[1]


def covered(smap, k):
    return any(is_prefix(p, k) for p, _ in smap)


def effective(declared):
    """the stored map after building `declared` through the add_* helpers, simulated independently:
    add_<role>(storage) does info = (what storage.key resolves to now, merged, as a fresh copy) or an empty
    StorageInfo; info.<role> = storage; map[storage.key] = info"""
    eff = []
    for p, info in declared:
        for role in ("data", "cache", "remote"):
            if not info.get(role):
                continue
            if any(is_prefix(q, p) for q, _ in eff):
                cur = {r: resolve(eff, p, r) for r in ("data", "cache", "remote")}
            else:
                cur = {"data": None, "cache": None, "remote": None}
            cur[role] = info[role]
            for e in eff:
                if e[0] == p:
                    e[1] = cur
                    break
            else:
                eff.append([p, cur])
    return [(p, dict(i)) for p, i in eff]


class Case:
    def __init__(self, case):
        self.case = case
        self.content = {t: bytes.fromhex(h) for t, h in case["files"].items()}
        self.oid = {t: impl.md5hex(b) for t, b in self.content.items()}
        self.items = []
        self.dirs = {}  # dir token -> listing [(relpath, file token)]
        self.explicit = set()   # directory entries whose children are explicit entries of the index (loaded=True)
        for it in case["items"]:
            if it[0] == "file":
                self.items.append(("file", tuple(it[1]), it[2]))
            else:
                lst = [(rp, f) for rp, f in it[2]]
                entries = [(rp, self.oid[f]) for rp, f in lst]
                doid = impl.dir_oid(entries)
                tok = next((t for t, o in self.oid.items() if o == doid), None)
                if tok is None:
                    tok = f"d{len(self.dirs)}.dir"
                    self.oid[tok] = doid
                    self.content[tok] = impl.canon_listing(entries)
                    self.dirs[tok] = lst
                self.items.append(("dir", tuple(it[1]), tok))
                if len(it) > 3 and it[3].get("explicit"):
                    self.explicit.add(tuple(it[1]))
        self.tok = {o: t for t, o in self.oid.items()}
        assert len(self.tok) == len(self.oid), "two tokens with one id"
        self.tokens = list(self.oid)
        self.dmap = [(tuple(p), dict(info)) for p, info in case["map"]]      # as declared
        caches = sorted({i["cache"] for _, i in self.dmap if i.get("cache")})
        self.fresh = {c: "n" + c[1:] for c in caches}
        self.dfmap = [(p, {"data": i.get("data"), "cache": self.fresh.get(i.get("cache")), "remote": i.get("remote")})
                      for p, i in self.dmap]
        self.via_add = bool(case.get("via_add"))
        # the map the implementation ends up with (what the oracle and the model reason about)
        self.map = effective(self.dmap) if self.via_add else self.dmap
        self.fmap = effective(self.dfmap) if self.via_add else self.dfmap
        for mp in (self.map, self.fmap):
            for _, i in mp:
                i.setdefault("data", None)
        self.ro_push = set(case.get("ro_push") or [])
        self.ro_fetch = set(case.get("ro_fetch") or [])
        self.remotes = sorted({i["remote"] for _, i in self.map if i.get("remote")})
        self.caches = caches
        self.stores = caches + self.remotes + [self.fresh[c] for c in caches]
        if any(i.get("data") == "x0" for _, i in self.dmap):
            self.stores.append("x0")     # an (empty) object store in the data role: nothing may ever reach it
        tmp = set(case.get("tmp") or [])
        self.tmp = tmp | {self.fresh[c] for c in caches if c in tmp}
        self.indexed = [r for r in self.remotes if r in self.tmp]

    def sid(self, s):
        if s == "file":
            return 41                    # a FileStorage in the data role: no object store
        return {"c": 10, "r": 20, "n": 30, "x": 40}[s[0]] + int(s[1:])

    # entries an iteration over the loaded index reaches under map m
    def entries(self, smap):
        out = []
        for kind, k, t in self.items:
            out.append((k, t))
            if kind == "dir" and (covered(smap, k) or k in self.explicit):
                for rp, f in self.dirs[t]:
                    out.append((k + tuple(rp.split("/")), f))
        return out

    def reachable(self):
        out = set()
        for kind, k, t in self.items:
            out.add(t)
            if kind == "dir":
                out.update(f for _, f in self.dirs[t])
        return out

    def groups(self, smap, ro=None):
        """[(remote, cache, set of tokens)] in order of first appearance - what collect should build;
        ro: remotes attached read_only (a push leaves them out; default: the push side's for the push map)"""
        if ro is None:
            ro = self.ro_push if smap is self.map else ()
        gs = []
        es = self.entries(smap)
        for p, _ in smap:
            r = resolve(smap, p, "remote")
            if r is None or r in ro:
                continue
            c = resolve(smap, p, "cache")
            req = {t for k, t in es if is_prefix(p, k)}
            for g in gs:
                if g[0] == r:
                    g[2].update(req)
                    break
            else:
                gs.append([r, c, set(req)])
        return gs

    def designated(self, smap, role, s):
        return {t for k, t in self.entries(smap) if resolve(smap, k, role) == s}

    def placement(self):
        """{cache: tokens} before the first push, and whether the top-up added anything"""
        place = {c: set() for c in self.caches}
        for k, t in self.entries(self.map):
            c = resolve(self.map, k, "cache")
            if c is not None:
                place[c].add(t)
        # a directory object lives where its entry's key points; its files where theirs do
        need = False
        for r, c, req in self.groups(self.map):
            if c is None:
                continue
            if not req <= place[c]:
                need = True
                if self.case.get("topup", True):
                    place[c].update(req)
        # an incremental push: the cache has lost objects that a remote still holds ("pre")
        for c, toks in (self.case.get("cache_lacks") or {}).items():
            if c in place:
                place[c] -= set(toks)
        return place, need

    def single_cache_per_group(self):
        seen = {}
        for p, _ in self.map:
            r = resolve(self.map, p, "remote")
            if r is None:
                continue
            c = resolve(self.map, p, "cache")
            if seen.setdefault(r, c) != c:
                return False
        return True

    def klass(self):
        """None: the passing stream; "multi": a remote group is served by several caches (S2);
        "split": one cache per group, but a longer prefix re-routes objects under a group's prefixes to
        another cache and the group's cache was not topped up (S1 when a directory lists such a file)"""
        if not self.single_cache_per_group():
            return "multi"
        if self.placement()[1] and not self.case.get("topup", True):
            return "split"
        return None

    def all_remote_groups_have_cache(self):
        return all(c is not None for _, c, _ in self.groups(self.map))


# --------------------------------------------------------------------------------------
# the real code


def listing(path, C):
    """{token: content index} of a store directory, observed with os only"""
    out = {}
    for o, (b, _m) in impl.walk_store(path).items():
        out[C.tok.get(o, "?" + o)] = b
    return out


def build_index(C, declared, odbs, ro=(), root=None, split=False):
    """the index (or, split=True, two indexes with the same mapping that hold alternate items)"""
    from dvc_objects.fs.local import localfs

    from dvc_data.hashfile.hash_info import HashInfo
    from dvc_data.hashfile.meta import Meta
    from dvc_data.index import DataIndex, DataIndexEntry, FileStorage, ObjectStorage, StorageInfo

    case = C.case
    label = bool(case.get("obj_name"))

    def hi(t, k):
        return HashInfo("md5", C.oid[t], obj_name="/".join(k) or "root") if label else HashInfo("md5", C.oid[t])

    def new_index():
        if case.get("backend") == "sqlite":
            import tempfile

            return DataIndex.open(tempfile.mktemp(prefix="idx-", suffix=".db", dir=root))
        return DataIndex()

    idxs = [new_index(), new_index()] if split else [new_index()]
    for n, (kind, k, t) in enumerate(C.items):
        idx = idxs[n % len(idxs)]
        if kind == "dir" and k in C.explicit:
            idx[k] = DataIndexEntry(key=k, meta=Meta(isdir=True), hash_info=hi(t, k), loaded=True)
            inter = set()
            for rp, f in C.dirs[t]:
                parts = tuple(rp.split("/"))
                for j in range(1, len(parts)):
                    inter.add(k + parts[:j])
                idx[k + parts] = DataIndexEntry(key=k + parts, meta=Meta(), hash_info=hi(f, k + parts))
            for ik in sorted(inter):
                idx[ik] = DataIndexEntry(key=ik, meta=Meta(isdir=True), loaded=True)
        else:
            idx[k] = DataIndexEntry(key=k, meta=Meta(isdir=(kind == "dir")), hash_info=hi(t, k))

    def remote(p, r):
        return ObjectStorage(p, odbs[r], read_only=True) if r in ro else ObjectStorage(p, odbs[r])

    def data(p, d):
        if d == "file":
            return FileStorage(p, localfs, os.path.join(root or "/nonexistent", "no-such-workspace"))
        return ObjectStorage(p, odbs[d])

    for idx in idxs:
        if case.get("backend") == "sqlite":
            idx.commit()
        for p, info in declared:
            if C.via_add:
                if info.get("data"):
                    idx.storage_map.add_data(data(p, info["data"]))
                if info.get("cache"):
                    idx.storage_map.add_cache(ObjectStorage(p, odbs[info["cache"]]))
                if info.get("remote"):
                    idx.storage_map.add_remote(remote(p, info["remote"]))
            else:
                idx.storage_map[p] = StorageInfo(
                    data=data(p, info["data"]) if info.get("data") else None,
                    cache=ObjectStorage(p, odbs[info["cache"]]) if info.get("cache") else None,
                    remote=remote(p, info["remote"]) if info.get("remote") else None,
                )
    return idxs


def observe_groups(groups, paths, C):
    out = []
    for g in groups:
        si = g.storage_map[()]
        d = paths[si.data.odb.path]
        c = paths[si.cache.odb.path] if si.cache is not None else None
        out.append((d, c, {C.tok.get(e.hash_info.value, "?") for _, e in g.iteritems() if e.hash_info}))
    return out


def ws_files(ws):
    """{relpath: bytes} of a checked-out workspace; a single file checked out AT the path is {"": bytes}"""
    if os.path.isdir(ws):
        return impl.walk_files(ws)
    if os.path.isfile(ws):
        with open(ws, "rb") as f:
            return {"": f.read()}
    return {}


def jp(k, rp=None):
    return "/".join(list(k) + (rp.split("/") if rp else []))


def save_into_caches(C, odbs, root):
    """write the data into a workspace, describe it by an index with explicit children and a FileStorage in the data
    role, and let dvc_data.index.save.save() fill the caches; returns a description of what went wrong, if anything"""
    from dvc_objects.fs.local import localfs

    from dvc_data.hashfile.hash_info import HashInfo
    from dvc_data.hashfile.meta import Meta
    from dvc_data.index import DataIndex, DataIndexEntry, FileStorage, ObjectStorage, StorageInfo
    from dvc_data.index.save import save

    ws0 = os.path.join(root, "producer-ws")
    idx = DataIndex()

    def put(k, t):
        fp = os.path.join(ws0, *k) if k else os.path.join(ws0, "root-file")
        os.makedirs(os.path.dirname(fp), exist_ok=True)
        with open(fp, "wb") as f:
            f.write(C.content[t])
        idx[k] = DataIndexEntry(key=k, meta=Meta(size=len(C.content[t])), hash_info=HashInfo("md5", C.oid[t]))

    os.makedirs(ws0)
    for kind, k, t in C.items:
        if kind == "file":
            put(k, t)
            continue
        idx[k] = DataIndexEntry(key=k, meta=Meta(isdir=True), loaded=True)
        os.makedirs(os.path.join(ws0, *k), exist_ok=True)
        for rp, f in C.dirs[t]:
            # no entries for the intermediate directories: save() would store a tree object for each of them too
            put(k + tuple(rp.split("/")), f)
    declared = list(C.dmap)
    if not any(p == () for p, _ in declared):
        declared.append(((), {}))
    for p, info in declared:
        wp = os.path.join(ws0, *p) if p or not any(k == () and kind == "file" for kind, k, _ in C.items) \
            else os.path.join(ws0, "root-file")
        idx.storage_map[p] = StorageInfo(
            data=FileStorage(p, localfs, wp),
            cache=ObjectStorage(p, odbs[info["cache"]]) if info.get("cache") else None,
            remote=ObjectStorage(p, odbs[info["remote"]]) if info.get("remote") else None,
        )
    try:
        save(idx)
    except Exception as exc:  # noqa: BLE001
        return f"index.save() raised {exc!r}"[:300]
    for kind, k, t in C.items:
        if kind == "dir" and resolve(C.dmap, k, "cache") is not None:
            got = idx[k].hash_info.value if idx[k].hash_info else None
            if got != C.oid[t]:
                return f"index.save() gave directory {k} the id {got}, its listing has {C.oid[t]}"
    return None


def run_real(ctx, C):
    from dvc_objects.fs.local import localfs

    from dvc_data.hashfile.db import HashFileDB
    from dvc_data.hashfile.db.local import LocalHashFileDB
    from dvc_data.index.checkout import apply, compare
    from dvc_data.index.collect import collect
    from dvc_data.index.fetch import fetch
    from dvc_data.index.push import push

    case = C.case
    root = ctx.fresh("pf")
    odbs, fss, path = {}, {}, {}
    for s in C.stores:
        path[s] = os.path.join(root, s)
        os.makedirs(path[s])
        fss[s] = faultfs()
        fss[s].eacces = case.get("efault") or bool(case.get("eacces"))
        cls = LocalHashFileDB if case["cls"].get(s, "local") == "local" else HashFileDB
        cfg = {}
        if s in C.tmp:
            cfg["tmp_dir"] = os.path.join(root, "tmp-" + s)
            os.makedirs(cfg["tmp_dir"])
        odbs[s] = cls(fss[s], path[s], **cfg)
    paths = {p: s for s, p in path.items()}

    def read_index(r):
        """{token: is_dir} of the persistent index of remote r (what get_index(odb) opens)"""
        from dvc_data.hashfile.db import get_index

        ix = get_index(odbs[r])
        try:
            return {C.tok.get(o, "?" + o): bool(d) for o, d in ix.index.items()}
        finally:
            ix.close()

    place, _need = C.placement()
    saved_problem = None
    if case.get("via_save"):
        # the producer's route: workspace -> index with hashes -> save(index), which copies every file into the
        # cache the mapping designates for ITS key and stores every directory object in the cache of the directory
        saved_problem = save_into_caches(C, odbs, root)
        held = {c: set(listing(path[c], C)) for c in C.caches}
        lack = {c: sorted(place[c] - held[c]) for c in C.caches if place[c] - held[c]}
        if lack and saved_problem is None:
            saved_problem = f"after index.save() the designated caches lack {lack}"
        for c, toks in (case.get("cache_lacks") or {}).items():
            for t in toks:
                fp = os.path.join(path[c], C.oid[t][:2], C.oid[t][2:])
                if os.path.lexists(fp):
                    os.chmod(fp, 0o644)
                    os.unlink(fp)
    else:
        for c, toks in place.items():
            for t in toks:
                impl.plant(path[c], C.oid[t], C.content[t])
    for r, toks in (case.get("pre") or {}).items():
        for t in toks:
            impl.plant(path[r], C.oid[t], C.content[t], mode=None)
    for n, toks in (case.get("cache_pre") or {}).items():
        if n in path:
            for t in toks:
                impl.plant(path[n], C.oid[t], C.content[t])
    obs = {"initial": {s: listing(path[s], C) for s in C.stores}, "rounds": [], "saved_problem": saved_problem}

    def snapshot():
        return {s: listing(path[s], C) for s in C.stores}

    shared_ci = {}

    def one(kind, idx, fails, wipe=()):
        for r in wipe:     # the remote lost everything behind its index's back (the index survives in its tmp_dir)
            for d in os.listdir(path[r]):
                dp = os.path.join(path[r], d)
                for n in os.listdir(dp):
                    os.chmod(os.path.join(dp, n), 0o644)
                    os.unlink(os.path.join(dp, n))
        for s in C.stores:
            fss[s].fails = frozenset(C.oid[t] for d, t in fails if d == s)
            fss[s].attempts = []
        # an EEXIST "fault" leaves the object in place: for the oracle and the model it is a successful upload
        seen_fails = [] if case.get("efault") == "EEXIST" else fails
        rd = {"kind": kind, "fails": [list(f) for f in seen_fails], "before": snapshot(), "wipe": list(wipe)}
        try:
            from dvc_data.index import DataIndex

            ckw = {}
            mode = case.get("cache_index") or "none"
            if mode == "fresh":
                ckw = {"cache_index": DataIndex(), "cache_key": ("ck", kind)}
            elif mode == "shared":    # one cache index for all rounds of a kind: later rounds find the node and skip
                ckw = {"cache_index": shared_ci.setdefault(kind, DataIndex()), "cache_key": ("ck", kind)}
            groups = collect(idx, "remote", push=(kind == "push"), **ckw)
            rd["groups"] = observe_groups(groups, paths, C)
            kw = {"jobs": case.get("jobs", 1)}
            if case.get("callback"):
                from fsspec.callbacks import Callback

                kw["callback"] = Callback()
            rd["result"] = tuple((push if kind == "push" else fetch)(groups, **kw))
            rd["err"] = None
        except Exception as exc:  # noqa: BLE001
            rd["err"] = (impl.err_code(exc), repr(exc)[:200])
            rd.setdefault("groups", None)
            rd["result"] = None
        rd["attempts"] = {s: list(fss[s].attempts) for s in C.stores}
        rd["after"] = snapshot()
        rd["index"] = {r: read_index(r) for r in C.indexed}
        for s in C.stores:
            fss[s].fails = frozenset()
        obs["rounds"].append(rd)

    split = bool(case.get("split_index"))
    pidx = build_index(C, C.dmap, odbs, C.ro_push, root, split)
    one("push", pidx, [tuple(f) for f in case.get("fails") or []])
    if case.get("fresh_index_per_round"):
        pidx = build_index(C, C.dmap, odbs, C.ro_push, root, split)
    one("push", pidx, [])
    if case.get("wipe"):
        one("push", pidx, [], wipe=[r for r in case["wipe"] if r in C.remotes])
    obs["checkout"] = None
    if C.klass() is not None:
        after = obs["rounds"][-1]["after"]
        for kind, k, t in C.items:
            r = resolve(C.map, k, "remote")
            if kind == "dir" and r is not None and t not in after[r]:
                # the finding fired: the directory object cannot be loaded by a fetch (DataIndexDirError);
                # the fetch side would only repeat it
                impl.rm_rf(root)
                return obs
    if C.ro_push:
        # a read_only remote received nothing: the consumer side has nothing to fetch from it
        impl.rm_rf(root)
        return obs
    fidx = build_index(C, C.dfmap, odbs, C.ro_fetch, root, split)
    if case.get("ffails"):
        one("fetch", fidx, [tuple(f) for f in case["ffails"]])
        if case.get("fresh_index_per_round"):
            fidx = build_index(C, C.dfmap, odbs, C.ro_fetch, root, split)
    one("fetch", fidx, [])
    # the checkout is judged when every entry has been given a remote and a cache (else an entry that
    # nothing could fetch stops the checkout part-way, which is C09's subject)
    if all(covered(C.fmap, k) for _, k, _ in C.items) and all(
            resolve(C.fmap, k, "remote") is not None and resolve(C.fmap, k, "cache") is not None
            for k, _ in C.entries(C.fmap)):
        ws = os.path.join(root, "ws")
        errs = []
        try:
            cidx = build_index(C, C.dfmap, odbs, C.ro_fetch, root)[0]
            diff = compare(None, cidx)
            akw = {"links": list(case["links"])} if case.get("links") else {}
            apply(diff, ws, localfs, storage="cache", onerror=lambda *a: errs.append(a), **akw)
            obs["checkout"] = {"files": ws_files(ws), "dirs": impl.walk_dirs(ws) if os.path.isdir(ws) else [],
                               "errors": len(errs)}
        except Exception as exc:  # noqa: BLE001
            obs["checkout"] = {"files": ws_files(ws), "dirs": [], "errors": -1, "exc": repr(exc)[:200]}
    impl.rm_rf(root)
    return obs


# --------------------------------------------------------------------------------------
# oracle: the property, from the case data and os-level listings only


def judge(C, obs):
    problems = []
    reach = C.reachable()
    genuine = lambda lst: all(t in C.content and C.content[t] == b for t, b in lst.items())  # noqa: E731

    def closed(lst):
        return all(f in lst for d in lst if d in C.dirs for _, f in C.dirs[d])

    def check_round(i, rd, smap, src_role, dst_role, final):
        kind = rd["kind"]
        if rd["err"] is not None:
            problems.append((f"C18:{kind}-raised", f"round {i} ({kind}) raised {rd['err']}"))
            return
        gs = C.groups(smap)
        want = [(r, c, set(req)) for r, c, req in gs]
        got = [(d, c, set(req)) for d, c, req in rd["groups"]]
        if sorted((d, sorted(req)) for d, _, req in got) != sorted((r, sorted(req)) for r, _, req in want):
            problems.append((f"C18:{kind}-groups", f"round {i}: collect built {got}, the mapping gives {want}"))
        moved, failed = rd["result"]
        before, after = rd["before"], rd["after"]
        arrived = 0
        new_total = 0
        # groups run one after the other; several may deliver into one store.  An object arrives iff its
        # upload does not raise; a directory object moreover only if every file it lists is (then) there
        running = {s: set(before[s]) for s in C.stores}
        bad = {(d, t) for d, t in rd["fails"]}
        for r, c, req in gs:
            src, dst = (c, r) if kind == "push" else (r, c)
            new = {t for t in req if t in running[src] and t not in running[dst]}
            new_total += len(new)
            ok_files = {t for t in new if t not in C.dirs and (dst, t) not in bad}
            ok_dirs = {t for t in new if t in C.dirs and (dst, t) not in bad
                       and all(f in running[dst] or f in ok_files for _, f in C.dirs[t])}
            running[dst] |= ok_files | ok_dirs
        for s in C.stores:
            if set(after[s]) != running[s]:
                problems.append((f"C18:{kind}-contents", f"round {i}: store {s} holds {sorted(after[s])}; "
                                 f"moving exactly the reachable objects that could move gives {sorted(running[s])}"))
        for s in C.stores:
            gained = set(after[s]) - set(before[s])
            lost = set(before[s]) - set(after[s])
            arrived += len(gained)
            if lost or any(after[s][t] != before[s][t] for t in before[s] if t in after[s]):
                problems.append((f"C18:{kind}-store-damaged", f"round {i}: store {s} lost/changed {sorted(lost)}"))
            if not gained <= reach:
                problems.append((f"C18:{kind}-unreachable-object-moved",
                                 f"round {i}: store {s} received {sorted(gained - reach)} not reachable from the index"))
            if not genuine(after[s]):
                problems.append((f"C18:{kind}-wrong-bytes", f"round {i}: store {s} holds an object with wrong bytes"))
            if not closed(after[s]) and closed(before[s]):
                problems.append((f"C18:{kind}-not-closed", f"round {i}: store {s} has a directory object without its files"))
            if (s[0] == "c" and kind == "push") or (s[0] == "r" and kind == "fetch"):
                if gained:
                    problems.append((f"C18:{kind}-source-modified", f"round {i}: source store {s} gained {sorted(gained)}"))
        if kind == "push":
            for r in sorted(C.ro_push):
                if set(after[r]) != set(before[r]):
                    problems.append(("C18:push-into-read-only-remote",
                                     f"round {i}: remote {r} is attached read_only and received {sorted(set(after[r]) - set(before[r]))}"))
        if moved + failed != new_total:
            problems.append((f"C18:{kind}-counts", f"round {i}: {kind} returned ({moved}, {failed}); objects that had to move: {new_total}"))
        if moved != arrived:
            problems.append((f"C18:{kind}-moved-count-vs-arrived", f"round {i}: {kind} reports {moved} moved, {arrived} objects arrived"))
        for d, t in rd["fails"]:
            if t in after[d] and t not in before[d]:
                problems.append((f"C18:{kind}-failed-upload-present", f"round {i}: {t} arrived in {d} although its upload raised"))
        if not rd["fails"] and failed:
            problems.append((f"C18:{kind}-spurious-failure", f"round {i}: {failed} failures reported without a fault"))
        if final:
            if failed:
                problems.append((f"C18:{kind}-retry-incomplete", f"round {i}: clean retry still reports {failed} failed"))
            role = "remote" if kind == "push" else "cache"
            for s in ([r for r in C.remotes if r not in C.ro_push] if kind == "push"
                      else [C.fresh[c] for c in C.caches]):
                des = C.designated(smap, role, s) if kind == "push" else {
                    t for k, t in C.entries(smap)
                    if resolve(smap, k, "cache") == s and resolve(smap, k, "remote") is not None}
                gone = des - set(after[s])
                if gone:
                    sig = f"C18:designated-object-not-{'pushed' if kind == 'push' else 'fetched'}"
                    problems.append((sig, f"round {i}: {sorted(gone)} designated to {s} by the mapping are not in it after a clean {kind}"))
            if kind == "fetch":
                for c in C.caches:
                    n = C.fresh[c]
                    exact = set()
                    for r, gc, req in gs:
                        if gc == n:
                            exact |= {t for t in req if t in before[r]}
                    if set(after[n]) != exact | set(before[n]):
                        problems.append(("C18:fetch-not-exact", f"round {i}: fresh cache {n} holds {sorted(after[n])}, expected exactly {sorted(exact)}"))

    if obs.get("saved_problem"):
        problems.append(("C18:saved-object-not-in-designated-cache", obs["saved_problem"]))
    rounds = obs["rounds"]
    kinds = [r["kind"] for r in rounds]
    last_push = max(i for i, k in enumerate(kinds) if k == "push")
    last_fetch = max([i for i, k in enumerate(kinds) if k == "fetch"] or [-1])
    for i, rd in enumerate(rounds):
        smap = C.map if rd["kind"] == "push" else C.fmap
        final = (i == last_fetch) or (rd["kind"] == "push" and i >= 1 and not rd["fails"])
        check_round(i, rd, smap, None, None, final)
    co = obs.get("checkout")
    if co is not None and not problems:
        want = {}
        for kind, k, t in C.items:
            if kind == "file":
                want[jp(k)] = C.content[t]
            else:
                for rp, f in C.dirs[t]:
                    want[jp(k, rp)] = C.content[f]
        # only keys whose remote is designated can have been fetched
        fetched = {jp(k) for k, t in C.entries(C.fmap)
                   if resolve(C.fmap, k, "remote") is not None and resolve(C.fmap, k, "cache") is not None}
        want = {p: b for p, b in want.items() if p in fetched}
        got = {p: b for p, b in co["files"].items() if p in want}
        if got != want:
            miss = sorted(set(want) - set(got))
            problems.append(("C18:checkout-differs",
                             f"checkout from the fetched caches: missing {miss}, "
                             f"wrong {sorted(p for p in got if got[p] != want[p])}"))
    if co is not None and not problems:
        for kind, k, t in C.items:
            if kind == "dir" and not C.dirs[t] and k and jp(k) not in co.get("dirs", []):
                problems.append(("C18:checkout-empty-directory-missing",
                                 f"checkout from the fetched caches did not create the empty directory {jp(k)}"))
    kl = C.klass()
    if kl is not None:
        sig = SIG_MULTI if kl == "multi" else SIG_SPLIT
        problems = [((sig, what) if s0 in CONSEQUENCES else (s0, what)) for s0, what in problems]
    return problems


# --------------------------------------------------------------------------------------
# model terms


def ckey(k):
    return clist([cbytes(n) for n in k])


def coid(t):
    return cbytes(t)


def csmap(C, smap):
    def info(i):
        return ("{| si_data := %s; si_cache := %s; si_remote := %s |}"
                % tuple(copt(i.get(r), lambda s: cN(C.sid(s))) for r in ("data", "cache", "remote")))
    return clist([cpair(ckey(p), info(i)) for p, i in smap])


def model_terms(C, obs):
    ctab = {t: i for i, t in enumerate(C.tokens)}  # content index = token index (objects are genuine)
    items = []
    for kind, k, t in C.items:
        if kind == "file":
            items.append(f"IFile {ckey(k)} {coid(t)}")
        else:
            if k in C.explicit:
                # explicit children are entries of their own: visible whether or not a prefix covers the directory
                items.append(f"IDir {ckey(k)} {coid(t)} []")
                for rp, f in C.dirs[t]:
                    items.append(f"IFile {ckey(k + tuple(rp.split('/')))} {coid(f)}")
                continue
            lst = clist([cpair(ckey(tuple(rp.split('/'))), coid(f)) for rp, f in C.dirs[t]])
            items.append(f"IDir {ckey(k)} {coid(t)} {lst}")
    parse = clist([cpair(f"[{ctab[d]}]", clist([coid(f) for _, f in C.dirs[d]])) for d in C.dirs])
    stores = clist([cpair(cN(C.sid(s)), clist([cpair(coid(t), f"[{ctab[t]}]") for t in sorted(obs["initial"][s])]))
                    for s in C.stores])
    rounds = []
    for rd in obs["rounds"]:
        smap = C.map if rd["kind"] == "push" else C.fmap
        fails = clist([cpair(cN(C.sid(d)), coid(t)) for d, t in rd["fails"]])
        ro = sorted(C.ro_push) if rd["kind"] == "push" else sorted(C.ro_fetch)
        rounds.append("{| r_kind := %s; r_map := %s; r_fails := %s; r_ro := %s; r_wipe := %s |}"
                      % ("RPush" if rd["kind"] == "push" else "RFetch", csmap(C, smap), fails,
                         clist([cN(C.sid(r)) for r in ro]), clist([cN(C.sid(r)) for r in rd.get("wipe") or []])))
    co = obs.get("checkout")
    if co is not None and co.get("errors"):
        co = None  # a checkout that hit a missing object stops part-way (C09's subject); the oracle judges it
    inp = ("{| s_idx := %s; s_parse := %s; s_stores := %s; s_sids := %s; s_ix := %s; s_rounds := %s; s_checkout := %s |}"
           % (clist(items), parse, stores, clist([cN(C.sid(s)) for s in C.stores]),
              clist([cN(C.sid(r)) for r in C.indexed]), clist(rounds),
              "None" if co is None else f"(Some {csmap(C, C.fmap)})"))

    def vlisting(lst):
        return vset([t + "/" + (chr(ctab[t]) if t in ctab and C.content[t] == b else chr(9999)) for t, b in lst.items()])

    def vindex(rd):
        return vL([vset([t + "/" + chr(1 if d else 0) for t, d in rd["index"][r].items()]) for r in C.indexed])

    exp_rounds = []
    for rd in obs["rounds"]:
        if rd["groups"] is None:
            gs = vL([])
        else:
            gs = vL([vL([vN(C.sid(d)), vL([]) if c is None else vL([vN(C.sid(c))]), vset(req)])
                     for d, c, req in rd["groups"]])
        if rd["err"] is not None:
            exp_rounds.append(vL([gs, vL([vN(rd["err"][0])]), vN(0), vN(0),
                                  vL([vlisting(rd["after"][s]) for s in C.stores]), vindex(rd)]))
        else:
            exp_rounds.append(vL([gs, vL([]), vN(rd["result"][0]), vN(rd["result"][1]),
                                  vL([vlisting(rd["after"][s]) for s in C.stores]), vindex(rd)]))
    if co is None:
        exp_co = vL([])
    else:
        rev = {b: t for t, b in C.content.items()}
        exp_co = vset([p + "=" + (chr(ctab[rev[b]]) if b in rev else chr(9999)) for p, b in co["files"].items()])
    return inp, vL([vL(exp_rounds), exp_co])


# --------------------------------------------------------------------------------------
# generators

CONTENTS = [b"alpha", b"beta", b"", b"gamma\r\n", b"delta", b"alpha-2"]
ITEM_KEYS = [("d",), ("e",), ("p", "q"), ("f",), ("p", "r"), ("g", "h", "i"), ("n s", "\u00e9"), (".k",)]
RELPATHS = ["a", "b", "sub/b", "sub/c", "sub/deep/e", "z", "sub/\u0444 \u6f22.txt", ".h"]


def gen_base(rng):
    """one index + map (without faults)"""
    nfile = rng.choice([2, 3, 3, 4, 5])
    files = {f"f{i}": CONTENTS[i].hex() for i in range(nfile)}
    ftoks = list(files)
    ndir = rng.choice([0, 1, 1, 1, 2, 2])
    nplain = rng.choice([0, 1, 1, 2]) if ndir else rng.choice([1, 2])
    keys = rng.sample(ITEM_KEYS, ndir + nplain)
    items = []
    listings = []
    for i in range(ndir):
        if listings and rng.random() < 0.2:
            lst = listings[0]  # the same directory object under two keys
        else:
            rps = rng.sample(RELPATHS, rng.randint(1, 4))
            lst = [[rp, rng.choice(ftoks)] for rp in sorted(rps)]
        listings.append(lst)
        items.append(["dir", list(keys[i]), lst])
    for j in range(nplain):
        items.append(["file", list(keys[ndir + j]), rng.choice(ftoks)])
    rng.shuffle(items)
    # prefixes
    cands = [()]
    for it in items:
        k = tuple(it[1])
        cands.append(k)
        if len(k) > 1:
            cands.append(k[:1])
            cands.append(k[:-1])
        if it[0] == "dir":
            cands += [k + ("sub",), k + ("sub", "deep"), k + ("a",)]
    cands.append(("zz",))
    cands = list(dict.fromkeys(cands))
    nprefix = rng.choice([1, 1, 2, 2, 2, 3, 3])
    prefixes = rng.sample(cands, min(nprefix, len(cands)))
    if rng.random() < 0.6 and () not in prefixes:
        prefixes[0] = ()
    rng.shuffle(prefixes)
    smap = []
    nc = nr = 0
    for p in prefixes:
        r = rng.random()
        info = {"cache": None, "remote": None}
        if r < 0.45:
            info["cache"] = f"c{nc}"
            nc += 1
            info["remote"] = f"r{nr}"
            nr += 1
        elif r < 0.75:
            info["remote"] = f"r{nr}"
            nr += 1
        elif r < 0.85:
            info["cache"] = f"c{nc}"
            nc += 1
        else:
            info["cache"] = f"c{max(nc - 1, 0)}"
            nc = max(nc, 1)
            info["remote"] = f"r{nr}"
            nr += 1
        smap.append([list(p), info])
    cls = {}
    for _, i in smap:
        if i["remote"]:
            cls[i["remote"]] = rng.choice(["base", "local"])
    tmp = []
    for c in sorted({i["cache"] for _, i in smap if i["cache"]}):
        if rng.random() < 0.5:
            tmp.append(c)
    for r in sorted(cls):
        if rng.random() < 0.3:
            tmp.append(r)
    return {"files": files, "items": items, "map": smap, "cls": cls, "pre": {}, "topup": True, "fails": [],
            "tmp": tmp, "via_add": rng.random() < 0.35}


def gen_shared(rng):
    """one cache feeding two (or three) remotes; a directory goes to one remote, loose files that share contents
    with files it lists go to another, under a prefix of their own; tmp_dir mostly on the cache only"""
    nfile = rng.choice([3, 4])
    files = {f"f{i}": CONTENTS[i].hex() for i in range(nfile)}
    ftoks = list(files)
    rps = rng.sample(RELPATHS, rng.randint(1, 3))
    lst = [[rp, rng.choice(ftoks)] for rp in sorted(rps)]
    dkey, lkey = rng.sample([("a",), ("b",), ("d", "e"), ("k",)], 2)
    items = [["dir", list(dkey), lst]]
    listed = [f for _, f in lst]
    for j in range(rng.randint(1, 2)):
        items.append(["file", list(lkey) + [f"l{j}"], rng.choice(listed) if rng.random() < 0.8 else rng.choice(ftoks)])
    if rng.random() < 0.3:
        items.append(["file", ["t"], rng.choice(ftoks)])
    rng.shuffle(items)
    droot = rng.random() < 0.6
    smap = [[[] if droot else list(dkey), {"cache": "c0", "remote": "r0"}],
            [list(lkey), {"cache": None if droot else "c0", "remote": "r1"}]]
    if rng.random() < 0.3:
        rng.shuffle(smap)
    cls = {"r0": rng.choice(["base", "local"]), "r1": rng.choice(["base", "local"])}
    tmp = ["c0"] if rng.random() < 0.8 else []
    for r in ("r0", "r1"):
        if rng.random() < 0.2:
            tmp.append(r)
    return {"files": files, "items": items, "map": smap, "cls": cls, "pre": {}, "topup": True, "fails": [],
            "tmp": tmp, "via_add": rng.random() < 0.35}


def gen_root(rng):
    """the whole index is one entry at the root key ()"""
    nfile = rng.choice([2, 3, 4])
    files = {f"f{i}": CONTENTS[i].hex() for i in range(nfile)}
    ftoks = list(files)
    if rng.random() < 0.25:
        items = [["file", [], rng.choice(ftoks)]]
        inner = []
    else:
        rps = rng.sample(RELPATHS, rng.randint(0, 4))
        items = [["dir", [], [[rp, rng.choice(ftoks)] for rp in sorted(rps)]]]
        inner = [("sub",), ("sub", "deep"), ("a",)]
    smap = [[[], {"cache": "c0", "remote": "r0"}]]
    cls = {"r0": rng.choice(["base", "local"])}
    if inner and rng.random() < 0.6:
        smap.append([list(rng.choice(inner)), {"cache": None, "remote": "r1"}])
        cls["r1"] = rng.choice(["base", "local"])
        rng.shuffle(smap)
    tmp = [s for s in ["c0"] + sorted(cls) if rng.random() < 0.3]
    return {"files": files, "items": items, "map": smap, "cls": cls, "pre": {}, "topup": True, "fails": [],
            "tmp": tmp, "via_add": rng.random() < 0.35}


def sample_routes(rng, base):
    """dimensions that belong to the index / the mapping (they change what the model sees)"""
    for it in base["items"]:
        if it[0] == "dir" and len(it) == 3 and rng.random() < 0.3:
            it.append({"explicit": True})
    if rng.random() < 0.25:
        rng.choice(base["map"])[1]["data"] = rng.choice(["file", "x0"])


def sample_producer(rng, base, C):
    """how the producer's caches were filled, and an incremental push over a cache that has lost an object"""
    if C.klass() is not None or C.ro_push:
        return
    es = C.entries(C.map)
    if (not C.via_add and not C.placement()[1] and all(resolve(C.map, k, "cache") is not None for k, _ in es)
            and all(k for _, k, _ in C.items) and rng.random() < 0.35):
        base["via_save"] = True
    gs = C.groups(C.map)
    if len(gs) == 1 and not base.get("pre") and rng.random() < 0.2:
        r, c, req = gs[0]
        files = sorted(t for t in req if t not in C.dirs)
        if files and c is not None:
            f = rng.choice(files)
            base["pre"] = {r: [f]}
            base["cache_lacks"] = {c: [f]}


def sample_flags(rng, c, C):
    """dimensions that must not change the outcome: every flag of push / fetch / collect / apply, the construction
    route of the index, the kind of the injected error"""
    c["jobs"] = rng.choice([1, 1, None, 4])
    if rng.random() < 0.3:
        c["callback"] = True
    c["cache_index"] = rng.choice(["none", "none", "fresh", "shared"])
    if len(c["items"]) >= 2 and rng.random() < 0.2:
        c["split_index"] = True
    if rng.random() < 0.2:
        c["backend"] = "sqlite"
    if rng.random() < 0.3:
        c["fresh_index_per_round"] = True
    if rng.random() < 0.3:
        c["obj_name"] = True
    c["links"] = rng.choice([None, ["copy"], ["symlink"], ["hardlink"], ["reflink", "copy"]])
    if c.get("fails"):
        c.pop("eacces", None)
        kinds = ["EIO", "EACCES", "ENOENT"]
        if all(t in C.dirs for _, t in c["fails"]) and not c.get("ffails"):
            # FileExistsError: dvc_objects' generic.transfer skips it ("already exists") only for the file that
            # goes through the link probe, i.e. the first of a batch; a directory object is always a batch of its own
            kinds.append("EEXIST")
        c["efault"] = rng.choice(kinds)
    if C.klass() is None and not C.ro_push:
        if rng.random() < 0.2:
            n = rng.choice([C.fresh[x] for x in C.caches])
            reach = sorted(C.reachable())
            pick = set(rng.sample(reach, rng.randint(1, len(reach))))
            for d in list(pick):
                if d in C.dirs and not all(f in pick for _, f in C.dirs[d]):
                    pick.discard(d)
            if pick:
                c["cache_pre"] = {n: sorted(pick)}
        if rng.random() < 0.15 and not c.get("cache_lacks"):
            # (not together with a cache that relies on the remote for an object: emptying the remote loses it)
            c["wipe"] = [rng.choice(C.indexed or C.remotes)]


def usable(case, rng=None):
    C = Case(case)
    if not C.remotes or not C.caches:
        return None
    if not C.all_remote_groups_have_cache():
        return None
    # a directory entry that is reached must be loadable at fetch time: its own key needs a remote
    for kind, k, t in C.items:
        if kind == "dir" and covered(C.map, k) and resolve(C.map, k, "remote") is None:
            return None
    # an entry with a designated remote needs a designated cache for its own key (index.save asserts it)
    for k, _t in C.entries(C.map):
        if resolve(C.map, k, "remote") is not None and resolve(C.map, k, "cache") is None:
            return None
    multi = not C.single_cache_per_group()
    if multi and not MULTI_CACHE_STREAM:
        return None
    if multi:
        case["topup"] = False
    elif MULTI_CACHE_STREAM and C.placement()[1] and rng is not None and rng.random() < 0.5:
        case["topup"] = False
    return Case(case)


def add_pre(rng, case, C):
    """pre-populate remotes with a closed subset of the reachable objects"""
    if rng.random() < 0.35:
        r = rng.choice(C.remotes)
        reach = sorted(C.reachable())
        pick = set(rng.sample(reach, rng.randint(1, len(reach))))
        for d in list(pick):
            if d in C.dirs and not all(f in pick for _, f in C.dirs[d]):
                if rng.random() < 0.5:
                    pick.update(f for _, f in C.dirs[d])
                else:
                    pick.discard(d)
        case["pre"] = {r: sorted(pick)}


def uploads_of(C, kind="push"):
    """(destination, token) pairs the first round has to move, from the case data"""
    place, _ = C.placement()
    pre = C.case.get("pre") or {}
    ups = []
    for r, c, req in C.groups(C.map):
        have = set(pre.get(r, []))
        for t in sorted(req):
            if t in place[c] and t not in have:
                ups.append((r, t))
    return ups


def fail_subsets(rng, ups, exhaustive_limit, k):
    if len(ups) <= exhaustive_limit:
        return [list(s) for n in range(len(ups) + 1) for s in itertools.combinations(ups, n)]
    out = [[], list(ups)]
    for u in ups:
        out.append([u])
    seen = {tuple(x) for x in out}
    tries = 0
    while len(out) < k + 2 + len(ups) and tries < 10 * k:
        tries += 1
        s = tuple(u for u in ups if rng.random() < 0.4)
        if s not in seen:
            seen.add(s)
            out.append(list(s))
    return out


CORPUS = [
    # root mapping plus a prefix INSIDE the directory entry re-routing its sub-tree to another remote
    {"files": {"f0": b"A".hex(), "f1": b"B".hex(), "f2": b"top".hex()},
     "items": [["dir", ["d"], [["a", "f0"], ["sub/b", "f1"], ["sub/c", "f0"]]], ["file", ["f"], "f2"]],
     "map": [[[], {"cache": "c0", "remote": "r0"}], [["d", "sub"], {"cache": None, "remote": "r1"}]],
     "cls": {"r0": "base", "r1": "local"}, "pre": {}, "topup": True, "fails": [["r0", "f0"]]},
    # two directories sharing a file, the shared file fails: both directory objects are withheld
    {"files": {"f0": b"s".hex(), "f1": b"x".hex()},
     "items": [["dir", ["d"], [["a", "f0"], ["b", "f1"]]], ["dir", ["e"], [["z", "f0"]]]],
     "map": [[[], {"cache": "c0", "remote": "r0"}]],
     "cls": {"r0": "base"}, "pre": {}, "topup": True, "fails": [["r0", "f0"]], "eacces": True},
    # cache defined at the root only, remote only below: a per-role fallback
    {"files": {"f0": b"1".hex(), "f1": b"".hex()},
     "items": [["file", ["p", "q"], "f0"], ["file", ["p", "r"], "f1"], ["file", ["f"], "f0"]],
     "map": [[["p"], {"cache": None, "remote": "r0"}], [[], {"cache": "c0", "remote": None}],
             [["p", "r"], {"cache": None, "remote": "r1"}]],
     "cls": {"r0": "local", "r1": "base"}, "pre": {}, "topup": True, "fails": [["r1", "f1"]],
     "ffails": [["n0", "f0"]]},
]


CORPUS += [
    # (S2) two disjoint prefixes, one remote, two caches: collect keeps the first prefix's cache
    {"files": {"f0": b"A".hex(), "f1": b"B".hex()},
     "items": [["file", ["x"], "f0"], ["file", ["y"], "f1"]],
     "map": [[["x"], {"cache": "c0", "remote": "r0"}], [["y"], {"cache": "c1", "remote": "r0"}]],
     "cls": {"r0": "base"}, "pre": {}, "topup": False, "fails": []},
    # (S1) a directory whose file sub/b a longer prefix re-routes to another cache and remote
    {"files": {"f0": b"A".hex(), "f1": b"B".hex()},
     "items": [["dir", ["d"], [["a", "f0"], ["sub/b", "f1"]]]],
     "map": [[[], {"cache": "c0", "remote": "r0"}], [["d", "sub"], {"cache": "c1", "remote": "r1"}]],
     "cls": {"r0": "base", "r1": "base"}, "pre": {}, "topup": False, "fails": []},
]


CORPUS += [
    # the cache has a tmp_dir, the two remotes have none (they must stay index-free): a directory to r0, then a
    # loose file with the content of a file that directory lists to r1
    {"files": {"f0": b"shared\n".hex(), "f1": b"only-a\n".hex(), "f2": b"only-b\n".hex()},
     "items": [["dir", ["a"], [["x", "f0"], ["y", "f1"]]], ["file", ["b", "f"], "f0"], ["file", ["b", "g"], "f2"]],
     "map": [[[], {"cache": "c0", "remote": "r0"}], [["b"], {"cache": None, "remote": "r1"}]],
     "cls": {"r0": "base", "r1": "base"}, "pre": {}, "topup": True, "fails": [], "tmp": ["c0"]},
    # the same with a real index on r0 only, and a fault: the index must not claim what did not arrive
    {"files": {"f0": b"shared\n".hex(), "f1": b"only-a\n".hex(), "f2": b"only-b\n".hex()},
     "items": [["dir", ["a"], [["x", "f0"], ["y", "f1"]]], ["file", ["b", "f"], "f0"], ["file", ["b", "g"], "f2"]],
     "map": [[[], {"cache": "c0", "remote": "r0"}], [["b"], {"cache": None, "remote": "r1"}]],
     "cls": {"r0": "base", "r1": "local"}, "pre": {}, "topup": True, "fails": [["r0", "f1"]], "tmp": ["c0", "r0"]},
    # both remotes indexed, the second pre-populated
    {"files": {"f0": b"A".hex(), "f1": b"B".hex()},
     "items": [["dir", ["d"], [["a", "f0"], ["sub/b", "f1"]]], ["file", ["f"], "f0"]],
     "map": [[["d"], {"cache": "c0", "remote": "r0"}], [["f"], {"cache": "c0", "remote": "r1"}]],
     "cls": {"r0": "local", "r1": "base"}, "pre": {"r1": ["f0"]}, "topup": True, "fails": [["r0", "f0"]],
     "tmp": ["r0", "r1"]},
]


CORPUS += [
    # the map is built through add_cache / add_remote, parent then child: the child's remote must not leak into
    # the root's StorageInfo
    {"files": {"f0": b"A".hex(), "f1": b"B".hex(), "f2": b"C".hex()},
     "items": [["dir", ["d"], [["a", "f0"], ["b", "f1"]]], ["file", ["other", "f"], "f2"], ["file", ["g"], "f0"]],
     "map": [[[], {"cache": "c0", "remote": "r0"}], [["other"], {"cache": None, "remote": "r1"}]],
     "cls": {"r0": "base", "r1": "base"}, "pre": {}, "topup": True, "fails": [], "via_add": True},
    # child then parent, the child with a cache of its own
    {"files": {"f0": b"A".hex(), "f1": b"B".hex()},
     "items": [["file", ["other", "f"], "f1"], ["file", ["g"], "f0"]],
     "map": [[["other"], {"cache": "c1", "remote": "r1"}], [[], {"cache": "c0", "remote": "r0"}]],
     "cls": {"r0": "local", "r1": "base"}, "pre": {}, "topup": True, "fails": [["r0", "f0"]], "via_add": True},
    # three nested prefixes added outermost, innermost, middle: the innermost keeps the copy it took at the time
    {"files": {"f0": b"A".hex(), "f1": b"B".hex(), "f2": b"C".hex()},
     "items": [["file", ["p", "q", "x"], "f0"], ["file", ["p", "y"], "f1"], ["file", ["z"], "f2"]],
     "map": [[[], {"cache": "c0", "remote": "r0"}], [["p", "q"], {"cache": None, "remote": "r1"}],
             [["p"], {"cache": None, "remote": "r2"}]],
     "cls": {"r0": "base", "r1": "base", "r2": "local"}, "pre": {}, "topup": True, "fails": [], "via_add": True},
    # sibling prefixes, the consumer attaches one remote read_only: a fetch must still bring its objects
    {"files": {"f0": b"A".hex(), "f1": b"B".hex(), "f2": b"C".hex()},
     "items": [["dir", ["a"], [["x", "f0"], ["sub/y", "f1"]]], ["file", ["b", "f"], "f2"]],
     "map": [[["a"], {"cache": "c0", "remote": "r0"}], [["b"], {"cache": "c0", "remote": "r1"}]],
     "cls": {"r0": "base", "r1": "base"}, "pre": {}, "topup": True, "fails": [], "ro_fetch": ["r0"]},
    # the producer attaches a remote read_only: a push leaves it alone
    {"files": {"f0": b"A".hex(), "f1": b"B".hex()},
     "items": [["file", ["a", "f"], "f0"], ["file", ["b", "f"], "f1"]],
     "map": [[["a"], {"cache": "c0", "remote": "r0"}], [["b"], {"cache": "c0", "remote": "r1"}]],
     "cls": {"r0": "base", "r1": "local"}, "pre": {}, "topup": True, "fails": [["r0", "f0"]], "ro_push": ["r1"]},
]


CORPUS += [
    # a prefix strictly INSIDE an unloaded directory entry, registered BEFORE the prefix that covers the entry:
    # collecting it must load the directory first
    {"files": {"f0": b"A".hex(), "f1": b"B".hex(), "f2": b"C".hex()},
     "items": [["dir", ["d"], [["a", "f0"], ["sub/b", "f1"], ["sub/deep/c", "f2"]]]],
     "map": [[["d", "sub"], {"cache": None, "remote": "r1"}], [[], {"cache": "c0", "remote": "r0"}]],
     "cls": {"r0": "base", "r1": "base"}, "pre": {}, "topup": True, "fails": []},
    # one remote designated by two separate prefixes, another remote in between
    {"files": {"f0": b"A".hex(), "f1": b"B".hex(), "f2": b"C".hex()},
     "items": [["file", ["a", "f"], "f0"], ["file", ["b", "f"], "f1"], ["dir", ["c"], [["x", "f2"], ["y", "f0"]]]],
     "map": [[["a"], {"cache": "c0", "remote": "r0"}], [["b"], {"cache": "c0", "remote": "r1"}],
             [["c"], {"cache": "c0", "remote": "r0"}]],
     "cls": {"r0": "base", "r1": "local"}, "pre": {}, "topup": True, "fails": [["r0", "f2"]]},
]


LONG = "L" * 200
CORPUS += [
    # names: backslash, space, leading dot, Cyrillic, CJK, emoji, NFD next to its NFC twin, a name ending in .dir,
    # siblings one of which is a string prefix of the other, 1 and 200 characters, names differing only in case;
    # a prefix ("imgs",) that is NOT a key of any entry and must not capture imgs_raw / imgs.bak
    {"files": {"f0": b"x1".hex(), "f1": b"".hex(), "f2": b"x8".hex()},
     "items": [["dir", ["we\\ird dir"],
                [["a b.txt", "f0"], [".hidden", "f1"], ["\u043a\u0438\u0440.txt", "f0"], ["\u6f22\u5b57/\U0001f600.bin", "f2"],
                 ["cafe\u0301.txt", "f1"], ["caf\u00e9.txt", "f2"], ["x.dir", "f0"], ["imgs/1", "f1"], ["imgs_raw/1", "f2"],
                 ["imgs.bak", "f0"], ["q", "f2"], [LONG, "f1"], ["Case/f", "f0"], ["case", "f2"]]],
               ["file", ["imgs_raw", "f"], "f2"], ["file", ["imgs.bak"], "f0"], ["file", [".dot", "\u00e9"], "f1"]],
     "map": [[[], {"cache": "c0", "remote": "r0"}], [["imgs"], {"cache": None, "remote": "r1"}],
             [["we\\ird dir", "imgs"], {"cache": None, "remote": "r1"}]],
     "cls": {"r0": "base", "r1": "local"}, "pre": {}, "topup": True, "fails": [["r0", "f1"]], "efault": "ENOENT",
     "links": ["symlink"], "jobs": 4},
    # the whole index is ONE directory entry at the root key (), mapped at (), a prefix inside it re-routing sub/
    {"files": {"f0": b"A".hex(), "f1": b"".hex(), "f2": b"C".hex()},
     "items": [["dir", [], [["a", "f0"], ["sub/b", "f1"], ["sub/deep/c", "f2"], ["z", "f0"]]]],
     "map": [[[], {"cache": "c0", "remote": "r0"}], [["sub"], {"cache": None, "remote": "r1"}]],
     "cls": {"r0": "base", "r1": "base"}, "pre": {}, "topup": True, "fails": [["r0", "d0.dir"]], "efault": "EEXIST",
     "links": ["hardlink"], "cache_index": "shared", "tmp": ["r0"]},
    # ... the same through an SQLite-backed index with explicit children
    {"files": {"f0": b"A".hex(), "f1": b"".hex(), "f2": b"C".hex()},
     "items": [["dir", [], [["a", "f0"], ["sub/b", "f1"], ["sub/deep/c", "f2"]], {"explicit": True}]],
     "map": [[[], {"cache": "c0", "remote": "r0"}]],
     "cls": {"r0": "local"}, "pre": {}, "topup": True, "fails": [["r0", "f2"]], "backend": "sqlite",
     "links": ["copy"], "callback": True, "fresh_index_per_round": True},
    # a single FILE entry at the root key
    {"files": {"f0": b"only".hex()},
     "items": [["file", [], "f0"]],
     "map": [[[], {"cache": "c0", "remote": "r0"}]],
     "cls": {"r0": "base"}, "pre": {}, "topup": True, "fails": [["r0", "f0"]], "jobs": None},
    # shapes: an empty directory (the oid of the empty listing), a directory with one file, depth 3 with an
    # intermediate directory holding only a sub-directory, identical contents in one directory and across prefixes,
    # file and directory ids ending in "d" (x1, x8; the listing of y5)
    {"files": {"f0": b"x1".hex(), "f1": b"x8".hex(), "f2": b"y5".hex(), "f3": b"".hex()},
     "items": [["dir", ["empty"], []], ["dir", ["one"], [["a", "f2"]]],
               ["dir", ["deep"], [["x/y/z/f", "f0"], ["x/y/z/g", "f0"], ["t", "f3"]]],
               ["file", ["other", "f"], "f0"], ["file", ["other", "g"], "f1"]],
     "map": [[[], {"cache": "c0", "remote": "r0"}], [["other"], {"cache": None, "remote": "r1"}],
             [["deep", "x", "y"], {"cache": None, "remote": "r2"}]],
     "cls": {"r0": "base", "r1": "base", "r2": "local"}, "pre": {}, "topup": True, "fails": [["r2", "f0"]],
     "obj_name": True, "links": ["reflink", "copy"], "split_index": True, "cache_index": "fresh"},
    # mappings: three prefixes nested 3 deep with every role combination, a FileStorage and an ObjectStorage in
    # the data role, a role-less prefix, direct construction
    {"files": {"f0": b"A".hex(), "f1": b"B".hex(), "f2": b"C".hex()},
     "items": [["file", ["p", "q", "r", "x"], "f0"], ["dir", ["p", "q", "d"], [["a", "f1"], ["b", "f2"]]],
               ["file", ["p", "y"], "f1"], ["file", ["z"], "f2"]],
     "map": [[[], {"data": "file", "cache": "c0", "remote": "r0"}], [["p"], {"data": "x0", "cache": None, "remote": "r1"}],
             [["p", "q"], {"data": None, "cache": "c0", "remote": None}], [["p", "q", "r"], {"cache": None, "remote": "r2"}],
             [["nowhere"], {"cache": None, "remote": None}]],
     "cls": {"r0": "base", "r1": "local", "r2": "base"}, "pre": {}, "topup": True, "fails": [["r1", "f1"], ["r1", "d0.dir"]],
     "efault": "EACCES"},
    # the same roles registered through add_data / add_cache / add_remote, child before parent
    {"files": {"f0": b"A".hex(), "f1": b"B".hex()},
     "items": [["file", ["p", "q", "x"], "f0"], ["file", ["p", "y"], "f1"], ["file", ["z"], "f0"]],
     "map": [[["p", "q"], {"data": "x0", "cache": None, "remote": "r1"}], [["p"], {"data": "file", "cache": "c0", "remote": None}],
             [[], {"cache": "c0", "remote": "r0"}]],
     "cls": {"r0": "base", "r1": "base"}, "pre": {}, "topup": True, "fails": [], "via_add": True},
    # state: a remote with a real index loses everything behind the index's back (stale index), a third push
    # must bring it all back; the fresh cache already holds part of the objects
    {"files": {"f0": b"A".hex(), "f1": b"B".hex(), "f2": b"C".hex()},
     "items": [["dir", ["d"], [["a", "f0"], ["sub/b", "f1"]]], ["file", ["f"], "f2"]],
     "map": [[[], {"cache": "c0", "remote": "r0"}]],
     "cls": {"r0": "base"}, "pre": {}, "topup": True, "fails": [["r0", "f1"]], "tmp": ["r0", "c0"], "wipe": ["r0"],
     "cache_pre": {"n0": ["f0", "f2"]}},
    # faults on the directory object itself and on the first / last upload of a batch, each kind of error
    {"files": {"f0": b"A".hex(), "f1": b"B".hex(), "f2": b"C".hex(), "f3": b"D".hex()},
     "items": [["dir", ["d"], [["a", "f0"], ["b", "f1"], ["c", "f2"]]], ["file", ["f"], "f3"]],
     "map": [[[], {"cache": "c0", "remote": "r0"}]],
     "cls": {"r0": "base"}, "pre": {}, "topup": True, "fails": [["r0", "d0.dir"]], "efault": "EIO"},
    {"files": {"f0": b"A".hex(), "f1": b"B".hex(), "f2": b"C".hex(), "f3": b"D".hex()},
     "items": [["dir", ["d"], [["a", "f0"], ["b", "f1"], ["c", "f2"]]], ["file", ["f"], "f3"]],
     "map": [[[], {"cache": "c0", "remote": "r0"}]],
     "cls": {"r0": "local"}, "pre": {}, "topup": True, "fails": [["r0", "f0"], ["r0", "f2"], ["r0", "f3"]],
     "efault": "ENOENT", "ffails": [["n0", "d0.dir"]]},
]


CORPUS += [
    # the producer fills its caches through index.save(): identical contents under two prefixes with DIFFERENT
    # caches must reach both caches (and then both remotes)
    {"files": {"f0": b"same bytes".hex(), "f1": b"other".hex()},
     "items": [["file", ["a", "f"], "f0"], ["file", ["b", "g"], "f0"], ["dir", ["b", "d"], [["x", "f0"], ["y", "f1"]]]],
     "map": [[["a"], {"cache": "c0", "remote": "r0"}], [["b"], {"cache": "c1", "remote": "r1"}]],
     "cls": {"r0": "base", "r1": "base"}, "pre": {}, "topup": True, "fails": [], "via_save": True},
    {"files": {"f0": b"same bytes".hex(), "f1": b"".hex()},
     "items": [["dir", ["d"], [["a", "f0"], ["sub/b", "f1"], ["sub/c", "f0"]]], ["file", ["f"], "f0"]],
     "map": [[[], {"cache": "c0", "remote": "r0"}], [["d", "sub"], {"cache": None, "remote": "r1"}]],
     "cls": {"r0": "local", "r1": "base"}, "pre": {}, "topup": True, "fails": [["r0", "f0"]], "via_save": True},
    # an incremental push: the remote already holds file a of the directory, the local cache has lost it; the
    # grown directory (object + new file) must still arrive
    {"files": {"f0": b"old".hex(), "f1": b"new".hex()},
     "items": [["dir", ["d"], [["a", "f0"], ["b", "f1"]]]],
     "map": [[[], {"cache": "c0", "remote": "r0"}]],
     "cls": {"r0": "base"}, "pre": {"r0": ["f0"]}, "cache_lacks": {"c0": ["f0"]}, "topup": True, "fails": []},
    {"files": {"f0": b"old".hex(), "f1": b"new".hex(), "f2": b"x".hex()},
     "items": [["dir", ["d"], [["a", "f0"], ["b", "f1"]]], ["file", ["f"], "f2"]],
     "map": [[[], {"cache": "c0", "remote": "r0"}]],
     "cls": {"r0": "local"}, "pre": {"r0": ["f0"]}, "cache_lacks": {"c0": ["f0"]}, "topup": True,
     "fails": [["r0", "f1"]], "tmp": ["r0"]},
]


def dimensions(C, obs):
    """the input dimensions of tools/COVERAGE_AUDIT.md this case has"""
    import unicodedata

    case = C.case
    d = []
    names = set()
    for _, k, t in C.items:
        names.update(k)
    for lst in C.dirs.values():
        for rp, _ in lst:
            names.update(rp.split("/"))
    for p, _ in C.dmap:
        names.update(p)
    for n in names:
        if "\\" in n:
            d.append("name:backslash")
        if " " in n:
            d.append("name:space")
        if n.startswith("."):
            d.append("name:leading-dot")
        if any(ord(ch) > 127 for ch in n):
            d.append("name:non-ascii")
        if unicodedata.normalize("NFC", n) != n:
            d.append("name:not-NFC")
        if n.endswith(".dir"):
            d.append("name:ends-with-.dir")
        if len(n) == 1:
            d.append("name:1-char")
        if len(n) >= 200:
            d.append("name:200-chars")
        if any(m != n and m.startswith(n) for m in names):
            d.append("name:string-prefix-of-sibling")
        if any(m != n and m.lower() == n.lower() for m in names):
            d.append("name:case-twin")
    for kind, k, t in C.items:
        if not k:
            d.append("shape:%s-entry-at-root-key" % ("directory" if kind == "dir" else "file"))
        if kind == "dir":
            lst = C.dirs[t]
            d.append("shape:explicit-children" if k in C.explicit else "shape:lazily-loaded-directory")
            if not lst:
                d.append("shape:empty-directory")
            if len(lst) == 1:
                d.append("shape:directory-with-one-file")
            if any(rp.count("/") >= 3 for rp, _ in lst):
                d.append("shape:depth>=3-intermediate-only-subdirs")
            fl = [f for _, f in lst]
            if len(set(fl)) < len(fl):
                d.append("shape:identical-contents-in-one-directory")
            if C.oid[t][:-4].endswith("d"):
                d.append("id:directory-id-ends-in-d")
            if C.oid[t] == "d751713988987e9331980363e24189ce.dir":
                d.append("id:empty-listing")
    es = C.entries(C.map)
    byt = {}
    for k, t in es:
        byt.setdefault(t, set()).add(resolve(C.map, k, "remote"))
    if any(len(v - {None}) > 1 for v in byt.values()):
        d.append("shape:identical-contents-across-remotes")
    if any(C.content[t] == b"" for _, t in es):
        d.append("shape:zero-length-file")
    if any(t not in C.dirs and C.oid[t].endswith("d") for _, t in es):
        d.append("id:file-id-ends-in-d")
    if len({t for kind, _, t in C.items if kind == "dir"}) < sum(1 for kind, _, _ in C.items if kind == "dir"):
        d.append("shape:one-directory-object-under-two-keys")
    if case.get("obj_name"):
        d.append("id:obj_name-label")
    keys = {k for _, k, _ in C.items}
    dirkeys = {k for kind, k, _ in C.items if kind == "dir"}
    for p, i in C.dmap:
        d.append("map:roles=" + ("+".join(r for r in ("data", "cache", "remote") if i.get(r)) or "none"))
        if i.get("data") == "file":
            d.append("map:data-role-FileStorage")
        if i.get("data") == "x0":
            d.append("map:data-role-ObjectStorage")
        if p not in keys and not any(is_prefix(k, p) for k in dirkeys):
            d.append("map:prefix-not-a-key-of-any-entry")
        if any(len(p) > len(k) and is_prefix(k, p) for k in dirkeys):
            d.append("map:prefix-strictly-inside-directory")
        if p in dirkeys:
            d.append("map:prefix-is-directory-key")
    chain = max((sum(1 for q, _ in C.dmap if is_prefix(q, p)) for p, _ in C.dmap), default=0)
    if chain >= 3:
        d.append("map:nested-3-deep")
    rem = [resolve(C.map, p, "remote") for p, _ in C.map]
    if any(r is not None and rem.count(r) > 1 for r in rem):
        d.append("map:same-remote-under-several-prefixes")
    d.append("route:add_*-helpers" if C.via_add else "route:direct-StorageInfo")
    if any(is_prefix(q, p) and q != p for n, (p, _) in enumerate(C.dmap) for q, _ in C.dmap[n + 1:]):
        d.append("route:child-registered-before-parent")
    if any(is_prefix(p, q) and q != p for n, (p, _) in enumerate(C.dmap) for q, _ in C.dmap[n + 1:]):
        d.append("route:parent-registered-before-child")
    d.append("route:index-backend=" + (case.get("backend") or "memory"))
    if case.get("split_index"):
        d.append("route:two-indexes-in-one-collect")
    if case.get("fresh_index_per_round"):
        d.append("route:fresh-index-object-for-the-retry")
    d.append("flag:jobs=%s" % case.get("jobs", 1))
    d.append("flag:callback=" + ("non-default" if case.get("callback") else "default"))
    d.append("flag:cache_index=" + (case.get("cache_index") or "none"))
    d.append("flag:checkout-links=" + ("+".join(case["links"]) if case.get("links") else "default"))
    if C.ro_push:
        d.append("flag:read_only-remote-on-push")
    if C.ro_fetch:
        d.append("flag:read_only-remote-on-fetch")
    d.append("state:remote-index=" + ("real" if C.indexed else "noop"))
    if any(c in C.tmp for c in C.caches):
        d.append("state:cache-with-tmp_dir")
    if case.get("pre"):
        d.append("state:remote-prepopulated")
    if case.get("cache_lacks"):
        d.append("state:cache-lost-an-object-the-remote-holds(incremental-push)")
    d.append("route:caches-filled-by-" + ("index.save()" if case.get("via_save") else "planting"))
    if case.get("via_save") and len(C.caches) > 1:
        d.append("route:index.save()-into-several-caches")
    if case.get("cache_pre"):
        d.append("state:fetch-cache-prepopulated")
    if case.get("wipe"):
        d.append("state:remote-emptied-behind-its-index(stale)" if set(case["wipe"]) & set(C.indexed)
                 else "state:remote-emptied-between-pushes")
    fails = [tuple(f) for f in case.get("fails") or []]
    if fails:
        d.append("fault:kind=" + (case.get("efault") or ("EACCES" if case.get("eacces") else "EIO")))
        if any(t in C.dirs for _, t in fails):
            d.append("fault:on-the-directory-object")
        if any(t not in C.dirs for _, t in fails):
            d.append("fault:on-a-file")
        r0 = obs["rounds"][0]
        for s, att in (r0.get("attempts") or {}).items():
            bad = [C.tok.get(o) for o in att]
            if bad and (s, bad[0]) in fails:
                d.append("fault:first-upload-of-the-round")
            if bad and (s, bad[-1]) in fails:
                d.append("fault:last-upload-of-the-round")
        d.append("fault:retry-after-partial-failure")
    if case.get("ffails"):
        d.append("fault:in-fetch")
    if obs.get("checkout") is not None:
        d.append("checkout:judged")
    return sorted(set(d))


def features(C, obs):
    f = []
    f.append(f"prefixes:{len(C.map)}")
    f.append(f"remotes:{len(C.remotes)}")
    f.append(f"caches:{len(C.caches)}")
    f.append(f"dirs:{sum(1 for k, _, _ in C.items if k == 'dir')}")
    if any(len(p) > len(k) and is_prefix(k, p) for p, _ in C.map for kind, k, _ in C.items if kind == "dir"):
        f.append("prefix-inside-directory")
    if any(i.get("cache") is None and i.get("remote") for _, i in C.map) and len(C.map) > 1:
        f.append("role-fallback")
    if C.case.get("pre"):
        f.append("remote-prepopulated")
    if C.via_add:
        f.append("map-built-through-add_*" + (":stored-map-differs" if C.map != C.dmap else ""))
    if C.ro_fetch:
        f.append("read_only-remote:fetch-side")
    if C.ro_push:
        f.append("read_only-remote:push-side")
    f.append("tmp_dir:caches=%d,remotes=%d" % (sum(1 for c in C.caches if c in C.tmp), len(C.indexed)))
    loose = {t for kind, k, t in C.items if kind == "file"}
    listed = {fl for d in C.dirs.values() for _, fl in d}
    if loose & listed and len(C.remotes) > 1:
        f.append("loose-file-shares-content-with-listed-file")
    f.append(f"fails:{min(len(C.case.get('fails') or []), 4)}")
    if C.case.get("fails"):
        f.append("fault-kind:" + ("EACCES" if C.case.get("eacces") else "EIO"))
    if C.case.get("ffails"):
        f.append("fetch-faults")
    if not all(covered(C.map, k) for _, k, _ in C.items):
        f.append("item-outside-every-prefix")
    return f


def run_one(ctx, case):
    C = Case(case)
    obs = run_real(ctx, C)
    problems = judge(C, obs)
    inp, exp = model_terms(C, obs)
    r0 = obs["rounds"][0]
    moved = sum(len(set(r0["after"][s]) - set(r0["before"][s])) for s in C.stores)
    receivers = sum(1 for s in C.stores if set(obs["rounds"][1]["after"][s]) - set(obs["initial"][s]))
    nontrivial = (moved + len(case.get("fails") or [])) >= 2 and (bool(case.get("fails")) or receivers >= 2)
    return C, obs, problems, inp, exp, nontrivial


# dense enumeration for __getitem__ alone


def getitem_cases(ctx):
    from dvc_data.index.index import ObjectStorage, StorageInfo, StorageKeyError, StorageMapping

    universe = [(), ("a",), ("a", "b"), ("a", "b", "c"), ("x",), ("a", "c")]
    keys = universe + [("a", "b", "c", "d"), ("x", "y"), ("b",)]
    items = []
    n = ctx.n(100, 1500)
    for _ in range(n):
        k = ctx.rng.choice([1, 2, 2, 3, 3, 4])
        prefixes = ctx.rng.sample(universe, k)
        sm = StorageMapping()
        smap = []
        sid = 1
        for p in prefixes:
            info = {}
            for role in ("data", "cache", "remote"):
                if ctx.rng.random() < 0.5:
                    st = ObjectStorage(p, None)
                    st.sid = sid
                    info[role] = st
                    sid += 1
            sm[p] = StorageInfo(**info)
            smap.append((p, {r: s.sid for r, s in info.items()}))
        exp = []
        for key in keys:
            try:
                si = sm[key]
                got = tuple(None if x is None else x.sid for x in (si.data, si.cache, si.remote))
                exp.append(vL([vL([vL([]) if x is None else vL([vN(x)]) for x in got])]))
                want = tuple(resolve(smap, key, r) for r in ("data", "cache", "remote"))
                if got != want:
                    ctx.oracle_fail("C18:resolve-not-longest-prefix",
                                    f"map {smap} key {key}: __getitem__ gives {got}, longest defining prefixes give {want}",
                                    {"getitem": {"map": [[list(p), i] for p, i in smap], "key": list(key)}})
            except StorageKeyError:
                exp.append(vL([]))
                if any(is_prefix(p, key) for p, _ in smap):
                    ctx.oracle_fail("C18:resolve-keyerror", f"map {smap} key {key}: StorageKeyError although a prefix matches",
                                    {"getitem": {"map": [[list(p), i] for p, i in smap], "key": list(key)}})

        def info_term(i):
            return ("{| si_data := %s; si_cache := %s; si_remote := %s |}"
                    % tuple(copt(i.get(r), cN) for r in ("data", "cache", "remote")))
        inp = cpair(clist([cpair(ckey(p), info_term(i)) for p, i in smap]), clist([ckey(k) for k in keys]))
        cj = {"getitem": {"map": [[list(p), i] for p, i in smap]}}
        items.append((cj, inp, vL(exp)))
        ctx.case(cj, len(smap) >= 2)
        ctx.count("getitem:prefixes:%d" % len(smap))
    return items


def corrupted_remote_scenario(ctx):
    """oracle only, fixed, every run: fetch from a remote store configured verify=True one of whose objects has rotted
    (bytes no longer match the name).  The rotted object must not end up in the cache (it would be write-protected and
    trusted from then on); the intact ones are fetched; the failure is counted.  Both remote store classes, file at the
    root and inside a directory object.  (The theorems quantify over placements and upload-failure subsets of GENUINE
    objects; this scenario is an audit of the verify flag `fetch` hands to transfer.) -> problems"""
    from dvc_objects.fs.local import localfs

    from dvc_data.hashfile.db import HashFileDB
    from dvc_data.hashfile.db.local import LocalHashFileDB
    from dvc_data.hashfile.hash_info import HashInfo
    from dvc_data.hashfile.meta import Meta
    from dvc_data.index import DataIndex, DataIndexEntry, ObjectStorage
    from dvc_data.index.fetch import collect, fetch

    problems = []
    root = ctx.fresh("c18rot")
    for rcls in (HashFileDB, LocalHashFileDB):
        for cache_verify in (False, None):
            base = os.path.join(root, f"{rcls.__name__}-{cache_verify}")
            os.makedirs(base)
            remote = rcls(localfs, os.path.join(base, "remote"), verify=True)
            ckw = {} if cache_verify is None else {"verify": cache_verify}
            cache = LocalHashFileDB(localfs, os.path.join(base, "cache"), **ckw)
            contents = {("a",): b"alpha", ("d", "b"): b"beta", ("d", "c"): b"gamma"}
            idx = DataIndex()
            for k, v in contents.items():
                oid = hashlib.md5(v).hexdigest()
                sp = os.path.join(base, "src-" + oid)
                with open(sp, "wb") as f:
                    f.write(v)
                remote.add(sp, localfs, oid)
                idx[k] = DataIndexEntry(key=k, meta=Meta(size=len(v)), hash_info=HashInfo("md5", oid))
            idx.storage_map.add_cache(ObjectStorage((), cache))
            idx.storage_map.add_remote(ObjectStorage((), remote))
            rotted = hashlib.md5(b"beta").hexdigest()
            bp = remote.oid_to_path(rotted)
            os.chmod(bp, 0o644)
            with open(bp, "wb") as f:
                f.write(b"ROT!")
            tag = f"remote {rcls.__name__}(verify=True), cache verify={cache_verify}"
            try:
                res = fetch(collect([idx], "remote"))
            except Exception as exc:  # noqa: BLE001
                problems.append(f"{tag}: fetch raised {type(exc).__name__}: {exc}")
                continue
            held = {}
            for d, _s, files in os.walk(cache.path):
                for fn_ in files:
                    if len(os.path.basename(d)) == 2 and len(fn_) == 30:
                        with open(os.path.join(d, fn_), "rb") as f:
                            held[os.path.basename(d) + fn_] = f.read()
            wrong = {k: v for k, v in held.items() if hashlib.md5(v).hexdigest() != k}
            if wrong:
                problems.append(f"{tag}: the cache now holds {wrong!r} (rotted remote object accepted), fetch returned {res!r}")
            for k, v in contents.items():
                oid = hashlib.md5(v).hexdigest()
                if oid != rotted and held.get(oid) != v:
                    problems.append(f"{tag}: intact object of {k!r} not fetched, fetch returned {res!r}")
            if isinstance(res, tuple) and len(res) == 2 and res[0] + res[1] > len(contents):
                problems.append(f"{tag}: fetched + failed = {res!r} exceeds the {len(contents)} requested objects")
    return problems


def run(ctx):
    for what in corrupted_remote_scenario(ctx)[:3]:
        ctx.oracle_fail("C18:fetch-from-verifying-remote:rotted-object-accepted-or-intact-lost", what,
                        {"scenario": "remote store verify=True with one rotted object (both store classes), cache verify False / "
                                     "default; fetch(collect([index], 'remote'))"})
    ctx.extra.setdefault("input_dimensions", {})["fault:rotted object on a verify=True remote (audit, oracle only)"] = 4
    items = []
    cases = [dict(c) for c in CORPUS]
    nbase = ctx.n(16, 100)
    limit = 3 if ctx.tier == "quick" else 6
    ksample = 4 if ctx.tier == "quick" else 24
    made = 0
    tries = 0
    while made < nbase and tries < nbase * 30:
        tries += 1
        x = ctx.rng.random()
        base = gen_shared(ctx.rng) if x < 0.25 else gen_root(ctx.rng) if x < 0.35 else gen_base(ctx.rng)
        sample_routes(ctx.rng, base)
        C = usable(base, ctx.rng)
        if C is None:
            ctx.count("generator:rejected")
            continue
        ctx.count("stream:" + (C.klass() or "passing"))
        add_pre(ctx.rng, base, C)
        if C.klass() is None:
            x = ctx.rng.random()
            if x < 0.25:
                base["ro_fetch"] = sorted(ctx.rng.sample(C.remotes, ctx.rng.randint(1, len(C.remotes))))
            elif x < 0.35:
                base["ro_push"] = [ctx.rng.choice(C.remotes)]
        sample_producer(ctx.rng, base, Case(base))
        C = Case(base)
        ups = uploads_of(C)
        if not ups:
            ctx.count("generator:nothing-to-push")
            if ctx.rng.random() < 0.8:
                continue
        made += 1
        subsets = fail_subsets(ctx.rng, ups, limit, ksample)
        ctx.count("uploads:%s" % (len(ups) if len(ups) <= 6 else ">6"))
        for fs in subsets:
            c = dict(base)
            c["fails"] = [list(f) for f in fs]
            sample_flags(ctx.rng, c, C)
            if C.klass() is None and ctx.rng.random() < 0.15:
                # faults in the first fetch as well: any object a fresh cache has to receive
                CC = Case(c)
                pool = [(CC.fresh[gc], t) for r, gc, req in CC.groups(CC.map) for t in sorted(req)]
                if pool and c.get("efault") != "EEXIST":
                    c["ffails"] = [list(x) for x in ctx.rng.sample(pool, min(len(pool), ctx.rng.randint(1, 2)))]
            cases.append(c)
    dims = {}
    for c in cases:
        C, obs, problems, inp, exp, nontrivial = run_one(ctx, c)
        ctx.case(c, nontrivial)
        for f in features(C, obs):
            ctx.count(f)
        for dm in dimensions(C, obs):
            dims[dm] = dims.get(dm, 0) + 1
        for sig, what in problems:
            ctx.oracle_fail(sig, what, c)
        items.append((c, inp, exp))
    ctx.obligation("oracle:push-fetch", not any(v.kind == "oracle" for v in ctx.violations),
                   f"{len(items)} scenarios (push with faults, clean retry, fetch, checkout) judged from os-level listings")
    gi = getitem_cases(ctx)
    ctx.obligation("oracle:resolve", not any(v.kind == "oracle" and v.signature.startswith("C18:resolve") for v in ctx.violations),
                   f"{len(gi)} maps x 9 keys: StorageMapping.__getitem__ against the longest-defining-prefix rule")
    ctx.correspond("getitem", IMPORTS, "smap * list key", "run_getitem", gi)
    ctx.correspond("pushfetch", IMPORTS, "scen", "run_scen", items, shard=60)
    ctx.extra["multi_cache_stream"] = MULTI_CACHE_STREAM
    ctx.extra["input_dimensions"] = dict(sorted(dims.items()))


def replay_case(ctx, case):
    if "getitem" in case:
        return {"violates": False, "note": "resolution case: re-run the check"}
    C, obs, problems, inp, exp, nontrivial = run_one(ctx, case)
    rounds = [{"kind": r["kind"], "fails": r["fails"], "result": r["result"], "err": r["err"],
               "after": {s: sorted(v) for s, v in r["after"].items()}} for r in obs["rounds"]]
    return {"violates": bool(problems), "problems": problems, "rounds": rounds,
            "checkout": None if obs.get("checkout") is None else sorted(obs["checkout"]["files"])}
