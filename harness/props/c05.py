"""C05 - checkout never destroys user data that is not recoverable from the cache."""

from props import _objcheckout_audit as A
from props import _objcheckout_common as C
from props import _objcheckout_kind as K
from props import _objcheckout_links as L
from props import _objcheckout_rm as R

PROPERTY = "C05"
GEN = ["types", "odiff", "relink", "objcheckout"]
RULE = (
    "prior workspaces derived from a cached version by user actions (files edited/replaced with uncached "
    "contents, added, deleted, older cached versions, objects meanwhile collected from the cache, dangling "
    "links) x targets over <=5 nested paths with duplicate and empty contents x force off (10% on) x prompt "
    "absent/declining/accepting/accepting some x relink on/off x LocalHashFileDB/HashFileDB x configured link "
    "types (single and lists) x existing kind copy/hardlink/symlink x with/without State; plus a stream with "
    "target objects missing from the cache; plus two-checkout histories in one process on one cache directory "
    "(forced checkout of version 1, objects collected from the cache, unforced checkout of version 2 through the "
    "same or a fresh odb object, or a timestamp-preserving restore of a checked-out file - new inode, same size and "
    "mtime, uncached bytes - under an attached hash state); plus histories record/modify/replace/remove/clean-up on tracked links with "
    "sub-second (0.25 s, 1 us) in-place rewrites inside recorded directory links.  Every case is run twice (second call on the result).  Non-trivial: the first call changed the "
    "workspace or raised."
)
ASSUMPTIONS = [
    "model and theorems: the target is a non-empty directory object (or a single file, C10) and workspace paths agree in kind with it; paths that change kind (file <-> directory) are judged by the lost-bytes oracle only (harness/props/_objcheckout_kind.py)",
    "cache objects are intact (corruption is C07) and the hashes fed to in_cache are not stale (C13); explicit utimes in the harness",
    "link primitives of dvc_objects behave as Model/ObjCheckout.v link_step states (exercised by the correspondence)",
    "the iteration order of old_keys | new_keys is observed and passed to the model; theorems hold for every order",
]


# checked out with a hash state attached, then restored by the user over the same path with the same size
# and mtime but another inode and uncached bytes; the next unforced checkout must refuse (each link type)
CORPUS = [
    {"stream": "history", "cls": cls, "types": [ty], "state": True, "relink": False, "second": "plain",
     "force": True, "prompt": "none", "prior": None, "target": {"a": "A", "sub/c": "B"}, "cache": ["A", "B", "D"],
     "call2": {"drop": [], "target": {"a": "A", "sub/c": "D"}, "force": False, "prompt": pm, "relink": False,
               "fresh_odb": fresh, "user": "replace_preserving:sub/c"}}
    for cls, ty, pm, fresh in (("local", "copy", "none", False), ("base", "hardlink", "no", True),
                               ("local", "symlink", "none", True))
]


def run(ctx):
    C.check_deciders(ctx)
    streams = [("guard", ctx.n(50, 550)), ("history", ctx.n(25, 250)), ("missing", ctx.n(15, 150)), ("converge", ctx.n(10, 100))]
    if C.INCLUDE_DANGLING:
        streams.append(("dangling", ctx.n(10, 100)))
    items = C.run_stream(ctx, streams, "C05")
    items.extend(A.run_audit(ctx, "C05"))                   # tools/COVERAGE_AUDIT.md: every dimension, every run
    for case in CORPUS:                                     # regression inputs, always run
        case = dict(case, contents=dict(C.CONTENT_POOL))
        r = C.run_case(ctx, case)
        ctx.case(case, r["nontrivial"])
        for sig, what in r["c05"]:
            ctx.oracle_fail(sig, what, case)
        items.extend(r["items"])
    ctx.obligation("oracle:no-unrecoverable-loss", not any(v.kind == "oracle" for v in ctx.violations),
                   f"{len(items)} real checkouts: every byte string lost from the workspace accounted against the cache / prompt")
    ctx.correspond("checkout", C.IMPORTS, "co_in", "fun i => enc_result (run_in i)", items, shard=60)
    L.run_links(ctx, ctx.n(40, 400))
    L.run_refused(ctx, ctx.n(12, 48))
    K.run_kinds(ctx, ctx.n(20, 192))
    K.run_large_files(ctx)
    R.run_rm(ctx, ctx.n(16, 300))


def replay_case(ctx, case):
    if "ops" in case:
        return L.replay(ctx, case)
    if case.get("falsy"):
        return R.replay(ctx, case)
    if case.get("large_files"):
        before = len(ctx.violations)
        K.run_large_files(ctx)
        return {"violates": len(ctx.violations) > before}
    if case.get("kind_change"):
        problems, out = K.run_kind_case(ctx, case)
        return {"outcome": out, "problems": problems, "violates": bool(problems)}
    if case.get("refused_cleanup"):
        problems, recorded, unused = L.run_refused_cleanup(ctx, case)
        return {"recorded": recorded, "unused": unused, "problems": problems, "violates": bool(problems)}
    return C.replay(ctx, case, "C05")
