"""C06 - gc removes exactly the unused objects and never a used one."""

import itertools
import os

from lib import impl
from lib.core import cN, cbool, cbytes, clist, copt, cpair, ctor, vL, vN, vset

PROPERTY = "C06"
GEN: list = []
RULE = (
    "stores are built from <=3 file objects, <=2 directory objects over them (shared files, a listed "
    "file that is absent), an unused directory object and a stray file; used sets range over store ids, "
    "an absent id and an id of another algorithm; x shallow/expanding x dry/real x store class x "
    "read-only x loadable/corrupt/missing directory object in cache_odb. quick: seeded sample; thorough: "
    "the full product. A case is non-trivial when gc removed at least one object and kept at least one, "
    "or raised."
)
ASSUMPTIONS = [
    "odb.all() lists exactly the files at <root>/<2 chars>/<rest> (dvc_objects; observed independently by os.listdir)",
    "Tree.load raises FileNotFoundError / ObjectFormatError for a missing / unparsable directory object",
]

IMPORTS = "From Coq Require Import NArith List.\nFrom DvcData Require Import Model.Gc."


def gen_cases(ctx):
    F = [b"f-one", b"f-two", b"", b"f-absent"]
    fo = [impl.md5hex(b) for b in F]
    d1 = [("a", fo[0]), ("sub/b", fo[1])]
    d2 = [("x", fo[1]), ("y/z", fo[2]), ("gone", fo[3])]  # lists a file that is not in the store
    d3 = [("only", fo[0])]
    dirs = {"D1": d1, "D2": d2, "D3": d3}
    store_variants = []
    for files in itertools.chain.from_iterable(itertools.combinations(range(3), k) for k in range(4)):
        for ds in (["D1"], ["D1", "D2"], ["D2", "D3"], [], ["D1", "D2", "D3"]):
            store_variants.append((files, ds))
    used_universe = [("md5", fo[0]), ("md5", fo[1]), ("md5", fo[2]), ("md5", "D1"), ("md5", "D2"),
                     ("md5", "D3"), ("md5", "0" * 32), ("sha256", fo[0]), ("md5-dos2unix", "D1")]
    out = []
    for (files, ds) in store_variants:
        for r in range(0, 4):
            for used in itertools.combinations(used_universe, r):
                for shallow in (True, False):
                    for dry in (False, True):
                        out.append({"files": list(files), "dirs": ds, "used": list(used),
                                    "shallow": shallow, "dry": dry})
    return out, fo, dirs, F


def run_case(ctx, case, fo, dirs, F):
    """returns (input_term, impl_val, oracle problems)"""
    from dvc_objects.errors import ObjectDBPermissionError, ObjectFormatError

    from dvc_data.hashfile.gc import gc
    from dvc_data.hashfile.hash_info import HashInfo

    root = ctx.fresh("gc")
    store = os.path.join(root, "store")
    cache = os.path.join(root, "cache") if case.get("sep_cache") else store
    cls = case.get("cls", "local")
    alg = case.get("alg", "md5")
    for fi in case["files"]:
        impl.plant(store, fo[fi], F[fi])
    doid = {}
    for dn, lst in dirs.items():
        doid[dn] = impl.dir_oid(lst)
    for dn in case["dirs"]:
        impl.plant(store, doid[dn], impl.canon_listing(dirs[dn]))
    if case.get("stray"):
        impl.plant(store, "zz" + "tmpstray", b"partial", mode=0o644)
        with open(os.path.join(store, "rootfile"), "wb") as f:
            f.write(b"not an object")
    trees = {}  # what cache_odb can load: dn -> ok | corrupt | notalist | missing
    for dn in dirs:
        forced = case.get("cache_state", {}).get(dn)
        if cache != store:
            st = forced or "ok"
        else:
            st = forced or ("ok" if dn in case["dirs"] else "missing")
            if st == "missing" and dn in case["dirs"]:
                st = "ok"
        if st == "ok" and cache != store:
            impl.plant(cache, doid[dn], impl.canon_listing(dirs[dn]))
        elif st == "corrupt":
            impl.plant(cache, doid[dn], b"{not json")
        elif st == "notalist":
            impl.plant(cache, doid[dn], b'{"a": 1}')
        trees[dn] = st
    # when cache == store, planting into the cache changed the store: re-observe
    before = impl.walk_store(store)
    odb = impl.make_odb(cls, store, read_only=case.get("ro", False), hash_name=alg)
    cache_odb = impl.make_odb(cls, cache, hash_name=alg) if cache != store else None
    used = [HashInfo(n, doid.get(v, v)) for n, v in case["used"]]
    try:
        n = gc(odb, used, cache_odb=cache_odb, shallow=case["shallow"], dry=case["dry"])
        res = ("ok", n)
    except ObjectDBPermissionError:
        res = ("err", 1)
    except FileNotFoundError:
        res = ("err", 2)
    except ObjectFormatError:
        res = ("err", 3)
    except Exception as exc:  # noqa: BLE001
        res = ("exc", type(exc).__name__)
    after = impl.walk_store(store)

    # ---- model input
    trees_term = []
    for dn in dirs:
        if trees[dn] == "ok":
            trees_term.append(cpair(cbytes(doid[dn]), copt([cbytes(h) for _, h in dirs[dn]], clist)))
        elif trees[dn] in ("corrupt", "notalist"):
            trees_term.append(cpair(cbytes(doid[dn]), "None"))
    inp = ("{| g_store := %s; g_alg := %s; g_ro := %s; g_used := %s; g_trees := %s; g_shallow := %s; g_dry := %s |}"
           % (clist([cbytes(o) for o in sorted(before)]), cbytes(alg), cbool(case.get("ro", False)),
              clist([cpair(cbytes(n), cbytes(doid.get(v, v))) for n, v in case["used"]]),
              clist(trees_term), cbool(case["shallow"]), cbool(case["dry"])))
    if res[0] == "ok":
        exp = vL([vN(1), vN(res[1]), vset(after.keys())])
    elif res[0] == "err":
        exp = vL([vN(0), vN(res[1])])
    else:
        exp = vL([vN(0), vN(99)])

    # ---- oracle: the property itself, computed independently
    problems = []
    used_set = set()
    load_fail = False
    for n, v in case["used"]:
        if n != alg:
            continue
        v = doid.get(v, v)
        used_set.add(v)
        if v.endswith(".dir") and not case["shallow"]:
            dn = [k for k, o in doid.items() if o == v][0]
            if trees[dn] == "ok":
                used_set.update(h for _, h in dirs[dn])
            else:
                load_fail = True
    if case.get("ro"):
        if res != ("err", 1):
            problems.append(("C06:readonly-not-refused", f"read-only store: gc returned {res}"))
        if after != before:
            problems.append(("C06:readonly-modified", "read-only store was modified"))
    elif res[0] == "exc":
        problems.append((f"C06:unexpected-exception:{res[1]}", f"gc raised {res[1]}"))
    elif res[0] == "err":
        if not load_fail:
            problems.append(("C06:spurious-error", f"gc failed with {res} although every used directory loads"))
        if after != before:
            problems.append(("C06:error-but-modified", "gc raised but had already removed objects"))
    else:
        lost_used = [o for o in before if o in used_set and o not in after]
        if lost_used:
            problems.append(("C06:removed-used", f"used object(s) removed: {lost_used}"))
        unused = [o for o in before if o not in used_set]
        if case["dry"]:
            if after != before:
                problems.append(("C06:dry-modified", "dry run changed the store"))
        else:
            kept_unused = [o for o in unused if o in after]
            if kept_unused:
                problems.append(("C06:kept-unused", f"unused object(s) not removed: {kept_unused}"))
            if any(after[o] != before[o] for o in after if o in before) or set(after) - set(before):
                problems.append(("C06:store-altered", "gc altered or created objects"))
        if not load_fail and res[1] != len(unused):
            problems.append(("C06:count", f"returned {res[1]}, unused objects: {len(unused)}"))
    nontrivial = res[0] != "ok" or (0 < len(after) < len(before))
    impl.rm_rf(root)
    return inp, exp, problems, nontrivial, res


def run(ctx):
    cases, fo, dirs, F = gen_cases(ctx)
    # configuration dimensions sampled on top of the structural product
    extra = []
    for c in cases:
        for cls in ("local", "base"):
            extra.append({**c, "cls": cls})
    full = extra
    k = ctx.n(260, 6000)
    sample = ctx.rng.sample(full, min(k, len(full)))
    # sprinkle the remaining dimensions
    for c in sample:
        r = ctx.rng.random()
        if r < 0.08:
            c["ro"] = True
        if ctx.rng.random() < 0.3:
            c["stray"] = True
        if ctx.rng.random() < 0.3:
            c["sep_cache"] = True
        if ctx.rng.random() < 0.25:
            c["cache_state"] = {ctx.rng.choice(list(dirs)): ctx.rng.choice(["corrupt", "notalist", "missing"])}
        if ctx.rng.random() < 0.15:
            c["alg"] = "md5-dos2unix"
    corpus = [
        {"files": [0, 1], "dirs": ["D1"], "used": [("md5", "D1")], "shallow": False, "dry": False, "cls": "local"},
        {"files": [0, 1, 2], "dirs": ["D1", "D2"], "used": [("md5", "D2")], "shallow": False, "dry": True, "cls": "base"},
        {"files": [0], "dirs": ["D3"], "used": [], "shallow": True, "dry": False, "cls": "local"},
    ]
    items = []
    for c in corpus + sample:
        inp, exp, problems, nontrivial, res = run_case(ctx, c, fo, dirs, F)
        ctx.case(c, nontrivial)
        ctx.count("result:" + ("ok" if res[0] == "ok" else f"err{res[1]}"))
        ctx.count("mode:" + ("shallow" if c["shallow"] else "expand") + ("/dry" if c["dry"] else "/real"))
        ctx.count("class:" + c.get("cls", "local"))
        for sig, what in problems:
            ctx.oracle_fail(sig, what, c)
        items.append((c, inp, exp))
    ctx.obligation("oracle:gc", not any(v.kind == "oracle" for v in ctx.violations),
                   f"{len(items)} real gc runs judged by the independent set-difference oracle")
    ctx.correspond("gc", IMPORTS, "gc_in", "fun i => enc_gc_out (gc i)", items)
    ctx.extra["exhaustive"] = False if ctx.tier == "quick" else (len(sample) == len(full))


def replay_case(ctx, case):
    cases, fo, dirs, F = gen_cases(ctx)
    inp, exp, problems, nontrivial, res = run_case(ctx, case, fo, dirs, F)
    return {"result": res, "problems": problems, "violates": bool(problems)}
